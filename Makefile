# Builds the simulation harnesses from /repo's CURRENT working tree.
# Driven by tools/build.sh (which makes sure build/cfg/config.h exists).
REPO ?= /repo
B    := build
CFG  := $(B)/cfg
CC   := clang
CXX  := clang++
SAN  ?= -fsanitize=address,undefined -fno-sanitize-recover=undefined -fsanitize-ignorelist=$(CURDIR)/tools/ubsan-ignorelist.txt
OPT  ?= -O1 -g -fno-omit-frame-pointer

DBUS_DEFS := -DHAVE_CONFIG_H -D_GNU_SOURCE -DDBUS_COMPILATION -DDBUS_BUILT_R_DYNAMIC -DDBUS_STATIC_BUILD \
             -DDBUS_VERIF_SIM -U_FORTIFY_SOURCE -D_FORTIFY_SOURCE=0
DBUS_INC  := -I$(CFG) -I$(REPO)
DBUS_CFLAGS := $(OPT) $(SAN) $(DBUS_DEFS) $(DBUS_INC) -w -std=gnu99 -pthread
# bus/ sources need the expat include and the "dbus-daemon" machine dirs; config.h has the rest
BUS_CFLAGS  := $(DBUS_CFLAGS) -DDBUS_MACHINE_UUID_FILE_SIM

DBUS_SRCS := dbus-address dbus-auth dbus-bus dbus-connection dbus-credentials dbus-errors dbus-keyring \
  dbus-marshal-header dbus-marshal-byteswap dbus-marshal-recursive dbus-marshal-validate dbus-message \
  dbus-misc dbus-nonce dbus-object-tree dbus-pending-call dbus-resources dbus-server dbus-server-socket \
  dbus-server-debug-pipe dbus-sha dbus-signature dbus-syntax dbus-timeout dbus-threads dbus-transport \
  dbus-transport-socket dbus-watch dbus-uuidgen dbus-transport-unix dbus-server-unix \
  dbus-dataslot dbus-file dbus-hash dbus-internals dbus-list dbus-marshal-basic dbus-memory dbus-mempool \
  dbus-string dbus-sysdeps dbus-pipe dbus-test-tap \
  dbus-asv-util dbus-mainloop dbus-message-util dbus-shell dbus-pollable-set dbus-pollable-set-poll \
  dbus-string-util dbus-sysdeps-util \
  dbus-file-unix dbus-pipe-unix dbus-sysdeps-unix dbus-sysdeps-pthread dbus-userdb dbus-userdb-util \
  dbus-sysdeps-util-unix dbus-spawn-unix dbus-pollable-set-epoll

BUS_SRCS := activation apparmor audit bus config-loader-expat config-parser config-parser-common \
  connection containers desktop-file dir-watch-inotify dispatch driver expirelist policy selinux \
  services signals test utils stats

HELPER_SRCS := activation-helper config-loader-expat config-parser-common config-parser-trivial desktop-file utils

DBUS_OBJS := $(addprefix $(B)/obj/dbus/,$(addsuffix .o,$(DBUS_SRCS)))
BUS_OBJS  := $(addprefix $(B)/obj/bus/,$(addsuffix .o,$(BUS_SRCS)))
HELPER_OBJS := $(addprefix $(B)/obj/bus/,$(addsuffix .o,$(HELPER_SRCS)))

SIM_CXXFLAGS := -std=c++17 $(OPT) $(SAN) -Wall -Wno-unused-function -Isim -I$(CFG) -I$(REPO) -DDBUS_VERIF_SIM -DDBUS_COMPILATION -DHAVE_CONFIG_H -DDBUS_STATIC_BUILD -U_FORTIFY_SOURCE -D_FORTIFY_SOURCE=0 -pthread
SIM_COMMON := sim/kernel/kernel sim/codec/wire sim/core/core
SIM_COMMON_OBJS := $(addprefix $(B)/obj/,$(addsuffix .o,$(SIM_COMMON)))
SIMBUS_SRCS := sim/harness/simbus sim/harness/busworld sim/harness/exec sim/harness/gen sim/model/busmodel sim/model/matchrule sim/model/policy
SIMBUS_OBJS := $(addprefix $(B)/obj/,$(addsuffix .o,$(SIMBUS_SRCS)))
SIMLIB_SRCS := sim/harness/simlib sim/harness/libworld sim/harness/libchecks sim/harness/libstream sim/harness/libpending sim/harness/libtree sim/harness/libauth sim/harness/liboom sim/sched/sched
SIMLIB_OBJS := $(addprefix $(B)/obj/,$(addsuffix .o,$(SIMLIB_SRCS)))

WRAPS := socket socketpair bind listen accept accept4 connect getsockname getpeername getsockopt setsockopt \
  shutdown read write writev send recv sendmsg recvmsg close dup dup2 fcntl pipe pipe2 poll epoll_create \
  epoll_create1 inotify_init inotify_init1 clock_gettime gettimeofday time nanosleep usleep getrandom \
  getuid geteuid getgid getegid getpid getpwnam_r getpwuid_r getpwnam getpwuid getgrnam_r getgrgid_r getgrnam \
  getgrouplist fork waitpid kill setrlimit prlimit sd_uid_get_seats sd_journal_stream_fd sd_notify sd_listen_fds _dbus_spawn_async_with_babysitter
# libdbus' platform thread layer: the seam of the serialising thread scheduler (sim/sched), simlib only
THREAD_WRAPS := _dbus_platform_cmutex_lock _dbus_platform_cmutex_unlock _dbus_platform_rmutex_lock _dbus_platform_rmutex_unlock \
  _dbus_platform_condvar_wait _dbus_platform_condvar_wait_timeout _dbus_platform_condvar_wake_one
THREAD_WRAPFLAGS := $(foreach w,$(THREAD_WRAPS),-Wl,--wrap=$(w))
WRAPFLAGS := $(foreach w,$(WRAPS),-Wl,--wrap=$(w))
RTDIR := $(shell clang -print-resource-dir)/lib/linux
# shared sanitizer runtime: --wrap must not capture the runtime's own pipe/fork/read (symbolizer)
LIBS := -shared-libasan -Wl,-rpath,$(RTDIR) -lexpat -lpthread -lsystemd

.PHONY: all clean
all: $(B)/simbus $(B)/simlib $(B)/simhelper

$(B)/obj/dbus/%.o: $(REPO)/dbus/%.c $(CFG)/config.h
	@mkdir -p $(dir $@)
	$(CC) $(DBUS_CFLAGS) -MMD -MP -c $< -o $@

$(B)/obj/bus/%.o: $(REPO)/bus/%.c $(CFG)/config.h
	@mkdir -p $(dir $@)
	$(CC) $(BUS_CFLAGS) -MMD -MP -c $< -o $@

$(B)/obj/sim/%.o: sim/%.cc
	@mkdir -p $(dir $@)
	$(CXX) $(SIM_CXXFLAGS) -MMD -MP -c $< -o $@

# bus_config_load is wrapped in simbus only: the harness learns whether a reload failed while parsing or afterwards
$(B)/simbus: $(DBUS_OBJS) $(BUS_OBJS) $(SIM_COMMON_OBJS) $(SIMBUS_OBJS)
	$(CXX) $(SAN) $(OPT) -o $@ $^ $(WRAPFLAGS) -Wl,--wrap=bus_config_load $(LIBS)

HELPER_OBJS := $(addprefix $(B)/obj/helper/,$(addsuffix .o,$(HELPER_SRCS)))
$(B)/obj/helper/%.o: $(REPO)/bus/%.c $(CFG)/config.h
	@mkdir -p $(dir $@)
	$(CC) $(BUS_CFLAGS) -DACTIVATION_LAUNCHER_TEST -MMD -MP -c $< -o $@

$(B)/simhelper: $(DBUS_OBJS) $(HELPER_OBJS) $(SIM_COMMON_OBJS) $(B)/obj/sim/harness/simhelper.o
	$(CXX) $(SAN) $(OPT) -o $@ $^ $(WRAPFLAGS) -Wl,--wrap=execv $(LIBS)

# stub-vs-Linux conformance of the simulated kernel (tools/conformance.sh); needs no dbus code except the spawn symbol the kernel wraps
$(B)/simconf: $(DBUS_OBJS) $(SIM_COMMON_OBJS) $(B)/obj/sim/kernel/conformance.o
	$(CXX) $(SAN) $(OPT) -o $@ $^ $(WRAPFLAGS) $(LIBS)

$(B)/simlib: $(DBUS_OBJS) $(SIM_COMMON_OBJS) $(SIMLIB_OBJS)
	$(CXX) $(SAN) $(OPT) -o $@ $^ $(WRAPFLAGS) $(THREAD_WRAPFLAGS) $(LIBS)

clean:
	rm -rf $(B)/obj $(B)/simbus $(B)/simlib $(B)/simhelper

-include $(shell find $(B)/obj -name '*.d' 2>/dev/null)
