#!/bin/bash
# Confirm a sub-agent's seeded change myself, in its scratch worktree /tmp/sa/<id>:
#  - patch applies to a clean tree, builds, full ctest passes with it
#  - demo fails with the change and passes without it
# then store it as /verif/seeded/<id>/ (patch.diff, demo, meta.json is written by hand afterwards)
id=$1; W=/tmp/sa/$id; O=/tmp/sa/$id-out
set -x
cd $W || exit 2
git checkout -q -- . ; git status --short | grep -v '^??' 
git apply --check $O/patch.diff || { echo "PATCH DOES NOT APPLY"; exit 1; }
# without the change
cmake --build _build > /dev/null 2>&1
( cd $O && timeout 600 ./run.sh $W > $O/verify_without.log 2>&1 ); rc_without=$?
git apply $O/patch.diff
cmake --build _build > $O/verify_build.log 2>&1 || { echo "BUILD FAILS WITH CHANGE"; exit 1; }
( cd $O && timeout 600 ./run.sh $W > $O/verify_with.log 2>&1 ); rc_with=$?
ctest --test-dir _build -j8 --timeout 900 > $O/verify_ctest.log 2>&1; rc_ctest=$?
set +x
echo "RESULT id=$id demo_without=$rc_without demo_with=$rc_with ctest_with=$rc_ctest ($(grep 'tests passed' $O/verify_ctest.log))"
