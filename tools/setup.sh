#!/bin/bash
# One-time setup after a fresh restore: build every harness from files on disk only (offline).
set -e
cd "$(dirname "$0")/.."
mkdir -p build/scratch evidence replays
tools/build.sh all
echo "setup ok"
