#!/usr/bin/env python3
"""tools/oomsurvey.py <seed> [--thorough]: for one C14 plan, every single fault point k of its operation:
outcome class and call site of the failing allocation.  A survey tool for narrowing known-finding signatures."""
import sys, os, re, subprocess, json
ROOT = os.path.dirname(os.path.dirname(os.path.abspath(__file__)))
sys.path.insert(0, os.path.join(ROOT, "tools"))
import simdriver
seed = int(sys.argv[1])
scratch = os.path.join(ROOT, "build", "scratch", "survey%d" % os.getpid())
os.makedirs(scratch, exist_ok=True)
known = simdriver.load_known(ROOT)
simdriver.KNOWN_IDS = ",".join(k["id"] for k in known if k.get("status") == "finding" and k.get("id"))
text = simdriver.emit_plan(ROOT, "simbus", "C14", seed, "--thorough" in sys.argv)
lines = text.splitlines()
op = ""
for i, l in enumerate(lines):
    if l.startswith("step oombus") and i > 0:
        op = " ".join(lines[i - 1].split(" ")[1:5])
env = dict(os.environ, SIM_SCRATCH=scratch, SIM_KNOWN=simdriver.KNOWN_IDS, SIM_OOMK_TRACE="1")
p = os.path.join(scratch, "base.plan")
open(p, "w").write(text.replace("cfg oom.enumerate 1", "cfg oom.enumerate 1\ncfg oom.pairs 0"))
out = subprocess.run([os.path.join(ROOT, "build", "simbus"), "--replay", p], env=env, stdout=subprocess.PIPE, stderr=subprocess.DEVNULL, text=True).stdout
ks = sorted(set(int(l.split()[1]) for l in out.splitlines() if l.startswith("OOMK ")))
n = (max(ks) + 1) if ks else 0
# the enumeration stops at its first failure: take n from a run that skips everything
m = re.search(r'"oom_n": (\d+)', out)
print("seed %d op=[%s] fault points seen before first failure: %d" % (seed, op, n))
k = 0
misses = 0
while misses < 3 and k < 4000:
    pk = os.path.join(scratch, "k.plan")
    open(pk, "w").write(text.replace("cfg oom.enumerate 1", "cfg oom.enumerate 0\ncfg oom.k %d\ncfg oom.gap -1" % k))
    r = simdriver.run_plan(ROOT, "simbus", pk, scratch)
    if r["ok"]:
        # past the last allocation the run is fault-free: three in a row end the survey
        site = simdriver.oom_sites(ROOT, "simbus", pk, scratch)
        if site.startswith("?"): misses += 1
        else: misses = 0; print("k=%-4d ok      site=%s" % (k, site))
    else:
        misses = 0
        site = simdriver.oom_sites(ROOT, "simbus", pk, scratch)
        print("k=%-4d %-50s site=%s" % (k, r["cls"][:50], site))
    k += 1
import shutil; shutil.rmtree(scratch, ignore_errors=True)
