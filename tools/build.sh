#!/bin/bash
# Build the simulation harnesses from /repo's current working tree (hooks ON).
# Idempotent and incremental.  Usage: tools/build.sh [make targets...]
set -e
cd "$(dirname "$0")/.."
REPO=${REPO:-/repo}
CFG=build/cfg
mkdir -p build
# (re)configure when config.h is missing or any CMake input is newer than it
need_cfg=0
if [ ! -f $CFG/config.h ] || [ ! -f $CFG/dbus/dbus-arch-deps.h ]; then need_cfg=1
elif [ -n "$(find $REPO/CMakeLists.txt $REPO/cmake $REPO/dbus/dbus-arch-deps.h.in -newer $CFG/config.h 2>/dev/null | head -1)" ]; then need_cfg=1
fi
if [ $need_cfg = 1 ]; then
  rm -rf $CFG.tmp
  cmake -G Ninja -S $REPO -B $CFG.tmp -DCMAKE_BUILD_TYPE=RelWithDebInfo \
        -DDBUS_ENABLE_EMBEDDED_TESTS=ON -DDBUS_ENABLE_MODULAR_TESTS=ON \
        > build/cmake.log 2>&1 || { cat build/cmake.log >&2; exit 2; }
  mkdir -p $CFG/dbus
  cp $CFG.tmp/config.h $CFG/config.h
  cp $CFG.tmp/dbus/dbus-arch-deps.h $CFG/dbus/dbus-arch-deps.h
  rm -rf $CFG.tmp
fi
make -s -j"$(nproc)" REPO=$REPO "$@" > build/make.log 2>&1 || { tail -50 build/make.log >&2; exit 2; }
