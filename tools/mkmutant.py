#!/usr/bin/env python3
"""Write a mutant patch without touching /repo: mkmutant.py <name> <repo-relative-file> <old> <new>
(old must occur exactly once in the file at /repo's HEAD)."""
import sys, subprocess, difflib
name, rel, old, new = sys.argv[1:5]
src = subprocess.run(["git", "-C", "/repo", "show", "HEAD:" + rel], capture_output=True, text=True, check=True).stdout
if src.count(old) != 1:
    sys.exit("old text occurs %d times" % src.count(old))
dst = src.replace(old, new)
d = difflib.unified_diff(src.splitlines(True), dst.splitlines(True), "a/" + rel, "b/" + rel)
open("/verif/tools/mutants/%s.patch" % name, "w").write("".join(d))
print("wrote", name)
