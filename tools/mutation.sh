#!/bin/bash
# Sensitivity: apply each mutant patch to /repo, run the property's quick check, expect exit 1; always revert.
# usage: tools/mutation.sh [pattern] [budget-s]
cd "$(dirname "$0")/.."
PAT=${1:-}; BUD=${2:-25}
git -C /repo diff --quiet || { echo "/repo has uncommitted changes; refusing"; exit 2; }
for p in tools/mutants/*${PAT}*.patch; do
  name=$(basename $p .patch); prop=${name%%-*}
  git -C /repo apply $PWD/$p || { echo "$name: patch does not apply"; continue; }
  out=$(./check $prop --budget-s $BUD 2>&1); rc=$?
  git -C /repo checkout -q -- .
  v=$(echo "$out" | grep -m1 '^VIOLATION')
  echo "$name: rc=$rc ${v:-no violation} | $(echo "$out" | tail -1)"
done
tools/build.sh   # back to the unmodified tree
