"""Per-property check definitions used by tools/simdriver.py."""

SIMBUS_COMPONENTS = {
    "real": ["bus/*.c (whole dbus-daemon except main.c)", "dbus/*.c (libdbus server side: transport, auth, loader, marshalling, main loop)"],
    "stub": ["Linux kernel (AF_UNIX sockets, poll, clocks, credentials, fork) — sim/kernel", "glibc NSS — simulated user table",
             "D-Bus clients — scripted actors on the independent codec (sim/codec)", "libsystemd calls"],
}
SIMBUS_ASSUME = [
    "kernel stub models Linux AF_UNIX stream semantics (sim/kernel/kernel.cc)",
    "independent wire codec and bus model written from doc/dbus-specification.xml are the oracle",
    "build mirrors the pinned test configuration (embedded tests on)",
    "sampling, not enumeration: a clean batch is evidence over the sampled plans only",
]

def simbus(prop, rule, quick_s=45, thorough_s=600, probes=(), safety_prop="C10", level="exploration"):
    return {"binary": "simbus", "prop": prop, "level": level, "quick_s": quick_s, "thorough_s": thorough_s, "rule": rule,
            "probes": list(probes), "components": SIMBUS_COMPONENTS, "assumptions": SIMBUS_ASSUME, "safety_prop": safety_prop}

RULE = ("plans generated from mix(VERIF_SEED, i) by the %s generator (swarm shape: actors, names, op mix, fault kinds per run); "
        "executed on the real daemon under the simulated kernel; a run is non-trivial when >=1 injected fault fired and >=1 "
        "model expectation was compared against an observed delivery; distinct = distinct FNV trace hash of the full event log")

SIMLIB_COMPONENTS = {
    "real": ["dbus/*.c: DBusServer, DBusConnection, socket transport, SASL (dbus-auth.c), message loader, validators, marshalling, iterators, pending calls, object tree, DBusLoop"],
    "stub": ["Linux kernel (AF_UNIX sockets, poll, clocks, credentials) — sim/kernel", "the wire peer — scripted actor on the independent codec",
             "the application around libdbus — the harness (watch/timeout callbacks on DBusLoop, filters, handlers)"],
}
SIMLIB_ASSUME = [
    "kernel stub models Linux AF_UNIX stream semantics (sim/kernel/kernel.cc)",
    "independent wire codec written from doc/dbus-specification.xml is the oracle (sim/codec)",
    "build mirrors the pinned test configuration (embedded tests on)",
    "sampling, not enumeration: a clean batch is evidence over the sampled plans only",
]

def simlib(prop, rule, quick_s=45, thorough_s=600, probes=(), safety_prop=None, level="exploration"):
    return {"binary": "simlib", "prop": prop, "level": level, "quick_s": quick_s, "thorough_s": thorough_s, "rule": rule,
            "probes": list(probes), "components": SIMLIB_COMPONENTS, "assumptions": SIMLIB_ASSUME, "safety_prop": safety_prop or prop}

LRULE = ("plans generated from mix(VERIF_SEED, i) by the %s generator; executed on the real libdbus endpoint under the simulated kernel; a run is non-trivial when faults fired or the "
         "delivery was cut into several steps and >=1 message was compared against the independent decoding; distinct = distinct FNV trace hash of the full event log")

HELPER_COMPONENTS = {
    "real": ["bus/activation-helper.c (run_launch_helper, built as the test launcher: configuration from TEST_LAUNCH_HELPER_CONFIG, no setuid / user switch), bus/config-parser-trivial.c, bus/desktop-file.c, libdbus"],
    "stub": ["execv() - link-time seam that records the call", "the file system content: generated configuration and service files in a scratch directory (real files)"],
}

CHECKS = {
    "C14L": {"binary": "simlib", "prop": "C14L", "level": "fault_enumeration", "quick_s": 12, "thorough_s": 120,
             "rule": "library operations generated from mix(VERIF_SEED, i): a codec-generated valid message and one operation on it - demarshal, copy, marshal, one header edit (set / unset "
                     "destination, sender, path, interface, member, error name; reply serial; no-reply and auto-start flags) or construction of the whole message through the public API "
                     "(new + setters + iterator append with nested containers); a fault-free execution counts the allocations n, then the operation is repeated from the same prior state with "
                     "allocation k failing for EVERY k in 0..n-1; an evaluation is one (message, operation) with all its k",
             "probes": ["lib_demarshal", "lib_copy", "lib_marshal", "lib_edit", "lib_build"], "components": SIMLIB_COMPONENTS,
             "assumptions": ["dbus's own allocation-failure counter (_dbus_set_fail_alloc_counter) decides which allocation fails", "the independent codec says what the resulting bytes must be"], "safety_prop": "C14"},
    "C19H": {"binary": "simhelper", "prop": "C19H", "level": "exploration", "quick_s": 10, "thorough_s": 120,
             "rule": "helper invocations generated from mix(VERIF_SEED, i): a valid or malformed name argument, 0-4 service files (complete / missing Name, Exec or User / other section / garbage / Name "
                     "of another service) in two service directories, Exec lines with plain, quoted and unterminated-quote words, optionally an allocation failure at a chosen allocation; the "
                     "real run_launch_helper() runs on them; distinct = distinct FNV trace hash",
             "probes": ["helper_executed", "helper_refused_name", "helper_refused_file", "helper_refused_no_file", "helper_nomemory"], "components": HELPER_COMPONENTS,
             "assumptions": ["exec is observed at execv(); the production helper's setuid / user switch (compiled out in the test launcher) is not exercised"], "safety_prop": "C19"},
    "C01": simlib("C01", LRULE % "C01 stream (0-6 structurally generated valid messages of every type/field/nesting shape and both byte orders, targeted shapes, optionally one single-site corruption — structural or byte-level — then more bytes; random max_message_size; arrival chunking, short reads, EINTR, allocation failure inside the loader)",
                  probes=["stream_with_invalid_message", "multi_message_stream", "oom_fired"]),
    "C17": simlib("C17", LRULE % "C17 (up to 8 outstanding calls with timeouts from 0 ms to infinite, observed by notify callback / polling / blocking; cancel, dispatch, read_write_dispatch, loop iterations, clock advances; peer replies in any order, duplicated, with unknown serials, split across writes, never, or closes; serial counter optionally started just below the 32-bit wrap)",
                  probes=["blocked", "cancelled", "cancel_after_completion", "several_calls", "close_with_several_outstanding", "peer_action_during_block", "thread_mode_runs", "thread_waited_for_lock", "thread_waited_on_condition", "blocked_on_another_threads_call"]),
    "C20": simlib("C20", LRULE % "C20 (histories of register / register-fallback / unregister over path sets with shared prefixes, adjacent sibling names and the root, mixed with method calls, signals, Introspect and Peer.Ping from a scripted peer to paths inside, beside and below the registered ones; handlers that decline, handle, stay silent, ask for memory once, unregister themselves or another path, or register a new path while a message is offered; allocation failures in the API calls and in dispatch)",
                  probes=["offer_with_several_candidates", "unknown_method", "unknown_object", "default_introspect", "register_occupied", "register_nomemory", "handler_need_memory",
                          "redispatch_after_need_memory", "candidate_removed_during_offer", "handler_unregisters_self", "handler_registers_new", "builtin_peer_ping"]),
    "C08": simlib("C08", LRULE % "C08 (SASL command sequences over AUTH with every mechanism / unknown mechanisms / with and without initial response, DATA valid / wrong / non-hex, CANCEL, ERROR, BEGIN, NEGOTIATE_UNIX_FD, unknown, empty, non-ASCII and NUL-carrying lines, lines up to 24 KiB and unterminated floods, message bytes before and after BEGIN, in arbitrary chunking; socket credentials equal to / different from the server owner or absent; every allowed-mechanism subset, anonymous on/off, unix-user function absent / allow-all / allow-one / deny-all; cookie responses correct, wrong hash, no blank, another cookie, wrong composition, empty)",
                  probes=["model_authenticated", "admitted", "admission_refused", "cookie_challenge", "cookie_authenticated", "rejection_bound_hit", "line_over_16k", "message_after_begin", "bad_credentials_byte"]),
    "C11": simlib("C11", LRULE % "C11 stream (1-8 valid messages of mixed sizes and byte orders, optionally an invalid one and further bytes; handshake and first message in one write or apart; partitions: all-one-byte, single cut, header-biased cuts, random cuts; independent read-size knob; unsplit fault-free control delivery in the same run)",
                  probes=["stream_with_invalid_message", "multi_message_stream"]),
    "SMOKE": simbus("SMOKE", RULE % "smoke", quick_s=5, thorough_s=10),
    "C03": simbus("C03", RULE % "C03 (Hello irregularities, forged SENDER / unknown fields / container-instance, reconnects, minor-number wrap)",
                  probes=["forged_sender_seen", "unknown_field_seen", "message_before_hello", "second_hello"]),
    "C04": simbus("C04", RULE % "C04 (RequestName all flag combinations + undefined bits, ReleaseName, disconnects, late connects, queries, names-per-connection limit)",
                  probes=["reqname_reply_1", "reqname_reply_2", "reqname_reply_3", "reqname_reply_4", "relname_reply_1", "relname_reply_2", "relname_reply_3",
                          "reqname_reply_1_replace", "replaced_owner_requeued", "replaced_owner_dropped", "waiter_updates_flags", "waiter_dropped_by_dnq",
                          "owner_disconnect_two_waiters", "waiter_removed", "limit_names_hit", "waiter_replaces_owner"]),
    "C05": simbus("C05", RULE % "C05 (unicast to unique / well-known / missing names and the bus, concurrent ownership changes, closes, stalled readers, replies; in 22% of the plans a small max_outgoing_bytes with readers stalling behind small socket buffers)",
                  probes=["dest_missing", "send_to_self", "eavesdrop_copy", "owner_handover_to_waiter", "noreply_on_disconnect", "unicast_refused_queue_full", "dropped_recipient_queue_full"]),
    "C07": simbus("C07", RULE % "C07 (AddMatch/RemoveMatch with grammar-generated and deliberately defective rule strings in several quoting spellings, broadcasts built from the same vocabulary, disconnects, rule limit)",
                  probes=["addmatch_ok", "addmatch_invalid", "rmmatch_ok", "rmmatch_notfound", "broadcast_copy", "limit_rules_hit"], safety_prop="C07"),
    "C13": simbus("C13", RULE % "C13 (random subset of small limits: connections, per-user, incomplete, names, match rules, pending replies, message size; several simulated users; fill / overflow / release / refill)",
                  probes=["limit_names_hit", "limit_rules_hit", "limit_replies_hit", "limit_completed_hit", "limit_per_user_hit", "oversize_message_sent"], safety_prop="C10"),
    "C10": simbus("C10", RULE % "C10 (1-4 byte-level hostile clients: garbage before auth, stalled handshakes, over-long lines, mutated valid messages at header offsets, limit-value length words, truncation, floods, half-sent messages, abrupt closes, many unauthenticated connections, clock advances past auth_timeout; interleaved with a well-behaved pair's round trips and a bystander subscribed to everything)",
                  probes=["hostile_invalid_message", "hostile_closed_by_bus", "auth_timeout_fired", "listener_paused"], safety_prop="C10"),
    "C09": simbus("C09", RULE % "C09 (requested-replies-only policy; calls with and without NO_REPLY_EXPECTED, genuine / duplicate / wrong-serial / third-party replies, reused serials, closes of caller or callee, pending-reply limit, finite reply_timeout with clock advances)",
                  probes=["unrequested_reply_refused", "noreply_on_disconnect", "reply_slot_expired", "limit_replies_hit", "serial_reuse_refused"], safety_prop="C10"),
    "C06": simbus("C06", RULE % "C06 (random allow/deny rule lists over every documented attribute in default / user / group / at_console / mandatory contexts, shared vocabulary with the workload, several simulated users, destinations owning several names or only queued)",
                  probes=["own_denied", "unicast_refused", "send_to_bus_denied", "connect_denied", "policy_receive_denied", "policy_send_denied"], safety_prop="C10"),
    "C18": simbus("C18", RULE % "C18 (name / unicast / broadcast / reply traffic with 0-3 connections becoming monitors at arbitrary points — while owning or queued for names, with calls outstanding — with empty or selective filters, privileged and unprivileged, under allow-all, requested-replies-only and message-refusing policies)",
                  probes=["became_monitor", "became_monitor_while_owning", "became_monitor_while_queued", "became_monitor_with_calls_outstanding", "become_monitor_denied",
                          "monitor_captured_bus_message", "monitor_captured_client_message", "bus_message_refused_by_receive_policy", "unicast_refused", "dest_missing"], safety_prop="C10"),
    "C15": simbus("C15", RULE % "C15 (method calls and signals carrying 0 to beyond-the-maximum descriptors, header count smaller / equal / larger than attached, descriptors riding on the first or a later byte, senders and recipients with and without negotiated descriptor passing, policies refusing by interface or descriptor count, missing destinations, the bus itself as destination, closes of sender or recipient right behind a message, stalled recipients, small per-message and incoming limits, pending_fd_timeout by clock)",
                  probes=["fd_message_sent", "fd_message_received", "fds_without_negotiation", "fewer_fds_than_announced", "more_fds_than_allowed", "surplus_fds_sent", "pending_fd_timeout_fired", "unicast_refused", "dest_missing"], safety_prop="C15"),
    "C19": dict(simbus("C19", RULE % "C19 (several senders auto-starting and StartServiceByName-ing the same and different activatable names concurrently, with NO_AUTO_START and NO_REPLY variants, unicast signals; a scripted service process per fork that reports in, exits with status 0 / non-zero / by signal, or fails to exec, at arbitrary points; some connection taking the name quickly, late, never, or another name; service_start_timeout by clock; closes of waiting senders)",
                  probes=["activation_started", "activation_joined_pending", "activation_completed", "held_message_released", "several_held_messages_released", "activation_failed_exit", "activation_failed_exec",
                          "activation_failed_timeout", "activation_failure_several_waiters", "start_already_running", "start_unknown_service", "service_exit_status_0", "held_message_of_vanished_sender_dropped"], safety_prop="C10"), companion="C19H"),
    "C14": dict(simbus("C14", "for each sampled (history, operation) pair generated from mix(VERIF_SEED, i): one fault-free execution counts the allocations n the bus makes while processing the "
                  "operation, then the whole plan is re-executed n times with allocation k = 0..n-1 of that operation failing (exhaustive in k, sampled in history and operation), and again with "
                  "a second failure gap allocations after the first (hook H5): every (k, gap <= 10) for operations of at most 14 allocations, (even k, gap in {0,3,9}) for operations up to 120; "
                  "operations include ReloadConfig with a different configuration file in place (long operations: when n > 400 the last 150 allocations and a seeded sample of 250 others, all in the thorough tier); an "
                  "evaluation is one (history, operation, k) execution; distinct = distinct trace hash; non-trivial = the injected failure fired and the outcome was compared with both admissible worlds",
                  probes=["oom_outcome_complete", "oom_outcome_nomemory", "oom_retried", "h2_retry_after_oom", "oom_pair_runs", "oom_second_fired", "reload_failed_while_parsing", "reload_failed_after_parsing", "config_reloaded"], safety_prop="C14", level="fault_enumeration"), max_runs=None, companion="C14L"),
}

# ----------------------------------------------------------------------------- MANIFEST texts

_SIMBUS_NOTE = ("Trusted base: the simulated kernel (sim/kernel, Linux AF_UNIX semantics), the independent wire codec (sim/codec), the bus "
                "reference model written from the specification (sim/model), hooks H1/H2/H2b (observation only). Real code: every bus/*.c and "
                "dbus/*.c of the working tree under ASan+UBSan. Sampling over seeds: clean batch = evidence, not proof.")

def _mt(level_text, design_ref, technique, note=_SIMBUS_NOTE):
    return {"level_text": level_text, "design_ref": design_ref, "technique": technique, "level_note": note}

MANIFEST_TEXT = {
    "C03": _mt("Seeded search over histories of connects, Hello irregularities (repeated, missing, late), disconnects/reconnects and messages with forged SENDER, "
               "unknown header fields 11..255, CONTAINER_INSTANCE, shuffled field order and both byte orders, under chunking/short-I/O/EINTR faults; every message any "
               "client receives is compared with the model's prediction (true sender, no injected field survives), every Hello reply against the name the bus holds; "
               "unique names checked pairwise distinct incl. across the minor-counter wrap (hook H1). Forged SENDER values include near misses of the sender's own unique name (own name + digits, own name shortened); some messages repeat one header field (invalid: the sender is dropped and nothing of the message, in particular not the second copy of an injected field, is processed).",
               "DESIGN.md section 4 C03", "deterministic simulation, seeded schedule and fault search, model-based oracle on recorded history"),
    "C04": _mt("Seeded search over interleavings of RequestName (8 flag combinations + undefined bits), ReleaseName, disconnects, late connects and queries by 2-6 clients on 1-4 names "
               "with delivery chunking and I/O faults; the real daemon's every reply code, NameLost/NameAcquired/NameOwnerChanged (addressee, arguments, order before the reply), "
               "queue order and query answers are compared with an executable model of the specification's ownership rules stepped in the bus's processing order; spec-silent queue "
               "positions are explicit choice points resolved by a white-box read and limited to the admissible set.",
               "DESIGN.md section 4 C04, appendix A", "deterministic simulation, seeded interleaving search, refinement against a reference model"),
    "C05": _mt("Seeded search over interleavings of unicast traffic (all four types, flags, unique/well-known/missing destinations, the bus) with concurrent ownership changes, "
               "closes of sender/recipient, stalled readers with small socket buffers (EAGAIN / short writes on the bus side) and chunked arrival; oracle: at the instant the bus "
               "processes a message (probe H2) the model's primary owner is the only non-eavesdropping receiver, exactly once, fields and body intact, per-sender order kept, "
               "exactly one error for an undeliverable call. Some plans pass descriptors between connections that did and did not negotiate it, give bystanders match rules that name a unique-name destination without eavesdrop='true' (they must bring in nothing), address near misses of live unique names (:1.1 vs :1.1x, produced with few connections through the name-counter hook) and run with a small max_outgoing_bytes.",
               "DESIGN.md section 4 C05, appendix B", "deterministic simulation, seeded schedule and fault search, model-based oracle on recorded history"),
    "C07": _mt("Seeded search over histories of AddMatch/RemoveMatch (rule strings from a grammar-based generator in several quoting/escaping spellings, every key, empty values, "
               "deliberately defective rules, the per-connection rule limit), disconnects, ownership changes and broadcasts built from the same vocabulary (string / object-path / other "
               "arguments, missing arguments, prefixes and extensions of rule values), under chunking and short-I/O faults; an independent parser and matcher written from the "
               "specification predict every AddMatch/RemoveMatch reply and, for each broadcast, the exact set of receiving connections (one copy each); ASan/UBSan watch the "
               "matcher's memory accesses. Broadcasts also use the interfaces every connection implements (org.freedesktop.DBus.Peer, Properties): ordinary signals that the bus's own library must not answer or swallow.",
               "DESIGN.md section 4 C07, appendix F", "deterministic simulation, seeded history and fault search, model-based oracle + sanitizers"),
    "C10": _mt("Seeded search over byte streams of 1-4 hostile clients (garbage before auth, stalled and abusive handshakes, over-long lines, single-site mutations of valid messages, "
               "limit-value length words, truncation, floods, half-sent messages, abrupt closes, many unauthenticated connections, clock jumps past auth_timeout) interleaved with a "
               "well-behaved pair and a bystander subscribed to everything; oracles: no sanitizer/assert/abort, quiescence within a step bound after faults stop (no spin), the pair's "
               "round trips answered correctly, the bus dispatches from a hostile stream only messages the independent codec accepts and disconnects the sender of an invalid one, "
               "incomplete-connection cap and auth_timeout enforced (bounded liveness), memory blocks and descriptors back to baseline at the end. A quarter of the hostile messages are well-formed but for one structural defect (the single-site corruptions of the stream checks: out-of-range boolean alone or inside an array, NUL / bad UTF-8 anywhere inside long ASCII runs, bad names, paths, signatures, duplicate / wrong-typed / missing fields). A quarter of the plans set a small max_incoming_bytes: a client floods a bystander that does not read until the bus stops reading from the flooder, closes abruptly, and is then addressed - the bus must notice the hang-up, must not spin (a main loop that keeps reporting work without input is the failure class nonquiescent) and must go on serving. Only bytes the bus has actually read are held against it.",
               "DESIGN.md section 4 C10", "deterministic simulation with hostile-actor fault injection, safety invariants + bounded liveness"),
    "C13": _mt("Seeded search over histories of connect/Hello/close by several simulated users, RequestName/ReleaseName, AddMatch/RemoveMatch, outstanding calls and messages around the "
               "size limit, with a random subset of limits configured to 1..5; white-box invariant after every bus step (registered, per-user, incomplete connections, names and "
               "rules per connection within limits) and protocol oracle (the overflowing request earns LimitsExceeded and changes nothing, requests below the limit are unaffected, "
               "freed capacity is reusable, an oversize message disconnects only its sender). In about 30% of the plans the configuration is reloaded once (ReloadConfig with a second "
               "file: limits raised, lowered, removed or newly set): refusals must follow the limits in force, what is already held stays (the counting invariant of a lowered limit is switched off). A quarter of the calls of plans with max_message_size are padded to exactly the limit + d (d in -3..9) for every alignment of the header's end. 15% of the plans run with a small max_outgoing_bytes and stalling recipients (a call refused for a full queue must occupy no reply slot); a third configure reply_timeout.",
               "DESIGN.md section 4 C13", "deterministic simulation, seeded history search, invariants checked at every step + model-based oracle"),
    "C06": _mt("Seeded search over configurations x histories: random allow/deny rule lists over every documented attribute (type, interface, member, path, error, destination, "
               "destination prefix, sender, broadcast, requested reply, eavesdrop, fd count, own / own_prefix, user / group) in default, user, group, at_console and mandatory contexts, "
               "rendered to the configuration file the real daemon loads; several simulated users (the sandbox itself has only root); destinations owning several names or only "
               "queued; unicast, broadcast, requested and unrequested replies, eavesdroppers. An independent evaluator written from doc/dbus-daemon.1.xml.in decides, per recipient, "
               "every send / receive / own / connect decision; observed deliveries, AccessDenied errors and RequestName outcomes must agree. In a quarter of the plans the configuration is reloaded once with a second random policy (as a point event): every later decision, for the "
               "connections that already exist and for new ones, must follow the new rules. Points the manual leaves open are pinned "
               "to the reference behaviour and listed in DESIGN.md.",
               "DESIGN.md section 4 C06, appendix E", "deterministic simulation over generated configurations and histories, reference-evaluator oracle"),
    "C09": _mt("Seeded search over histories under a requested-replies-only policy: calls with and without NO_REPLY_EXPECTED, genuine / duplicate / wrong-serial / third-party replies, "
               "reuse of an outstanding serial, closes of caller or callee at any point, the pending-reply limit, finite reply_timeout driven by the virtual clock. The model keeps the "
               "reply slots; probe H2c reports the instant the bus expires a slot, so a reply is required to get through exactly while its slot is open, NoReply may not be sent before "
               "the deadline and must be sent within one further timeout once the system is left alone (bounded liveness), exactly once per call. A fifth of the plans run with a small max_outgoing_bytes and stalling callees (a call refused for a full queue must leave no reply slot); the virtual clock is also moved exactly to a slot's deadline, give or take a millisecond.",
               "DESIGN.md section 4 C09", "deterministic simulation with virtual clock, seeded schedule search, model-based oracle + bounded liveness"),
    "C18": _mt("Seeded search over histories of name, unicast, broadcast and reply traffic in which 0-3 connections become monitors at arbitrary points (while owning or queued for names, "
               "with calls outstanding or to answer, privileged and not, valid and invalid filters), under allow-all, requested-replies-only and message-refusing policies. The model "
               "predicts for every monitor exactly one copy of every message the bus processes or originates that matches its filter (including refused and undeliverable ones, with "
               "the true sender), and predicts every other client's observations without reference to monitors, so any influence of a monitor on others is a mismatch; a monitor that "
               "sends must be disconnected; its names, rules and reply obligations must be gone. Monitor filters on unique names are exercised (rule texts with the peers' actual names; a monitor selecting one peer that then leaves while others go on addressing it): an ordinary client's departure leaves every monitor's filter untouched, a departing monitor is swept out of the other monitors' filters; NameLost signals to a connection that is being stripped of its names are left open for filters on its unique name.",
               "DESIGN.md section 4 C18", "deterministic simulation, seeded history search, model-based oracle on recorded history"),
    "C14": _mt("Fault enumeration over the daemon's request handlers: for each sampled (history, operation) — Hello, RequestName (free / queued / replacing), ReleaseName, AddMatch, "
               "RemoveMatch, BecomeMonitor, a routed unicast, a broadcast, a reply consuming a slot, queries — one fault-free execution counts the allocations n made while the bus "
               "processes the operation, then the plan is re-executed with allocation k failing for EVERY k in 0..n-1 (dbus's own _dbus_set_fail_alloc_counter), and with pairs of failing "
               "allocations (k, then gap allocations later; guarded hook H5): all (k, gap <= 10) for operations of at most 14 allocations, a sample for longer ones. After each, with "
               "injection off, exactly two worlds are admissible and compared in full against the model: the complete effect (every signal, reply, state change), or nothing but a "
               "NoMemory error to the requester; then the operation is retried and must end in the fault-free result; rules and names per connection are also counted white-box; "
               "dbus_malloc blocks and descriptors must be back at baseline after shutdown. The library clause is decided by a companion enumeration in simlib (C14L, run first on 20% of "
               "the budget, coverage folded into this evidence file): a codec-generated message and one operation - demarshal, copy, marshal, a header edit, or construction of the whole "
               "message through the public API - repeated with allocation k failing for every k; the operation must report out-of-memory or yield exactly the bytes the codec "
               "prescribes, a prior message must be byte-identical afterwards (construction excepted: the documentation says a half-built message is to be discarded), nothing may "
               "leak, and the retry must succeed. Match-rule parsing is reached through AddMatch. Configuration-file parsing is reached through ReloadConfig with a different file in place (other limits, "
               "another policy, a new service directory with service files): a failure while the file is parsed must leave limits, policy and activatable names as they were (probed by "
               "behaviour before the retry) and the retry must put all of the new configuration in force; a link-time wrapper of bus_config_load() tells the oracle in which phase the "
               "request failed (failures after parsing are the listed 'half reload' finding: compared again only after the retry, read-only requests still exercised in between). "
               "Every failure is attributed to the operation and to the call site of the failing allocation(s) (symbolised DBUS_MALLOC_BACKTRACES of the pinned replay), listed findings "
               "are matched per operation and site, and the enumeration is continued behind every reported fault point so that one finding does not shadow the later points of the same operation.",
               "DESIGN.md section 4 C14", "deterministic re-execution with exhaustive enumeration of the failing allocation index per sampled (history, operation)",
               note=_SIMBUS_NOTE + " Exhaustive in k for each sample; histories and operations are sampled. Genuine OOM-atomicity defects of the daemon that need a redesign are listed in known_findings.json and reported as KNOWN-FINDING; those with a small repair were repaired (library: b09978c, 45a3606; configuration reload: 525987f, 289a01b, de263d5, 1624f70, 1cd3dbb, a66579e)."),
    "C01": _mt("Seeded search over byte streams through the real connection loader (DBusServer + accepted DBusConnection, the path the property names first): 0-6 structurally generated "
               "valid messages of every type / header-field / nesting shape in both byte orders, targeted boundary shapes, optionally one single-site corruption (structural: serial 0, "
               "bad version, duplicate / wrong-typed / missing / zero-code field, bad path / interface / member / bus name, bad UTF-8, boolean 2 alone and inside arrays, body-signature "
               "mismatch, fixed array of fractional length, mis-bracketed signature value; byte-level: bit flips, length words +-1 and at limit values, endianness byte, insertions, "
               "truncation, trailing bytes), a configured max_message_size, arrival in arbitrary chunks with short reads / EINTR / spurious EAGAIN and allocation failures inside the "
               "loader. The independent codec decides which prefix of the stream is valid: exactly those messages must be produced, byte-identical when re-marshalled, and every header "
               "field and body value read through the public getters and iterators (incl. fixed-array access) must equal the independent decoding; an invalid message must get the "
               "connection declared corrupt, nothing after it is produced; dbus_message_demarshal / _bytes_needed must agree on every single message; ASan/UBSan and a termination "
               "watchdog cover memory safety and non-termination. This is generated-input differential checking carried out through the simulated transport (DESIGN.md says so). A directed scenario (about 1 plan in 6000) hands dbus_message_demarshal an 'aay' message built by hand whose outer array is 2^26 + d bytes long: the array length limit at sizes the streams do not reach.",
               "DESIGN.md section 4 C01, appendix G", "deterministic simulation of the transport with input generation and fault injection; independent-codec oracle + sanitizers",
               note="Trusted base: the independent wire codec (sim/codec, written from the specification and differential-tested), the simulated kernel, the harness's application glue. "
                    "Real code: all of dbus/*.c under ASan+UBSan. Two places where libdbus is laxer than the specification are listed as known findings (unique names without a period; "
                    "dict-entry nesting budget). Sampling over seeds: evidence, not proof."),
    "C11": _mt("Seeded search over partitions: streams of 1-8 valid messages of mixed sizes and byte orders, optionally followed by an invalid message and further bytes, are delivered to "
               "the real loader through the simulated socket in all-one-byte, single-cut, header-biased and random partitions, with the handshake-to-message boundary inside or outside "
               "one write, an independent per-read size limit (knob), short reads, EINTR, spurious readiness and allocation failures; in the same run the same stream is delivered to a "
               "second connection unsplit and fault-free. Oracle (metamorphic + codec): both deliveries produce the same message sequence (byte-identical) and the same corruption "
               "verdict, every message complete before the first invalid one is delivered, none after. The writing side: in 45% of the plans the valid messages are then sent by the library to a third peer through short writes, EAGAIN, EINTR and a peer with a tiny socket buffer; the peer must read exactly those bytes in order (oracle:C11:written-stream-differs).",
               "DESIGN.md section 4 C11", "deterministic simulation, seeded search over stream partitions and read schedules, metamorphic oracle",
               note="Trusted base: simulated kernel stream semantics, independent codec. The writer side (partial writes of queued outgoing messages) is exercised by every simbus check "
                    "(short-write / EAGAIN faults on the daemon's sockets, small peer buffers), where a corrupted outgoing stream fails the codec at the receiving actor. Sampling: evidence, not proof."),
    "C17": _mt("Seeded search over schedules of a real DBusConnection (client side, main-loop glue owned by the harness) against a scripted wire peer: up to 8 outstanding calls with "
               "timeouts from 0 ms to infinite, completion observed by notify callback, polling or dbus_pending_call_block(); cancel, unref, dispatch, read_write_dispatch, loop "
               "iterations with short reads / EINTR / spurious EAGAIN and virtual-clock advances at arbitrary points, on one thread (main-loop application) or on 2-3 threads (35% of the plans); the peer replies in any order, twice, with unknown serials, split "
               "across writes, never, or closes - also while the application is blocked inside the library (the simulated kernel's poll hands control to the plan's next peer actions). "
               "Oracle per call: completes at most once; a notify function runs exactly once and never for a cancelled call; the stolen reply carries the call's serial and is the FIRST "
               "reply the peer wrote for it, or a locally generated error only once the virtual deadline passed or the connection is gone; bounded liveness: after faults stop, all "
               "peer bytes are delivered and the clock has passed every finite deadline, every call that was not cancelled is complete. Serials: non-zero and pairwise distinct, with "
               "the counter optionally started just below the 32-bit wrap (hook H4). The virtual clock is also moved exactly to an outstanding call's deadline, give or take a millisecond.",
               "DESIGN.md section 4 C17", "deterministic simulation, seeded schedule search (application threads / peer / clock interleavings under a serialising scheduler), per-call reference model oracle with bounded liveness",
               note="Trusted base: simulated kernel (stream, poll, clock), independent codec for the peer side, the per-call model, and in thread mode the serialising scheduler "
                    "(sim/sched): 2-3 real application threads using the blocking API on one connection are parked at libdbus' platform mutex / condition-variable functions "
                    "(link-time seam) and in the simulated poll, and released one at a time by the plan's seeded PRNG; spurious condition wake-ups are injected; the peer is one more "
                    "scheduled actor. Thread-mode oracles add: no deadlock once the peer has closed and no timeout is pending, and no thread asleep in poll inside "
                    "dbus_pending_call_block() for a call whose reply the library has already read. One listed known finding (calls outstanding at disconnect are dropped rather than "
                    "completed) is recognised by its exact condition inside the oracle. Sampling: evidence, not proof."),
    "C15": _mt("Seeded search over histories of descriptor-carrying traffic through the real daemon: method calls and signals with 0 to beyond-the-maximum descriptors (distinct anonymous "
               "files), header count smaller / equal / larger than attached, descriptors riding on the first or a later byte, senders and recipients with and without negotiated passing, "
               "policies refusing by interface or descriptor count, missing destinations, closes of sender or recipient right behind a message, stalled recipients, small per-message and "
               "incoming limits, under chunking / short I/O / EINTR / truncated control data (CTRUNC) faults. Oracle: the bus model predicts delivery (never to a connection that did not "
               "negotiate; NotSupported / AccessDenied / ServiceUnknown otherwise); each delivered message carries exactly the announced number of descriptors and each is the same open "
               "file (st_dev, st_ino) the sender attached in that position; a sender announcing more than it attached, exceeding the per-message maximum or announcing descriptors "
               "without negotiation is disconnected and nothing of the message is processed; a sender attaching more than announced is disconnected within pending_fd_timeout of "
               "virtual time once left alone (bounded liveness); the simulated kernel's ledger of every descriptor number installed into the daemon shows each closed exactly once "
               "(no leak after the connections are gone and the bus is shut down, no double close), and no descriptor reaches a client without a message announcing it. A connection with surplus descriptors pending may go on sending more surplus; its deadline stays one pending_fd_timeout after the bus read the first surplus and is checked exactly after every clock step. Surplus pending per connection is tracked: a further message whose descriptors do not fit beside it in the loader's room (max_message_unix_fds) must get its sender disconnected with nothing processed; recipients' queued descriptors are limited through max_outgoing_unix_fds in a fifth of the plans. 15% of the plans have a monitor that did or did not negotiate descriptor passing: it gets the descriptors with its copy, or no copy.",
               "DESIGN.md section 4 C15", "deterministic simulation, seeded history and fault search, model-based oracle plus descriptor ledger in the simulated kernel"),
    "C19": _mt("Seeded search over activation histories through the real daemon with generated service files in a scratch <servicedir>: several senders auto-starting (method calls, "
               "unicast signals, NO_AUTO_START / NO_REPLY variants) and StartServiceByName-ing the same and different activatable names concurrently; the simulated kernel's fork() hands "
               "the harness a scripted babysitter / service process per start (what would be exec'ed is recorded at the spawn seam) that reports in, exits with status 0 / non-zero / by "
               "signal or fails to exec at arbitrary quiescent points; some connection takes the name quickly, late, never, or another name; service_start_timeout fires by virtual clock; "
               "waiting senders close. Oracle (bus model extended with pending activations): the number of processes started equals the number of activations that needed one (a second "
               "waiter joins the pending activation) and each runs the program its service file names; once the name is taken every held message is delivered exactly once, in arrival "
               "order, before the RequestName reply, and StartServiceByName callers get START_REPLY_SUCCESS (ALREADY_RUNNING when owned, an error without a service file); on exec "
               "failure, non-zero exit, death by signal or timeout every waiting method call gets exactly one error and nothing is delivered later; exit status 0 is not a failure; "
               "bounded liveness: left alone for one service_start_timeout every pending activation has ended in errors.",
               "DESIGN.md section 4 C19", "deterministic simulation, seeded history / process-fate / clock search, model-based oracle on recorded history",
               note="Trusted base: simulated kernel incl. the scripted child side of dbus-spawn-unix.c's babysitter protocol (CHILD_PID / CHILD_EXITED / CHILD_EXEC_FAILED), the bus model. "
                    "Process events and clock advances are injected at quiescent points so that their order against client traffic is unambiguous. The helper clause of the statement is "
                    "decided by a second binary (simhelper, run first on 20% of the budget; its coverage is folded into this evidence file under the prefix C19H:): the real "
                    "run_launch_helper() of bus/activation-helper.c over generated name arguments (valid, malformed, path-like, over-long), 0-4 service files in two service directories "
                    "(complete; missing Name / Exec / User; other section; garbage; Name of another service) and Exec lines with plain, quoted and unterminated-quote words, with an "
                    "allocation failure at a chosen allocation; execv() is a link-time seam and is reached only for a valid bus name whose file declares exactly that name with Exec and "
                    "User (under an allocation failure: that, or NoMemory), exactly once, for the program the line names. Not covered: the production helper's setuid / user switch "
                    "(compiled out in the test launcher build), activation under a restrictive policy or with <servicehelper>. Sampling: evidence, not proof."),
    "C20": _mt("Seeded search over histories: the application of a real DBusConnection registers, registers as fallback and unregisters handlers on generated path sets (shared prefixes, "
               "adjacent sibling names, the root) while a scripted peer sends method calls, signals, Introspect and Peer.Ping to paths inside, beside and below them through the simulated "
               "socket (short reads / writes, EINTR); handlers decline, handle, stay silent, ask for memory once, unregister themselves or the handler that would be offered next, or "
               "register a new path while a message is being offered; allocation failures are injected at a chosen allocation of register / unregister calls and of dispatch. Oracle "
               "(reference model = map path -> registration, stepped together with the real tree): every handler invocation is the next one the model lists (exact path first, then "
               "fallbacks of successively shorter ancestors, nothing after 'handled', nothing skipped, removed handlers not invoked); the caller receives exactly the predicted answer per "
               "call in call order (handler reply / UnknownMethod / UnknownObject / built-in introspection listing exactly the model's children / Ping reply); after every API step the "
               "whole tree as listed by dbus_connection_list_registered and get_object_path_data equals the model; a failed registration (occupied, NoMemory) changes nothing and names "
               "its error; every unregister function runs exactly once, by connection finalization at the latest. The listed UnknownObject finding is recognised by its exact condition only (the model tracks the fallback flag of every node the library's tree holds).",
               "DESIGN.md section 4 C20", "deterministic simulation, seeded history and fault search, reference-model oracle stepped with the real object tree",
               note="Trusted base: simulated kernel, independent codec for the peer, the path-map model. Pinned where the statement is silent: the handlers offered a message are those registered when "
                    "its dispatch started; one removed meanwhile is skipped, one added is not offered. One listed known finding (UnknownMethod sent where UnknownObject is due) is recognised by "
                    "its exact substitution inside the oracle. Sampling: evidence, not proof."),
    "C08": _mt("Seeded search over handshakes against a real DBusServer / server-side DBusConnection: generated SASL command sequences (AUTH with each mechanism, unknown mechanisms, with and "
               "without initial response; DATA valid / wrong / non-hex; CANCEL, ERROR, BEGIN, NEGOTIATE_UNIX_FD; unknown, empty, non-ASCII and NUL-carrying lines; lines of 3-24 KiB and "
               "unterminated floods; message bytes before and after BEGIN) in arbitrary chunking with short reads / EINTR / spurious readiness, under every combination of socket "
               "credentials (server owner, root, other user, none), allowed-mechanism subset, anonymous on/off and unix-user function (absent, allow-all, allow-one, deny-all); cookie runs use "
               "a real keyring in a scratch home and correct / wrong-hash / no-blank / other-cookie / wrong-composition / empty responses computed with the codec's own SHA-1. Oracle: the "
               "specification's server state machine (AuthModel, sim/harness/libauth.cc) is run over the very bytes the peer wrote and every response line is compared (REJECTED with "
               "exactly the allowed mechanisms, ERROR, DATA, OK <guid>); the connection counts as authenticated iff the model reached BEGIN after a completed permitted mechanism AND the "
               "admission rule admits that identity; the uid / anonymity / pid the application sees equal what the mechanism established; the application receives exactly the complete "
               "messages that follow the accepted BEGIN (no handshake byte becomes message data); BEGIN out of place, the 6th rejection or a line beyond 16 KiB end the connection, and "
               "nothing else does. EXTERNAL and cookie identities include near misses of the peer's own uid (a digit more or less, leading zero, C-style octal / hex, 2^32 more, trailing blank): never OK unless some reading denotes the peer's own uid. Conversations that reach OK and are then cancelled do so in every way (identity in the initial response, in DATA, none - empty DATA -, a complete cookie exchange, ANONYMOUS) before another mechanism is run: nothing of the abandoned exchange may survive.",
               "DESIGN.md section 4 C08, Appendix D", "deterministic simulation, seeded input and chunking search, reference state machine oracle over the recorded byte history",
               note="Trusted base: simulated kernel (stream, SO_PEERCRED, NSS), the AuthModel and SHA-1 of the independent codec, the real file system for the scratch keyring. Pinned where the "
                    "specification is silent: the rejection bound (6), identities that are not plain digits (either verdict accepted, never for another uid), NEGOTIATE_UNIX_FD answered "
                    "AGREE or ERROR, lines between 14 and 18 KiB (either verdict). Not covered: allocation failures during the handshake (a connection lost to one is legitimate; C14 owns "
                    "OOM), cookie ageing across conversations, the daemon-level half (<allow user=...> admission is exercised by C06's connect rules; GetConnectionCredentials is not "
                    "compared). Sampling: evidence, not proof."),
}

NOT_APPLICABLE = [
    {"property_id": "C02", "reason": "pure function of a construction program: no stream, clock, peer, fault or interleaving in the statement; simulation would only be input generation (DESIGN.md section 5). Messages the real code emits in simulated runs are still validated by the independent codec, unclaimed."},
    {"property_id": "C12", "reason": "synchronous in-memory header edits of one object; no schedule or fault dimension (OOM during edits belongs to C14). The strip/stamp slice the bus performs is exercised by C03/C05 oracles, arbitrary edit sequences are not (DESIGN.md section 5)."},
    {"property_id": "C16", "reason": "pure string predicates over an input space; exhaustive small-string enumeration or a solver is the right tool, not a scheduler (DESIGN.md section 5)."},
]

# properties whose check is planned but not finished: not claimed, and listed in not_applicable with that reason
NOT_CLAIMED_YET = []
for _p in NOT_CLAIMED_YET:
    NOT_APPLICABLE.append({"property_id": _p, "reason": "not claimed yet: the simulation check for this property is designed (DESIGN.md section 4) but not finished; it is applicable to the technique and will be claimed when its check passes the determinism and sensitivity gates"})
