"""Per-property check definitions used by tools/simdriver.py."""

SIMBUS_COMPONENTS = {
    "real": ["bus/*.c (whole dbus-daemon except main.c)", "dbus/*.c (libdbus server side: transport, auth, loader, marshalling, main loop)"],
    "stub": ["Linux kernel (AF_UNIX sockets, poll, clocks, credentials, fork) — sim/kernel", "glibc NSS — simulated user table",
             "D-Bus clients — scripted actors on the independent codec (sim/codec)", "libsystemd calls"],
}
SIMBUS_ASSUME = [
    "kernel stub models Linux AF_UNIX stream semantics (sim/kernel/kernel.cc)",
    "independent wire codec and bus model written from doc/dbus-specification.xml are the oracle",
    "build mirrors the pinned test configuration (embedded tests on)",
    "sampling, not enumeration: a clean batch is evidence over the sampled plans only",
]

def simbus(prop, rule, quick_s=45, thorough_s=600, probes=(), safety_prop="C10", level="exploration"):
    return {"binary": "simbus", "prop": prop, "level": level, "quick_s": quick_s, "thorough_s": thorough_s, "rule": rule,
            "probes": list(probes), "components": SIMBUS_COMPONENTS, "assumptions": SIMBUS_ASSUME, "safety_prop": safety_prop}

RULE = ("plans generated from mix(VERIF_SEED, i) by the %s generator (swarm shape: actors, names, op mix, fault kinds per run); "
        "executed on the real daemon under the simulated kernel; a run is non-trivial when >=1 injected fault fired and >=1 "
        "model expectation was compared against an observed delivery; distinct = distinct FNV trace hash of the full event log")

CHECKS = {
    "SMOKE": simbus("SMOKE", RULE % "smoke", quick_s=5, thorough_s=10),
    "C03": simbus("C03", RULE % "C03 (Hello irregularities, forged SENDER / unknown fields / container-instance, reconnects, minor-number wrap)",
                  probes=["forged_sender_seen", "unknown_field_seen", "message_before_hello", "second_hello"]),
    "C04": simbus("C04", RULE % "C04 (RequestName all flag combinations + undefined bits, ReleaseName, disconnects, late connects, queries, names-per-connection limit)",
                  probes=["reqname_reply_1", "reqname_reply_2", "reqname_reply_3", "reqname_reply_4", "relname_reply_1", "relname_reply_2", "relname_reply_3",
                          "reqname_reply_1_replace", "replaced_owner_requeued", "replaced_owner_dropped", "waiter_updates_flags", "waiter_dropped_by_dnq",
                          "owner_disconnect_two_waiters", "waiter_removed", "limit_names_hit", "waiter_replaces_owner"]),
    "C05": simbus("C05", RULE % "C05 (unicast to unique / well-known / missing names and the bus, concurrent ownership changes, closes, stalled readers, replies)",
                  probes=["dest_missing", "send_to_self", "eavesdrop_copy", "owner_handover_to_waiter", "noreply_on_disconnect"]),
}
