#!/bin/bash
# Determinism self-test: the trace hash of a seed must not depend on the process it runs in,
# on its position in a worker's run sequence, or on how many workers run.
# usage: tools/determinism.sh <binary> <prop> [nseeds]
set -e
cd "$(dirname "$0")/.."
tools/build.sh build/$1 || exit 2
BIN=build/$1; PROP=$2; N=${3:-300}
export SIM_KNOWN=$(python3 -c "import json;print(','.join(k['id'] for k in json.load(open('known_findings.json'))['findings'] if k.get('status')=='finding' and k.get('id')))")
export SIM_SCRATCH=$PWD/build/scratch/det$$; mkdir -p $SIM_SCRATCH
T=$SIM_SCRATCH
# A: one worker, N runs in sequence
$BIN --prop $PROP --base 7 --stride 1 --offset 0 --max-runs $N 2>/dev/null | grep '^OK\|^FAIL' | cut -d' ' -f1-4 | sort > $T/a.txt
# B: same again (same process layout)
$BIN --prop $PROP --base 7 --stride 1 --offset 0 --max-runs $N 2>/dev/null | grep '^OK\|^FAIL' | cut -d' ' -f1-4 | sort > $T/b.txt
# C: four workers with stride 4 (each seed lands at a different position in a different process)
for o in 0 1 2 3; do $BIN --prop $PROP --base 7 --stride 4 --offset $o --max-runs $(( (N+3)/4 )) 2>/dev/null | grep '^OK\|^FAIL' | cut -d' ' -f1-4; done | sort > $T/c.txt
# D: a sample of seeds each in its own fresh process
awk '{print $2}' $T/a.txt | head -40 | while read s; do $BIN --prop $PROP --seed $s 2>/dev/null | grep '^OK\|^FAIL' | cut -d' ' -f1-4; done | sort > $T/d.txt
rc=0
if [ $(wc -l < $T/a.txt) -lt 20 ]; then
  # runs end at the first (known) finding: compare seeds one by one instead, each twice in fresh processes
  python3 -c "
M=(1<<64)-1
def mix(b,i):
    z=(b*0x9e3779b97f4a7c15+i*0xbf58476d1ce4e5b9+0x94d049bb133111eb)&M
    z=((z^(z>>30))*0xbf58476d1ce4e5b9)&M
    z=((z^(z>>27))*0x94d049bb133111eb)&M
    z^=z>>31
    return z&0x7fffffffffff
for i in range(24): print(mix(7,i))" > $T/seeds.txt
  for s in $(cat $T/seeds.txt); do $BIN --prop $PROP --seed $s 2>/dev/null | grep '^OK\|^FAIL' | cut -d' ' -f1-4; done > $T/e1.txt
  for s in $(cat $T/seeds.txt); do $BIN --prop $PROP --seed $s 2>/dev/null | grep '^OK\|^FAIL' | cut -d' ' -f1-4; done > $T/e2.txt
  cmp -s $T/e1.txt $T/e2.txt || { echo "NONDETERMINISM: single-seed runs differ"; diff $T/e1.txt $T/e2.txt | head; rc=1; }
  echo "determinism $1 $PROP: $(wc -l < $T/e1.txt) seeds, each twice in fresh processes (batch ends at first finding): rc=$rc"
  rm -rf $T
  exit $rc
fi
cmp -s $T/a.txt $T/b.txt || { echo "NONDETERMINISM: same layout twice differs"; diff $T/a.txt $T/b.txt | head; rc=1; }
# C covers a superset/subset of seeds: compare on the intersection
join -j 2 <(sort -k2,2 $T/a.txt) <(sort -k2,2 $T/c.txt) | awk '$3!=$6||$4!=$7{print "NONDETERMINISM: position/process dependence", $0; bad=1} END{exit bad}' || rc=1
join -j 2 <(sort -k2,2 $T/a.txt) <(sort -k2,2 $T/d.txt) | awk '$3!=$6||$4!=$7{print "NONDETERMINISM: fresh process differs", $0; bad=1} END{exit bad}' || rc=1
echo "determinism $1 $PROP: $(wc -l < $T/a.txt) seeds twice, $(wc -l < $T/c.txt) seeds across 4 workers, $(wc -l < $T/d.txt) seeds in fresh processes: rc=$rc"
rm -rf $T
exit $rc
