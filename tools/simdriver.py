"""Driver for the deterministic-simulation checks: build, fan out workers,
gate + minimise + replay failures, known findings, evidence."""
import sys, os, json, subprocess, time, re, shutil, threading, concurrent.futures

from checkdefs import CHECKS

NPROC = os.cpu_count() or 4
HANG_S = 25          # real seconds without a result line before a worker is declared hung (a run normally takes milliseconds)


def log(*a):
    print(*a, file=sys.stderr, flush=True)


# ----------------------------------------------------------------------------- build

def build(root, targets):
    r = subprocess.run([os.path.join(root, "tools", "build.sh")] + targets, cwd=root,
                       stdout=subprocess.PIPE, stderr=subprocess.STDOUT, text=True)
    if r.returncode != 0:
        log("BUILD FAILED (harness error, not a violation)")
        log(r.stdout[-4000:])
        return False
    return True


# ----------------------------------------------------------------------------- classify a dead worker

def classify_crash(stderr_text, rc):
    t = stderr_text
    m = re.search(r"assertion failed \"(.*?)\" file \"(.*?)\" line (\d+) function (\w+)", t)
    if m:
        return "assert:%s:%s" % (os.path.basename(m.group(2)), m.group(4)), m.group(0)
    m = re.search(r"arguments to (\w+)\(\) were incorrect, assertion \"(.*?)\" failed", t)
    if m:
        return "check-failed:%s" % m.group(1), m.group(0)
    m = re.search(r"ERROR: AddressSanitizer: ([\w-]+)", t)
    if m:
        kind = m.group(1)
        fn = "?"
        for fm in re.finditer(r"#\d+ 0x[0-9a-f]+ in (\S+) (/repo/\S+?):(\d+)", t):
            fn = fm.group(1)
            break
        return "sanitizer:asan-%s:%s" % (kind, fn), first_lines(t, "AddressSanitizer")
    m = re.search(r"(/repo/\S+?):(\d+):\d+: runtime error: (.*)", t)
    if m:
        return "sanitizer:ubsan:%s:%s" % (os.path.basename(m.group(1)), m.group(2)), m.group(0)
    m = re.search(r"assertion failed \"(.*?)\" file \"(.*?)\" line (\d+) function (\w+)", t)
    if m:
        return "assert:%s:%s" % (os.path.basename(m.group(2)), m.group(4)), m.group(0)
    m = re.search(r"arguments to (\w+)\(\) were incorrect, assertion \"(.*?)\" failed", t)
    if m:
        return "check-failed:%s" % m.group(1), m.group(0)
    m = re.search(r"simk: (deadlock|SUT blocks forever|block_until livelock)", t)
    if m:
        return "deadlock", m.group(0)
    if "HARNESS-ERROR" in t:
        return "harness-error", first_lines(t, "HARNESS-ERROR")
    if rc == -9 or rc == 137:
        return "watchdog-timeout", "worker killed by the step/time watchdog"
    return "crash:rc%d" % rc, t[-600:]


def first_lines(t, key, n=12):
    i = t.find(key)
    return "\n".join(t[i:].splitlines()[:n]) if i >= 0 else t[-600:]


# ----------------------------------------------------------------------------- run one plan in a fresh process

KNOWN_IDS = ""


def run_plan(root, binary, plan_path, scratch, timeout=HANG_S, want_log=False, oomk_trace=False):
    env = dict(os.environ, SIM_SCRATCH=scratch, SIM_KNOWN=KNOWN_IDS)
    if oomk_trace:
        env["SIM_OOMK_TRACE"] = "1"
    cmd = [os.path.join(root, "build", binary), "--replay", plan_path] + (["--log"] if want_log else [])
    try:
        r = subprocess.run(cmd, cwd=root, env=env, stdout=subprocess.PIPE, stderr=subprocess.PIPE, text=True,
                           errors="replace", timeout=timeout)
    except subprocess.TimeoutExpired:
        return {"ok": False, "cls": "nonterminating", "hash": "", "detail": "the simulated run did not finish within %d s of real time (the code under test spins or blocks forever)" % timeout, "log": ""}
    out = r.stdout
    for line in out.splitlines():
        if line.startswith("OK "):
            return {"ok": True, "cls": "", "hash": line.split()[2], "detail": "", "log": out}
        if line.startswith("FAIL "):
            head, _, detail = line.partition(" :: ")
            p = head.split()
            return {"ok": False, "cls": p[2], "hash": p[3], "detail": detail, "log": out}
    cls, detail = classify_crash(r.stderr, r.returncode)
    if oomk_trace:
        # the process died inside an enumeration: the last announced fault point is the one
        last = [l for l in out.splitlines() if l.startswith("OOMK ")]
        if last:
            pp = last[-1].split()
            detail = "[oom.k=%s%s%s] %s" % (pp[1], (",gap=" + pp[2]) if len(pp) > 2 and pp[2] != "-1" else "", (",idx=" + pp[3]) if len(pp) > 3 else "", detail)
    return {"ok": False, "cls": cls, "hash": "", "detail": detail, "log": out + "\n" + r.stderr[-3000:]}


def emit_plan(root, binary, prop, seed, thorough):
    cmd = [os.path.join(root, "build", binary), "--prop", prop, "--emit-plan", "--seed", str(seed)] + (["--thorough"] if thorough else [])
    r = subprocess.run(cmd, cwd=root, stdout=subprocess.PIPE, stderr=subprocess.DEVNULL, text=True)
    return r.stdout


# ----------------------------------------------------------------------------- minimisation (ddmin over step lines)

def split_plan(text):
    head, steps = [], []
    for l in text.splitlines():
        (steps if l.startswith("step ") else head).append(l)
    return head, steps


def join_plan(head, steps):
    return "\n".join(head + steps) + "\n"


class Minimiser:
    def __init__(self, root, binary, scratch, cls, budget):
        self.root, self.binary, self.scratch, self.cls, self.budget = root, binary, scratch, cls, budget
        self.runs = 0
        # a hanging candidate costs its whole timeout: keep both small for that class
        self.run_timeout = 6 if cls == "nonterminating" else HANG_S
        if cls == "nonterminating":
            self.budget = min(self.budget, 64)
        self.lock = threading.Lock()
        self.ctr = 0

    def same_class(self, a, b):
        # oracle classes must match exactly; sanitizer classes on kind + function
        return a == b

    def test(self, head, steps):
        with self.lock:
            if self.runs >= self.budget:
                return False
            self.runs += 1
            self.ctr += 1
            path = os.path.join(self.scratch, "cand%d.plan" % self.ctr)
        with open(path, "w") as f:
            f.write(join_plan(head, steps))
        r = run_plan(self.root, self.binary, path, self.scratch, timeout=self.run_timeout)
        os.unlink(path)
        return (not r["ok"]) and self.same_class(r["cls"], self.cls)

    def first_passing(self, head, cands):
        """evaluate candidates in parallel; return index of the first (lowest) that still fails the same way"""
        if not cands:
            return -1
        with concurrent.futures.ThreadPoolExecutor(max_workers=min(NPROC, len(cands))) as ex:
            res = list(ex.map(lambda c: self.test(head, c), cands))
        for i, ok in enumerate(res):
            if ok:
                return i
        return -1

    def ddmin(self, head, steps):
        n = 2
        while len(steps) >= 2 and self.runs < self.budget:
            chunk = max(1, len(steps) // n)
            subsets = [steps[i:i + chunk] for i in range(0, len(steps), chunk)]
            complements = [sum((s for j, s in enumerate(subsets) if j != i), []) for i in range(len(subsets))]
            i = self.first_passing(head, complements)
            if i >= 0:
                steps = complements[i]
                n = max(n - 1, 2)
                continue
            if chunk == 1:
                break
            n = min(len(steps), n * 2)
        return steps

    def simplify_steps(self, head, steps):
        # per-step simplification: drop fault attributes of bus steps, deliver whole messages
        changed = True
        while changed and self.runs < self.budget:
            changed = False
            cands, idxs = [], []
            for i, s in enumerate(steps):
                p = s.split(" ")
                if p[1] == "bus" and len(p) > 3:
                    nums = p[3].split(",")
                    if any(x not in ("0", "") for x in nums[2:12]):
                        new = nums[:2] + ["0"] * 10 + nums[12:]
                        p2 = p[:3] + [",".join(new)] + p[4:]
                        cands.append(steps[:i] + [" ".join(p2)] + steps[i + 1:])
                        idxs.append(i)
            if not cands:
                break
            # try all at once first
            allz = list(steps)
            for c, i in zip(cands, idxs):
                allz[i] = c[i]
            if self.test(head, allz):
                steps = allz
                break
            j = self.first_passing(head, cands)
            if j >= 0:
                steps = cands[j]
                changed = True
        return steps


# ----------------------------------------------------------------------------- known findings

def load_known(root):
    p = os.path.join(root, "known_findings.json")
    if not os.path.exists(p):
        return []
    with open(p) as f:
        return json.load(f).get("findings", [])


def match_known(known, prop, cls, detail):
    for k in known:
        if k.get("status") != "finding":
            continue
        if k.get("property") != prop:
            continue
        if k.get("model_only"):
            continue      # recognised inside the worker (exact condition in the oracle), never by failure class
        if k.get("class_re"):
            if not re.search(k["class_re"], cls):
                continue
        elif k.get("class") and k["class"] != cls:
            continue
        sig = k.get("signature", "")
        if sig and not re.search(sig, detail or ""):
            continue
        return k
    return None


def prop_of_class(cls, default):
    m = re.match(r"oracle:(C\d+):", cls)
    return m.group(1) if m else default


# ----------------------------------------------------------------------------- workers

class Worker:
    def __init__(self, root, spec, slot, nslots, base, budget, thorough, scratch, first_index=0):
        self.slot, self.cur_seed, self.done_runs = slot, None, 0
        self.first_index = first_index
        cmd = [os.path.join(root, "build", spec["binary"]), "--prop", spec["prop"], "--base", str(base),
               "--stride", str(nslots), "--offset", str(slot), "--first-index", str(first_index),
               "--budget-s", "%.1f" % budget, "--states"]
        if spec.get("max_runs"):
            cmd += ["--max-runs", str(spec["max_runs"])]
        if thorough:
            cmd.append("--thorough")
        env = dict(os.environ, SIM_SCRATCH=scratch, SIM_KNOWN=KNOWN_IDS, SIM_OOMK_TRACE="1")
        self.errpath = os.path.join(scratch, "w%d.err" % slot)
        self.errf = open(self.errpath, "w")
        self.p = subprocess.Popen(cmd, cwd=root, env=env, stdout=subprocess.PIPE, stderr=self.errf, text=True, errors="replace")


def run_batch(root, spec, base_seed, budget, thorough, scratch, nworkers):
    """returns dict with aggregate stats and list of failures"""
    agg = {"runs": 0, "nontrivial_runs": 0, "sim_us": 0, "counters": {}, "hashes_nt": set(), "hashes_all": set(),
           "samples": [], "failures": [], "states": set(), "first_seed": None, "seeds_sample": []}
    deadline = time.time() + budget
    lock = threading.Lock()
    # fault-enumeration checks: one failure class can have several causes (operation kinds, call sites), so several
    # failing runs per class are kept and told apart later by operation and call site
    percls = 10 if spec.get("level") == "fault_enumeration" else 1

    def pump(slot):
        first_index = 0
        while True:
            remaining = deadline - time.time()
            if remaining < 1.0:
                return
            with lock:
                if len(agg["failures"]) >= 8 * percls:      # distinct failure classes; repeats are only counted
                    return
            w = Worker(root, spec, slot, nworkers, base_seed, remaining, thorough, scratch, first_index)
            cur = None
            curk = None
            nrun = 0
            fail_line = None
            # watchdog: a run that produces no result line for HANG_S seconds is a non-terminating run
            last = [time.time()]
            hung = [False]

            def watchdog(proc=w.p, last=last, hung=hung):
                while proc.poll() is None:
                    time.sleep(0.5)
                    if time.time() - last[0] > HANG_S:
                        hung[0] = True
                        proc.kill()
                        return
            threading.Thread(target=watchdog, daemon=True).start()
            for line in w.p.stdout:
                last[0] = time.time()
                line = line.rstrip("\n")
                if line.startswith("OOMK "):
                    parts = line.split()
                    curk = parts[1] + ((",gap=" + parts[2]) if len(parts) > 2 and parts[2] != "-1" else "") + ((",idx=" + parts[3]) if len(parts) > 3 else "")
                    continue
                if line.startswith("RUN "):
                    cur = int(line.split()[1])
                    curk = None
                    nrun += 1
                elif line.startswith("OK "):
                    p = line.split()
                    with lock:
                        agg["hashes_all"].add(p[2])
                        if p[3] == "1":
                            agg["hashes_nt"].add(p[2])
                        if len(agg["seeds_sample"]) < 8:
                            agg["seeds_sample"].append(int(p[1]))
                    cur = None
                elif line.startswith("FAIL "):
                    fail_line = line
                elif line.startswith("STATES"):
                    with lock:
                        agg["states"].update(line.split()[1:])
                elif line.startswith("SAMPLE "):
                    with lock:
                        if len(agg["samples"]) < 3:
                            try:
                                agg["samples"].append(json.loads(line[7:]))
                            except Exception:
                                pass
                elif line.startswith("STATS "):
                    try:
                        st = json.loads(line[6:])
                    except Exception:
                        st = {}
                    with lock:
                        agg["runs"] += st.pop("runs", 0)
                        agg["nontrivial_runs"] += st.pop("nontrivial_runs", 0)
                        agg["sim_us"] += st.pop("sim_us", 0)
                        st.pop("wall_s", None)
                        for k, v in st.items():
                            agg["counters"][k] = agg["counters"].get(k, 0) + v
            rc = w.p.wait()
            w.errf.close()
            if fail_line is not None:
                head, _, detail = fail_line.partition(" :: ")
                p = head.split()
                with lock:
                    agg["failed_runs"] = agg.get("failed_runs", 0) + 1
                    if sum(1 for f in agg["failures"] if f["cls"] == p[2]) < percls:
                        agg["failures"].append({"seed": int(p[1]), "cls": p[2], "hash": p[3], "detail": detail, "crash": False})
            elif rc not in (0, 1):
                with open(w.errpath, errors="replace") as f:
                    err = f.read()
                cls, detail = classify_crash(err, rc)
                if curk is not None:
                    detail = "[oom.k=%s] %s" % (curk, detail)
                if hung[0]:
                    cls, detail = "nonterminating", "the simulated run did not finish within %d s of real time (the code under test spins or blocks forever)" % HANG_S
                with lock:
                    agg["runs"] += nrun
                    agg["failed_runs"] = agg.get("failed_runs", 0) + 1
                    if sum(1 for f in agg["failures"] if f["cls"] == cls) < percls:
                        agg["failures"].append({"seed": cur, "cls": cls, "hash": "", "detail": detail, "crash": True, "stderr": err[-6000:]})
            else:
                return   # clean end of budget
            first_index += nrun   # restart after the failing run

    threads = [threading.Thread(target=pump, args=(i,)) for i in range(nworkers)]
    for t in threads:
        t.start()
    for t in threads:
        t.join()
    return agg


# ----------------------------------------------------------------------------- violation pipeline

def oom_sites(root, binary, planpath, scratch):
    """Call sites of the allocation(s) that were made to fail in a pinned fault-enumeration replay: the replay is
    re-executed with dbus's own DBUS_MALLOC_BACKTRACES, the frames are symbolised, and for each failure the innermost
    function that is not part of the allocator / list / string plumbing is named.  '' when it cannot be determined."""
    try:
        env = dict(os.environ, SIM_SCRATCH=scratch, SIM_KNOWN=KNOWN_IDS, DBUS_MALLOC_BACKTRACES="1")
        exe = os.path.join(root, "build", binary)
        pr = subprocess.run([exe, "--replay", planpath], env=env, stdout=subprocess.DEVNULL, stderr=subprocess.PIPE, timeout=120)
        addrs_per_failure, cur = [], None
        for line in pr.stderr.decode(errors="replace").splitlines():
            m = re.match(r"\s+\S*%s\(\+(0x[0-9a-f]+)\)" % re.escape(binary), line)
            if not m:
                continue
            if cur is None or len(cur) >= 40:
                cur = []
                addrs_per_failure.append(cur)
            cur.append(m.group(1))
        if not addrs_per_failure:
            return "? in=? via=?"
        # a new backtrace starts wherever _dbus_print_backtrace is the frame: re-split after symbolising
        flat = [a for bt in addrs_per_failure for a in bt]
        sym = subprocess.run(["llvm-symbolizer-14", "-e", exe, "-f", "-p", "--no-inlines"] + flat, stdout=subprocess.PIPE, stderr=subprocess.DEVNULL, timeout=120)
        frames = []
        for l in sym.stdout.decode(errors="replace").splitlines():
            l = l.strip()
            if l:
                fn, _, loc = l.partition(" at ")
                frames.append((fn, loc))
        # one backtrace per _dbus_print_backtrace frame; backtraces printed by _dbus_abort (assertions) are not failures
        bts, curbt = [], None
        for fn, loc in frames:
            if fn == "_dbus_print_backtrace":
                curbt = []
                bts.append(curbt)
            elif curbt is not None:
                curbt.append((fn, loc))
        sites, handlers, vias = [], [], []
        for bt in bts:
            if bt and bt[0][0] == "_dbus_abort":
                continue
            # phase of a configuration reload: what bus_context_reload_config had called (parsing the file,
            # or putting the parsed configuration in force)
            via = "-"
            for i, (fn, loc) in enumerate(bt):
                if fn == "bus_context_reload_config" and i > 0:
                    via = bt[i - 1][0]
            vias.append(via)
            h = [fn for fn, loc in bt if fn.startswith("bus_driver_handle_") and fn != "bus_driver_handle_message"]
            handlers.append(h[-1][len("bus_driver_"):] if h else "dispatch")
            inbus = [i for i, (fn, loc) in enumerate(bt) if re.search(r"/bus/[^/]+\.c:", loc)]
            if inbus:
                i = inbus[0]
                # the bus function and what it called (stable under edits, unlike line numbers)
                sites.append(bt[i][0] + (">" + bt[i - 1][0] if i > 0 else ""))
            elif bt:
                sites.append(bt[-1][0] if len(bt) < 3 else bt[2][0])
        return "+".join(sites[:2]) + " in=" + "+".join(handlers[:2]) + " via=" + "+".join(vias[:2])
    except Exception:
        return "? in=? via=?"


def prepare_failure(root, spec, prop, fl, thorough, scratch, known):
    """stage 1 (cheap): regenerate the plan, pin the fault point, gate by two fresh-process replays, name the
    operation and the call site(s) of the failing allocation(s), look the failure up in the known findings.
    returns ('harness', msg) or ('ctx', dict)"""
    binary = spec["binary"]
    if fl["cls"] == "harness-error":
        return ("harness", fl["detail"])
    if fl["seed"] is None:
        return ("harness", "worker died outside a run: " + fl["detail"][:400])
    text = emit_plan(root, binary, spec["prop"], fl["seed"], thorough)
    if not text.strip():
        return ("harness", "could not regenerate plan for seed %d" % fl["seed"])
    enum_text = text
    # fault-enumeration checks: name the operation that ran under the injected failure (the step right
    # before "oombus"), so that findings are identified by operation kind
    opkind = ""
    lines = text.splitlines()
    for i, l in enumerate(lines):
        if l.startswith("step oombus") and i > 0:
            p = lines[i - 1].split(" ")
            opkind = p[1] if len(p) > 1 else ""
            if opkind in ("query", "send") and len(p) > 4:
                opkind += ":" + (p[4] if opkind == "query" else "type" + p[3].split(",")[0])
    # fault-enumeration checks: pin the failing allocation index so that replay and minimisation
    # re-execute one run instead of the whole enumeration
    mk = re.search(r"\[oom\.k=(-?\d+)(?:,gap=(-?\d+))?(?:,idx=(\d+))?\]", fl.get("detail", "") or "")
    if mk and "cfg oom.enumerate 1" in text:
        text = text.replace("cfg oom.enumerate 1", "cfg oom.enumerate 0\ncfg oom.k %s\ncfg oom.gap %s" % (mk.group(1), mk.group(2) or "-1"))
    os.makedirs(os.path.join(root, "replays"), exist_ok=True)
    tag = "%d-%s" % (fl["seed"], (mk.group(3) or "x") if mk else "x")
    ppath = os.path.join(scratch, "fail-%s.plan" % tag)
    with open(ppath, "w") as f:
        f.write(text)
    # gate: two fresh-process replays must fail the same way
    r1 = run_plan(root, binary, ppath, scratch)
    r2 = run_plan(root, binary, ppath, scratch)
    if r1["ok"] or r2["ok"] or r1["cls"] != r2["cls"] or r1["hash"] != r2["hash"]:
        return ("harness", "failure of seed %d (%s) does not reproduce identically in fresh processes: %s/%s vs %s/%s"
                % (fl["seed"], fl["cls"], r1["cls"], r1["hash"], r2["cls"], r2["hash"]))
    cls = r1["cls"]
    optag = ("op=%s " % opkind) if opkind else ""
    if opkind and mk and binary == "simbus":
        site = oom_sites(root, binary, ppath, scratch)
        optag += "site=%s " % site
    r1["detail"] = optag + (r1["detail"] or "")
    if cls in ("harness-error",):
        return ("harness", r1["detail"])
    vprop = prop_of_class(cls, spec.get("safety_prop", prop))
    k = match_known(known, vprop, cls, r1["detail"])
    return ("ctx", {"seed": fl["seed"], "text": text, "enum_text": enum_text, "ppath": ppath, "cls": cls, "optag": optag, "r1": r1, "vprop": vprop,
                    "known": k, "idx": int(mk.group(3)) if mk and mk.group(3) is not None else None, "tag": tag,
                    "key": (cls, optag, id(k) if k else None)})


def continue_enumeration(root, spec, ctx, scratch):
    """A reported fault point must not shadow what the later fault points of the same operation do: re-execute the
    seed's enumeration from the point behind it.  returns a failure record for the next failing point, or None."""
    if ctx["idx"] is None or "cfg oom.enumerate 1" not in ctx["enum_text"]:
        return None
    text = ctx["enum_text"].replace("cfg oom.enumerate 1", "cfg oom.enumerate 1\ncfg oom.skip %d" % (ctx["idx"] + 1))
    path = os.path.join(scratch, "cont-%d.plan" % ctx["seed"])
    with open(path, "w") as f:
        f.write(text)
    r = run_plan(root, spec["binary"], path, scratch, timeout=600, oomk_trace=True)
    if r["ok"]:
        return None
    if r["cls"] == "nonterminating" and "[oom.k=" not in r["detail"]:
        return None
    return {"seed": ctx["seed"], "cls": r["cls"], "hash": r["hash"], "detail": r["detail"], "crash": r["hash"] == "", "continued": True}


def finish_failure(root, spec, prop, ctx, scratch, known, tier):
    """stage 2: minimise, write the replay file.  returns ('violation', info) | ('known', entry, info)"""
    binary = spec["binary"]
    text, cls, optag, vprop, k, r1, ppath = ctx["text"], ctx["cls"], ctx["optag"], ctx["vprop"], ctx["known"], ctx["r1"], ctx["ppath"]
    head, steps = split_plan(text)
    mini = Minimiser(root, binary, scratch, cls, 200 if tier == "quick" else 2000)
    n0 = len(steps)
    steps = mini.ddmin(head, steps)
    steps = mini.simplify_steps(head, steps)
    steps = mini.ddmin(head, steps)
    mtext = join_plan(head, steps)
    mpath = os.path.join(scratch, "min-%s.plan" % ctx["tag"])
    with open(mpath, "w") as f:
        f.write(mtext)
    rm = run_plan(root, binary, mpath, scratch, want_log=True)
    rm2 = run_plan(root, binary, mpath, scratch)
    if rm["ok"] or rm["cls"] != cls or rm2["ok"] or rm2["cls"] != cls or rm["hash"] != rm2["hash"]:
        # minimised plan is flaky: fall back to the original plan
        mtext, rm = text, run_plan(root, binary, ppath, scratch, want_log=True)
        steps = split_plan(text)[1]
    rm["detail"] = optag + (rm["detail"] or "")
    k = match_known(known, vprop, cls, rm["detail"]) or k
    hist = ""
    for l in rm["log"].splitlines():
        if l.startswith("HISTORY "):
            hist = l[8:]
    safe = re.sub(r"[^A-Za-z0-9_.-]", "_", cls)[:60]
    rpath = os.path.join(root, "replays", "%s-%s-%s.plan" % (vprop, safe, ctx["tag"] if ctx["idx"] is not None else str(ctx["seed"])))
    with open(rpath, "w") as f:
        f.write("# replay file: ./check %s --replay %s\n" % (prop, os.path.relpath(rpath, root)))
        f.write("# property %s  class %s  seed %d  expected-trace-hash %s\n" % (vprop, cls, ctx["seed"], rm["hash"]))
        f.write("# minimised from %d to %d steps in %d re-executions\n" % (n0, len(steps), mini.runs))
        f.write("# violation: %s\n" % rm["detail"].replace("\n", " ")[:1500])
        if hist:
            f.write("# history: %s\n" % hist[:1500])
        f.write(mtext)
    info = {"path": rpath, "cls": cls, "prop": vprop, "detail": rm["detail"], "steps_before": n0, "steps_after": len(steps), "reruns": mini.runs}
    if k:
        return ("known", k, info)
    return ("violation", info)


# ----------------------------------------------------------------------------- main

def main(root, argv):
    if not argv:
        log(__doc__)
        return 2
    prop = argv[0]
    tier = os.environ.get("VERIF_TIER", "quick")
    replay = None
    budget = None
    nworkers = NPROC
    i = 1
    while i < len(argv):
        a = argv[i]
        if a == "--tier": tier = argv[i + 1]; i += 2
        elif a == "--replay": replay = argv[i + 1]; i += 2
        elif a == "--budget-s": budget = float(argv[i + 1]); i += 2
        elif a == "--workers": nworkers = int(argv[i + 1]); i += 2
        else:
            log("unknown argument", a); return 2
    if prop not in CHECKS:
        log("no check for", prop); return 2
    spec = CHECKS[prop]
    if tier not in ("quick", "thorough"):
        tier = "quick"
    thorough = tier == "thorough"
    if replay:
        # a replay file says which check it belongs to (a companion check has its own binary)
        try:
            rp = os.path.join(root, replay) if not os.path.isabs(replay) else replay
            for line in open(rp, errors="replace"):
                if line.startswith("prop "):
                    pp = line.split()[1]
                    if pp in CHECKS and pp != prop:
                        prop = pp; spec = CHECKS[pp]
                    break
        except OSError:
            pass
    companion_rc, companion_ev = 0, None
    if spec.get("companion") and not replay:
        # the property has a second clause decided by another binary: it runs first, on a fixed share of the budget
        cprop = spec["companion"]
        cbud = (budget if budget is not None else (spec["thorough_s"] if thorough else spec["quick_s"])) * 0.2
        companion_rc = main(root, [cprop, "--tier", tier, "--budget-s", "%.1f" % max(5.0, cbud), "--workers", str(nworkers)])
        evp = os.path.join(root, "evidence", cprop + ".json")
        if os.path.exists(evp):
            try: companion_ev = json.load(open(evp))
            except ValueError: companion_ev = None
            os.unlink(evp)
        if companion_rc == 2:
            return 2
    seed = int(os.environ.get("VERIF_SEED", "1") or 1)
    t0 = time.time()
    if not build(root, ["build/" + spec["binary"]]):
        return 2
    scratch = os.path.join(root, "build", "scratch", "d%d" % os.getpid())
    os.makedirs(scratch, exist_ok=True)
    known = load_known(root)
    global KNOWN_IDS
    KNOWN_IDS = ",".join(k["id"] for k in known if k.get("status") == "finding" and k.get("id"))
    try:
        if replay:
            r = run_plan(root, spec["binary"], os.path.join(root, replay) if not os.path.isabs(replay) else replay, scratch, want_log=True)
            if r["ok"]:
                print("replay: property held (no failure reproduced)")
                return 0
            print("replay reproduces: class=%s hash=%s\n%s" % (r["cls"], r["hash"], r["detail"]))
            print("VIOLATION property=%s replay=%s" % (prop_of_class(r["cls"], spec.get("safety_prop", prop)), replay))
            return 1
        if budget is None:
            budget = spec["thorough_s"] if thorough else spec["quick_s"]
        if spec.get("companion"):
            budget = budget * 0.8
        agg = run_batch(root, spec, seed, budget, thorough, scratch, nworkers)
        rc = 0
        violations, knowns, harness = [], [], []
        seen_keys = set()
        queue = list(agg["failures"])
        follow_deadline = time.time() + max(60.0, 0.6 * budget)
        followed = {}
        while queue:
            fl = queue.pop(0)
            st = prepare_failure(root, spec, prop, fl, thorough, scratch, known)
            if st[0] == "harness":
                harness.append(st[1])
                continue
            ctx = st[1]
            already_listed = ctx["known"] is not None and any(k is ctx["known"] for k, _ in knowns)
            if ctx["key"] not in seen_keys and not already_listed:
                seen_keys.add(ctx["key"])
                res = finish_failure(root, spec, prop, ctx, scratch, known, tier)
                if res[0] == "violation": violations.append(res[1])
                else:
                    if not any(k is res[1] for k, _ in knowns): knowns.append((res[1], res[2]))
            # fault enumeration: go on behind the reported fault point (bounded)
            if ctx["idx"] is not None and time.time() < follow_deadline and followed.get(ctx["seed"], 0) < 120 and len(violations) < 8:
                followed[ctx["seed"]] = followed.get(ctx["seed"], 0) + 1
                agg["counters"]["oom_enumerations_continued_behind_a_reported_point"] = agg["counters"].get("oom_enumerations_continued_behind_a_reported_point", 0) + 1
                nxt = continue_enumeration(root, spec, ctx, scratch)
                if nxt is not None:
                    queue.insert(0, nxt)
        for k, info in knowns:
            print("KNOWN-FINDING: property=%s %s" % (k["property"], k["text"]))
        for k in known:
            hits = agg["counters"].get("finding:" + k.get("id", "?"), 0)
            if k.get("status") == "finding" and hits > 0:
                print("KNOWN-FINDING: property=%s %s (observed %d times in this batch)" % (k["property"], k["text"], hits))
                knowns.append((k, {"path": ""}))
        for v in violations:
            print("violation class=%s\n  %s" % (v["cls"], v["detail"][:1200]))
            print("VIOLATION property=%s replay=%s" % (v["prop"], os.path.relpath(v["path"], root)))
            rc = 1
        if harness and rc == 0:
            for h in harness:
                log("HARNESS ERROR:", h)
            rc = 2
        write_evidence(root, prop, spec, tier, seed, agg, violations, knowns, time.time() - t0, budget, nworkers)
        if companion_ev is not None:
            # fold the companion check's coverage into this property's evidence file
            evp = os.path.join(root, "evidence", prop + ".json")
            ev = json.load(open(evp))
            cc = companion_ev.get("coverage", {})
            cov = ev["coverage"]
            for k, v in cc.get("rare_branch_probes", {}).items(): cov["rare_branch_probes"][spec["companion"] + ":" + k] = v
            for k, v in cc.get("other_counters", {}).items(): cov["other_counters"][spec["companion"] + ":" + k] = v
            for k, v in cc.get("faults_fired_by_kind", {}).items(): cov["faults_fired_by_kind"][spec["companion"] + ":" + k] = v
            cov["other_counters"][spec["companion"] + ":evaluations"] = cc.get("evaluations", 0)
            cov["other_counters"][spec["companion"] + ":distinct_traces"] = cc.get("distinct_traces_all", 0)
            cov["components"]["real"] = cov["components"]["real"] + cc.get("components", {}).get("real", [])
            cov["components"]["stub"] = cov["components"]["stub"] + cc.get("components", {}).get("stub", [])
            cov["rule"] = cov["rule"] + " || second clause (" + spec["companion"] + ", run first on 20% of the budget): " + cc.get("rule", "")
            cov["probes_stuck_at_zero"] = cov.get("probes_stuck_at_zero", []) + [spec["companion"] + ":" + x for x in cc.get("probes_stuck_at_zero", [])]
            json.dump(ev, open(evp, "w"), indent=1)
        if companion_rc == 1:
            rc = 1
        n = agg["runs"]
        print("%s %s: %d simulated runs, %d distinct traces (%d non-trivial), %d violations, %d known findings, %.1fs"
              % (prop, tier, n, len(agg["hashes_all"]), len(agg["hashes_nt"]), len(violations), len(knowns), time.time() - t0))
        return rc
    finally:
        shutil.rmtree(scratch, ignore_errors=True)


def write_evidence(root, prop, spec, tier, seed, agg, violations, knowns, wall, budget, nworkers):
    c = agg["counters"]
    faults = {k[6:]: v for k, v in c.items() if k.startswith("fault:")}
    probes = {k[6:]: v for k, v in c.items() if k.startswith("probe:")}
    choices = {k[7:]: v for k, v in c.items() if k.startswith("choice:")}
    matched = {k[8:]: v for k, v in c.items() if k.startswith("matched:")}
    other = {k: v for k, v in c.items() if ":" not in k}
    zero_probes = [p for p in spec.get("probes", []) if probes.get(p, 0) == 0 and c.get(p, 0) == 0]
    runs = max(agg["runs"], 0)
    samples = agg["samples"] or [{"note": "no sample captured in this run"}]
    ev = {
        "property_id": prop,
        "tier": tier,
        "seed": seed,
        "level": spec["level"],
        "coverage": {
            "evaluations": runs,
            "distinct_nontrivial": len(agg["hashes_nt"]),
            "rule": spec["rule"],
            "samples": samples,
            "distinct_traces_all": len(agg["hashes_all"]),
            "nontrivial_runs": agg["nontrivial_runs"],
            "distinct_abstract_states": len(agg["states"]),
            "runs_per_hour": int(runs / max(wall, 1e-9) * 3600),
            "simulated_seconds_covered": round(agg["sim_us"] / 1e6, 3),
            "faults_fired_by_kind": faults,
            "rare_branch_probes": probes,
            "probes_stuck_at_zero": zero_probes,
            "choice_points_exercised": choices,
            "oracle_items_matched_by_property": matched,
            "other_counters": other,
            "runs_that_ended_in_a_failure_or_known_finding": agg.get("failed_runs", 0),
            "seed_derivation": "run seed = mix(VERIF_SEED, worker + i*workers); first seeds: %s" % agg["seeds_sample"],
            "workers": nworkers,
            "budget_s": budget,
            "components": spec.get("components", {}),
            "exhaustive": False,
        },
        "assumptions": spec.get("assumptions", []),
        "wall_s": round(wall, 2),
        "violations": len(violations),
        "known_findings": [k["text"] for k, _ in knowns],
    }
    if violations:
        ev["coverage"]["violation_replays"] = [os.path.relpath(v["path"], root) for v in violations]
        ev["coverage"]["minimisation"] = [{"before": v["steps_before"], "after": v["steps_after"], "reruns": v["reruns"]} for v in violations]
    os.makedirs(os.path.join(root, "evidence"), exist_ok=True)
    with open(os.path.join(root, "evidence", prop + ".json"), "w") as f:
        json.dump(ev, f, indent=1, sort_keys=True)
