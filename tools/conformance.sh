#!/bin/bash
# Stub-vs-Linux conformance of the simulated kernel: the same AF_UNIX stream / SCM_RIGHTS / poll / pipe
# scenarios run through the link-time wrappers and through the real system calls; the observation logs must agree.
cd "$(dirname "$0")/.."
tools/build.sh build/simconf || exit 2
exec ./build/simconf
