#!/usr/bin/env python3
"""Regenerates MANIFEST.json from tools/checkdefs.py + tools/manifest_static.json."""
import json, os, sys
ROOT = os.path.dirname(os.path.dirname(os.path.abspath(__file__)))
sys.path.insert(0, os.path.join(ROOT, "tools"))
from checkdefs import CHECKS, MANIFEST_TEXT, NOT_APPLICABLE, NOT_CLAIMED_YET

checks = []
for pid in sorted(CHECKS):
    if not pid.startswith("C") or pid not in MANIFEST_TEXT:
        continue      # (companion checks such as C19H run as part of their property's check)
    spec = CHECKS[pid]
    t = MANIFEST_TEXT[pid]
    checks.append({
        "property_id": pid,
        "quick_cmd": "./check %s --tier quick" % pid,
        "thorough_cmd": "./check %s --tier thorough" % pid,
        "evidence_file": "evidence/%s.json" % pid,
        "replay_cmd_template": "./check %s --replay {path}" % pid,
        "engine": spec["binary"],
        "level_claimed": {"category": spec["level"], "text": t["level_text"], "design_ref": t["design_ref"]},
        "level_note": t["level_note"],
        "technique": t["technique"],
    })
m = {
    "version": 1,
    "setup_cmd": "tools/setup.sh",
    "hooks": {
        "guard": "DBUS_VERIF_SIM",
        "enable": "tools/build.sh compiles every dbus/*.c and bus/*.c of /repo's working tree with -DDBUS_VERIF_SIM (clang, ASan+UBSan) into /verif/build and links them with the simulator; the guard is never defined by /repo's own build",
        "baseline_off_cmd": "cmake --build /repo/_build && ctest --test-dir /repo/_build -j8 --timeout 900",
        "source_commits": json.load(open(os.path.join(ROOT, "tools", "hook_commits.json"))),
        "add_only": True,
    },
    "engines": [
        {"name": "simbus", "path": "build/simbus", "serves_properties": sorted(p for p in CHECKS if p in MANIFEST_TEXT and CHECKS[p]["binary"] == "simbus"),
         "kind_free_text": "whole dbus-daemon (real bus/*.c + dbus/*.c) in-process under a simulated kernel (link-time --wrap of libc), scripted raw clients on an independent wire codec, executable bus model as oracle, seeded plan generator, ddmin minimiser, fresh-process replay gate"},
        {"name": "simhelper", "path": "build/simhelper", "serves_properties": ["C19"],
         "kind_free_text": "the activation helper (bus/activation-helper.c built as the test launcher) with execv() as a link-time seam; companion of the C19 check"},
        {"name": "simlib", "path": "build/simlib", "serves_properties": sorted(p for p in CHECKS if p in MANIFEST_TEXT and CHECKS[p]["binary"] == "simlib"),
         "kind_free_text": "real libdbus endpoint (DBusServer/DBusConnection, transport, auth, loader, pending calls, object tree) against a scripted wire peer under the same simulated kernel"},
    ],
    "checks": checks,
    "not_applicable": NOT_APPLICABLE,
    "notes": "Deterministic simulation with fault injection; see DESIGN.md. Properties not yet claimed (check not finished, NOT not-applicable): %s. Exit codes: 0 held (KNOWN-FINDING lines possible), 1 violation with replay file, 2 harness error." % (", ".join(NOT_CLAIMED_YET) or "none"),
}
json.dump(m, open(os.path.join(ROOT, "MANIFEST.json"), "w"), indent=1)
print("MANIFEST.json written with", len(checks), "checks")
