// sim/sched/sched.cc — see sched.h.
#include "sched/sched.h"

#include <stdio.h>
#include <stdlib.h>

#include "core/core.h"

using simk::K;

namespace simsched {

Sched *S = nullptr;
static thread_local Thread *tl_self = nullptr;

Sched::~Sched() {
  if (S == this) S = nullptr;
  for (Thread *t : threads) {
    if (t->st == Thread::DONE) { pthread_join(t->th, nullptr); sem_destroy(&t->sem); delete t; }
    // a thread that never finished stays parked for the rest of the process (the run failed; the worker ends)
  }
  if (main_sem_init) sem_destroy(&main_sem);
}

void *Sched::trampoline(void *p) {
  Thread *t = (Thread *)p;
  tl_self = t;
  sem_wait(&t->sem);
  try {
    t->body();
  } catch (core::Violation &v) {
    t->failed = true;
    t->failure_cls = v.cls;
    t->failure_detail = v.detail;
  }
  t->st = Thread::DONE;
  tl_self = nullptr;
  sem_post(&S->main_sem);
  return nullptr;
}

int Sched::spawn(std::function<void()> body) {
  if (!main_sem_init) { sem_init(&main_sem, 0, 0); main_sem_init = true; }
  Thread *t = new Thread();
  t->id = (int)threads.size();
  t->body = std::move(body);
  sem_init(&t->sem, 0, 0);
  t->st = Thread::NEW;
  threads.push_back(t);
  S = this;     // the trampoline reads S when the thread ends
  pthread_attr_t at;
  pthread_attr_init(&at);
  pthread_attr_setstacksize(&at, 1 << 20);
  if (pthread_create(&t->th, &at, trampoline, t) != 0) core::harness_error("pthread_create failed");
  pthread_attr_destroy(&at);
  return t->id;
}

bool Sched::in_thread() const { return S == this && tl_self != nullptr; }

void Sched::park(Thread *t) {
  sem_post(&main_sem);
  sem_wait(&t->sem);
}

void Sched::yield() {
  Thread *t = tl_self;
  if (!t) return;
  t->st = Thread::RUNNABLE;
  park(t);
}

bool Sched::run(std::function<bool(int64_t)> world_step, std::function<void()> after_each_switch) {
  S = this;
  auto saved_on_block = K->on_block;
  K->on_block = [this](int64_t dl) { return poll_park(dl); };
  bool ok = true;
  Thread *last = nullptr;
  int spin_count = 0, dead_spins = 0;
  uint64_t spin_gen = 0;
  int64_t spin_now = -1;
  for (;;) {
    // a violation inside a thread ends the run (the other threads stay parked)
    bool failed = false;
    for (Thread *t : threads) if (t->failed) failed = true;
    if (failed) break;
    // timed condition waits whose deadline has passed wake up (and need their mutex back)
    for (Thread *t : threads)
      if (t->st == Thread::BLOCKED_COND && t->deadline_us >= 0 && K->now_us >= t->deadline_us) {
        t->st = Thread::BLOCKED_MUTEX; t->wait_obj = t->cond_mutex; t->woken = false; stats.cond_timeouts++;
      }
    if (spurious_wakeup_pct) {
      std::vector<Thread *> cw;
      for (Thread *t : threads) if (t->st == Thread::BLOCKED_COND) cw.push_back(t);
      if (!cw.empty() && rng.pct(spurious_wakeup_pct)) {
        Thread *t = cw[rng.below(cw.size())];
        t->st = Thread::BLOCKED_MUTEX; t->wait_obj = t->cond_mutex; t->woken = true; stats.spurious_wakeups++;
      }
    }
    std::vector<Thread *> runnable;
    bool all_done = true;
    int64_t min_deadline = -1;
    for (Thread *t : threads) {
      if (t->st != Thread::DONE) all_done = false;
      switch (t->st) {
        case Thread::NEW: case Thread::RUNNABLE: runnable.push_back(t); break;
        case Thread::BLOCKED_MUTEX: { Mutex &m = mutexes[t->wait_obj]; if (m.owner < 0) runnable.push_back(t); break; }
        case Thread::BLOCKED_POLL:
          if (K->change_gen != t->seen_gen || (t->deadline_us >= 0 && K->now_us >= t->deadline_us)) runnable.push_back(t);
          else if (t->deadline_us >= 0 && (min_deadline < 0 || t->deadline_us < min_deadline)) min_deadline = t->deadline_us;
          break;
        case Thread::BLOCKED_COND:
          if (t->deadline_us >= 0 && (min_deadline < 0 || t->deadline_us < min_deadline)) min_deadline = t->deadline_us;
          break;
        case Thread::DONE: break;
      }
    }
    if (all_done) break;
    if (runnable.empty()) {
      stats.world_steps++;
      if (!world_step(min_deadline)) {
        ok = false;
        deadlock_report.clear();
        for (Thread *t : threads) {
          char b[160];
          snprintf(b, sizeof b, "thread %d: %s; ", t->id, t->st == Thread::DONE ? "done" : t->st == Thread::BLOCKED_MUTEX ? "waiting for a mutex" : t->st == Thread::BLOCKED_COND ? "waiting on a condition variable (no timeout)" :
                   t->st == Thread::BLOCKED_POLL ? "asleep in poll (no timeout)" : "runnable");
          deadlock_report += b;
        }
        break;
      }
      if (after_each_switch) after_each_switch();
      continue;
    }
    // A thread that keeps coming back without anything having changed (e.g. a timed wait whose timeout is already
    // over, retried at once) would starve the world, which in reality moves while it spins: let the world step.
    if (runnable.size() == 1 && runnable[0] == last && K->change_gen == spin_gen && K->now_us == spin_now) {
      if (++spin_count > 200) {
        stats.spins++;
        spin_count = 0;
        int64_t md = -1;
        for (Thread *t : threads) if (t != last && t->st != Thread::DONE && t->deadline_us >= 0 && (md < 0 || t->deadline_us < md)) md = t->deadline_us;
        if (!world_step(md)) { /* nothing else can happen: the spin is all there is */ if (++dead_spins > 50) { ok = false; deadlock_report = "a thread spins on a wait that returns at once while every other thread sleeps for ever"; break; } }
        if (after_each_switch) after_each_switch();
      }
    } else { spin_count = 0; spin_gen = K->change_gen; spin_now = K->now_us; }
    // mostly let the thread that just ran continue (interleavings with few preemptions first), otherwise uniform
    Thread *pick = nullptr;
    if (last && rng.pct(50)) for (Thread *t : runnable) if (t == last) pick = t;
    if (!pick) { pick = runnable[rng.below(runnable.size())]; if (last && pick != last && last->st == Thread::RUNNABLE) stats.preemptions++; }
    if (pick->st == Thread::BLOCKED_MUTEX) { Mutex &m = mutexes[pick->wait_obj]; m.owner = pick->id; m.count = 1; }
    pick->st = Thread::RUNNABLE;
    cur = pick;
    last = pick;
    stats.switches++;
    sem_post(&pick->sem);
    sem_wait(&main_sem);
    cur = nullptr;
    if (after_each_switch) after_each_switch();
  }
  K->on_block = saved_on_block;
  S = nullptr;
  return ok;
}

bool Sched::acquire_or_block(Thread *t, const void *m, bool recursive) {
  Mutex &mx = mutexes[m];
  if (mx.owner == t->id) {
    if (!recursive) { fprintf(stderr, "simsched: thread %d relocks a non-recursive mutex it holds\n", t->id); abort(); }
    mx.count++;
    return true;
  }
  if (mx.owner < 0) { mx.owner = t->id; mx.count = 1; return true; }
  return false;
}

void Sched::mutex_lock(const void *m, bool recursive) {
  Thread *t = tl_self;
  {
    Mutex &mx = mutexes[m];
    if (mx.owner == t->id && recursive) { mx.count++; return; }
  }
  // a scheduling point before taking a lock: another thread may get in first
  if (rng.pct(35)) { t->st = Thread::RUNNABLE; park(t); }
  if (acquire_or_block(t, m, recursive)) return;
  stats.mutex_waits++;
  t->st = Thread::BLOCKED_MUTEX;
  t->wait_obj = m;
  park(t);     // the scheduler hands us the mutex when it lets us run
}

void Sched::mutex_unlock(const void *m) {
  Thread *t = tl_self;
  Mutex &mx = mutexes[m];
  if (mx.owner != t->id) { fprintf(stderr, "simsched: thread %d unlocks a mutex owned by %d\n", t->id, mx.owner); abort(); }
  if (--mx.count == 0) mx.owner = -1;
}

void Sched::cond_wait(const void *c, const void *m) {
  Thread *t = tl_self;
  Mutex &mx = mutexes[m];
  if (mx.owner != t->id) { fprintf(stderr, "simsched: condition wait without holding the mutex\n"); abort(); }
  mx.owner = -1; mx.count = 0;
  stats.cond_waits++;
  t->st = Thread::BLOCKED_COND;
  t->wait_obj = c;
  t->cond_mutex = m;
  t->deadline_us = -1;
  park(t);
}

bool Sched::cond_wait_timeout(const void *c, const void *m, int timeout_ms) {
  Thread *t = tl_self;
  Mutex &mx = mutexes[m];
  if (mx.owner != t->id) { fprintf(stderr, "simsched: condition wait without holding the mutex\n"); abort(); }
  mx.owner = -1; mx.count = 0;
  stats.cond_waits++;
  t->st = Thread::BLOCKED_COND;
  t->wait_obj = c;
  t->cond_mutex = m;
  t->deadline_us = K->now_us + (int64_t)(timeout_ms < 0 ? 0 : timeout_ms) * 1000;
  park(t);
  t->deadline_us = -1;
  return t->woken;
}

void Sched::cond_wake_one(const void *c) {
  std::vector<Thread *> w;
  for (Thread *t : threads) if (t->st == Thread::BLOCKED_COND && t->wait_obj == c) w.push_back(t);
  if (w.empty()) return;
  Thread *t = w[rng.below(w.size())];
  t->st = Thread::BLOCKED_MUTEX;
  t->wait_obj = t->cond_mutex;
  t->woken = true;
}

bool Sched::poll_park(int64_t deadline_us) {
  Thread *t = tl_self;
  if (!t) return false;
  stats.poll_parks++;
  t->st = Thread::BLOCKED_POLL;
  t->deadline_us = deadline_us;
  t->seen_gen = K->change_gen;
  park(t);
  t->deadline_us = -1;
  return true;
}

}  // namespace simsched

// ------------------------------------------------------------------ link-time seam: libdbus' platform thread layer
extern "C" {
struct DBusCMutex;
struct DBusRMutex;
struct DBusCondVar;
void __real__dbus_platform_cmutex_lock(DBusCMutex *);
void __real__dbus_platform_cmutex_unlock(DBusCMutex *);
void __real__dbus_platform_rmutex_lock(DBusRMutex *);
void __real__dbus_platform_rmutex_unlock(DBusRMutex *);
void __real__dbus_platform_condvar_wait(DBusCondVar *, DBusCMutex *);
unsigned __real__dbus_platform_condvar_wait_timeout(DBusCondVar *, DBusCMutex *, int);
void __real__dbus_platform_condvar_wake_one(DBusCondVar *);

#define ACTIVE (simsched::S && simsched::S->in_thread())

void __wrap__dbus_platform_cmutex_lock(DBusCMutex *m) { if (ACTIVE) simsched::S->mutex_lock(m, false); else __real__dbus_platform_cmutex_lock(m); }
void __wrap__dbus_platform_cmutex_unlock(DBusCMutex *m) { if (ACTIVE) simsched::S->mutex_unlock(m); else __real__dbus_platform_cmutex_unlock(m); }
void __wrap__dbus_platform_rmutex_lock(DBusRMutex *m) { if (ACTIVE) simsched::S->mutex_lock(m, true); else __real__dbus_platform_rmutex_lock(m); }
void __wrap__dbus_platform_rmutex_unlock(DBusRMutex *m) { if (ACTIVE) simsched::S->mutex_unlock(m); else __real__dbus_platform_rmutex_unlock(m); }
void __wrap__dbus_platform_condvar_wait(DBusCondVar *c, DBusCMutex *m) { if (ACTIVE) simsched::S->cond_wait(c, m); else __real__dbus_platform_condvar_wait(c, m); }
unsigned __wrap__dbus_platform_condvar_wait_timeout(DBusCondVar *c, DBusCMutex *m, int ms) {
  if (ACTIVE) return simsched::S->cond_wait_timeout(c, m, ms) ? 1u : 0u;
  return __real__dbus_platform_condvar_wait_timeout(c, m, ms);
}
void __wrap__dbus_platform_condvar_wake_one(DBusCondVar *c) { if (ACTIVE) simsched::S->cond_wake_one(c); else __real__dbus_platform_condvar_wake_one(c); }
}
