// sim/sched/sched.h — serialising scheduler for application threads.
//
// Real pthreads, but exactly one runs at a time: every thread parks at the
// synchronisation points of libdbus' own platform layer (mutex lock, condition
// wait / wake, intercepted at link time) and wherever the simulated kernel would
// block (poll), and the scheduler — the harness' main thread — releases one
// parked thread, chosen by the run's seeded PRNG.  When no thread can run the
// world moves instead (a peer action or the virtual clock).  One seed is one
// interleaving; nothing here reads a real clock.
#pragma once
#include <pthread.h>
#include <semaphore.h>
#include <stdint.h>

#include <functional>
#include <map>
#include <string>
#include <vector>

#include "kernel/kernel.h"

namespace simsched {

struct Thread {
  int id = 0;
  pthread_t th{};
  sem_t sem;
  enum State { NEW, RUNNABLE, BLOCKED_MUTEX, BLOCKED_COND, BLOCKED_POLL, DONE } st = NEW;
  const void *wait_obj = nullptr;     // mutex or condition variable waited for
  const void *cond_mutex = nullptr;   // mutex to re-acquire after a condition wait
  int64_t deadline_us = -1;           // for timed condition waits and poll
  uint64_t seen_gen = 0;              // kernel change generation when it went to sleep in poll
  bool woken = false;                 // condition wait: woken (true) or timed out (false)
  std::function<void()> body;
  std::string failure_cls, failure_detail;   // a core::Violation thrown inside the thread
  bool failed = false;
};

struct Stats {
  uint64_t switches = 0, mutex_waits = 0, cond_waits = 0, cond_timeouts = 0, poll_parks = 0, world_steps = 0, spurious_wakeups = 0, preemptions = 0, spins = 0;
};

class Sched {
 public:
  explicit Sched(uint64_t seed) : rng(seed) {}
  ~Sched();
  // spawn an application thread (parked until run())
  int spawn(std::function<void()> body);
  // run all threads to completion under the seeded schedule.  world_step(deadline): nobody can run — let the
  // world move (peer action or clock up to the deadline, -1 = none); false = nothing can happen (deadlock).
  // Returns false on deadlock (threads still blocked, world exhausted).
  bool run(std::function<bool(int64_t)> world_step, std::function<void()> after_each_switch = nullptr);
  // explicit scheduling point, callable from thread bodies between operations
  void yield();
  bool in_thread() const;               // the calling thread is one of ours and the scheduler is active
  Stats stats;
  unsigned spurious_wakeup_pct = 0;     // legal for condition variables: a waiter wakes although nobody signalled
  std::string deadlock_report;
  std::vector<Thread *> threads;

  // called by the link-time wrappers
  void mutex_lock(const void *m, bool recursive);
  void mutex_unlock(const void *m);
  void cond_wait(const void *c, const void *m);
  bool cond_wait_timeout(const void *c, const void *m, int timeout_ms);
  void cond_wake_one(const void *c);
  bool poll_park(int64_t deadline_us);  // the kernel's on_block hook while threads are running

 private:
  struct Mutex { int owner = -1; int count = 0; };
  std::map<const void *, Mutex> mutexes;
  simk::Rng rng;
  sem_t main_sem;
  bool main_sem_init = false;
  Thread *cur = nullptr;
  void park(Thread *t);                 // thread side: give the baton back to the scheduler and wait
  bool acquire_or_block(Thread *t, const void *m, bool recursive);
  static void *trampoline(void *);
};

extern Sched *S;        // the active scheduler, or nullptr (wrappers pass through to the real functions)

}  // namespace simsched
