// sim/kernel/kernel.h — the simulated operating system under the dbus code.
//
// Everything libdbus / dbus-daemon would ask the kernel or glibc NSS for is
// answered from here (see wraps in kernel.cc, linked with -Wl,--wrap=sym).
// Single threaded unless thread mode installs a yield hook.  No real time, no
// real sockets, no real processes.
#pragma once
#include <cstdint>
#include <deque>
#include <functional>
#include <map>
#include <set>
#include <string>
#include <vector>

namespace simk {

// splitmix64-based PRNG: the only source of randomness anywhere.
struct Rng {
  uint64_t s;
  explicit Rng(uint64_t seed = 1) : s(seed) {}
  uint64_t next() {
    uint64_t z = (s += 0x9e3779b97f4a7c15ull);
    z = (z ^ (z >> 30)) * 0xbf58476d1ce4e5b9ull;
    z = (z ^ (z >> 27)) * 0x94d049bb133111ebull;
    return z ^ (z >> 31);
  }
  uint64_t below(uint64_t n) { return n ? next() % n : 0; }          // [0,n)
  int64_t range(int64_t lo, int64_t hi) { return lo + (int64_t)below((uint64_t)(hi - lo + 1)); }  // [lo,hi]
  bool chance(unsigned num, unsigned den) { return below(den) < num; }
  bool pct(unsigned p) { return below(100) < p; }
};

struct Creds {
  bool have = true;           // SO_PEERCRED answers at all
  int pid = 4242;
  unsigned uid = 0, gid = 0;
  bool have_groups = true;    // SO_PEERGROUPS supported
  std::vector<unsigned> groups;
};

struct Seg {                  // one sendmsg()'s worth, or a remainder of it
  std::string data;
  std::vector<int> fds;       // real descriptors (owned by the segment) riding on data[0]
};

struct End {                  // one end of a stream socket or pipe
  int id = 0;
  End *peer = nullptr;        // nullptr once the peer end object is gone
  std::deque<Seg> rx;         // bytes readable at this end
  size_t rx_bytes = 0;
  size_t rxcap = 1 << 20;     // how much the peer may have queued here before EAGAIN
  bool open = true;           // this end still held by someone
  bool peer_gone = false;     // peer end fully closed
  bool peer_shut_wr = false;  // peer did shutdown(SHUT_WR) or closed: EOF after rx drains
  bool reset = false;         // peer closed with unread data from us: ECONNRESET on read
  bool is_pipe = false;
  bool can_read = true, can_write = true;   // pipes are unidirectional
  bool unix_socket = true;
  Creds peer_creds;           // what SO_PEERCRED at this end reports
  int refs = 1;               // fd-table entries + actor/process holders
  uint64_t bytes_in = 0, bytes_out = 0;
  uint64_t peer_consumed = 0;   // bytes written at this end that the other end has actually read (survives the other end's close)
};

struct Listener {
  std::string name;           // "@abstract" or path
  std::deque<End *> backlog;  // server-side ends waiting for accept
  bool open = true;
  bool scripted = false;      // true: owned by a harness actor (SUT connect()s to it)
  std::deque<End *> accepted_by_actor;  // for scripted listeners: peer ends the actor should pick up
};

struct User { std::string name; unsigned uid, gid; std::string home; bool at_console = false; };
struct Group { std::string name; unsigned gid; std::vector<std::string> members; };

struct IoProfile {            // per-step fault/size decisions, all legal kernel behaviour
  unsigned short_read_pct = 0;     // recv returns fewer bytes than available
  unsigned one_byte_read_pct = 0;  // ... exactly one byte
  unsigned short_write_pct = 0;    // send accepts only a prefix
  unsigned one_byte_write_pct = 0;
  unsigned eagain_read_pct = 0;    // spurious EAGAIN although poll said readable
  unsigned eagain_write_pct = 0;   // spurious EAGAIN on write
  unsigned eintr_pct = 0;          // EINTR before a blocking-class call
  unsigned poll_subset_pct = 0;    // poll reports only a subset of ready fds
  unsigned accept_eagain_pct = 0;
  unsigned sys_err_pct = 0;        // ENOBUFS/ENOMEM on sendmsg/recvmsg, ETOOMANYREFS with fds
};

struct Stats {
  std::map<std::string, uint64_t> syscalls;
  std::map<std::string, uint64_t> faults;   // fired, by kind
  uint64_t bytes_sut_read = 0, bytes_sut_written = 0;
};

struct Process {              // a simulated child (babysitter + grandchild)
  int pid = 0;
  std::vector<std::string> argv;
  std::vector<std::string> env;   // the environment handed to the spawn ("KEY=value")
  std::vector<End *> held;    // ends inherited over fork that the parent then closed
  bool exited = false, reaped = false;
  int status = 0;             // wait status
  bool killed = false;
  int kill_sig = 0;
  // the babysitter's two channels to its parent, known once proc_settle() has run
  End *sock = nullptr;        // babysitter end of the socketpair (CHILD_PID / CHILD_EXITED go here)
  End *errpipe = nullptr;     // write end of the exec-error pipe (closed by a successful exec)
  bool settled = false;
  bool reported = false;      // CHILD_PID has been written (the real babysitter does that at once)
};

class Kernel {
 public:
  Kernel();
  ~Kernel();
  void reset(uint64_t seed);          // new run: drop everything, clock to epoch, re-key getrandom

  // ---- clock (microseconds since an arbitrary epoch)
  int64_t now_us = 0;
  uint64_t change_gen = 0;       // bumped whenever stream state changes (bytes written, an end closed or shut down): lets parked pollers know a re-scan can differ
  void advance_ms(int64_t ms) { now_us += ms * 1000; if (now_us < 0) now_us = 0; }

  // ---- identity of the SUT process, users and groups
  Creds self;                                   // getuid/geteuid/getpid of the SUT
  std::vector<User> users;
  std::vector<Group> groups;
  void add_user(const std::string &name, unsigned uid, unsigned gid, bool at_console = false);
  void add_group(const std::string &name, unsigned gid, std::vector<std::string> members = {});

  // ---- actor side API (harness code, not the SUT)
  Listener *find_listener(const std::string &name);
  Listener *make_scripted_listener(const std::string &name);  // SUT connect() goes here
  // connect to a listener the SUT created; returns the actor-side end (or nullptr if none / closed)
  End *actor_connect(const std::string &listener_name, const Creds &creds);
  // write at the actor end -> appears in peer's rx.  fds: real fds, ownership moves to the kernel.
  void actor_write(End *e, const std::string &data, std::vector<int> fds = {});
  // read everything (up to max) that the SUT wrote to us
  std::string actor_read(End *e, size_t max, std::vector<int> *fds_out);
  size_t actor_readable(End *e) const { return e->rx_bytes; }
  bool actor_eof(End *e) const { return e->rx_bytes == 0 && (e->peer_gone || e->peer_shut_wr); }
  void actor_close(End *e);            // drop the actor's reference
  void actor_shutdown_wr(End *e);
  void end_ref(End *e) { e->refs++; }

  // ---- SUT fd table inspection
  bool is_sim_fd(int fd) const;
  End *end_of_fd(int fd);
  int sut_open_sim_fds() const;        // how many simulated descriptors the SUT holds
  std::vector<int> sut_fd_list() const;

  // ---- fd ledger for SCM_RIGHTS (C15)
  struct Installed { int fd; uint64_t tag; int closes = 0; bool open = true; };
  std::vector<Installed> installed;    // every descriptor number handed to SUT code via recvmsg
  std::map<int, size_t> installed_open;  // fd -> index into installed, while open
  std::set<int> installed_closed;        // numbers of passed descriptors the SUT has closed and that have not been issued again
  uint64_t passed_fd_double_closes = 0;  // close() of such a number: a passed descriptor closed twice
  uint64_t next_install_tag = 1;

  // ---- processes
  std::vector<Process *> procs;
  Process *proc_by_pid(int pid);
  std::vector<std::string> next_spawn_env;
  std::vector<std::string> next_spawn_argv;   // argv of the spawn in progress (recorded by the spawn wrapper, taken by fork)
  // the scripted babysitter + service process (what dbus-spawn-unix.c's child side would do)
  void proc_settle(Process *p);               // the child closes its copies of the parent's descriptors
  void proc_exec_ok(Process *p);              // grandchild exec()ed: error pipe closes, CHILD_PID is reported
  void proc_exit(Process *p, int wait_status);// grandchild exited: CHILD_EXITED + status, babysitter exits
  void proc_exec_failed(Process *p, int err); // exec failed: CHILD_EXEC_FAILED + errno on the error pipe, then exit status 1
  void proc_die(Process *p);                  // killed: everything closes, nothing is reported
  int next_pid = 30000;
  bool fork_fails = false;

  // ---- per-step I/O decisions
  IoProfile io;
  Rng io_rng{1};
  int sut_read_limit = 0;              // >0: cap on bytes per recv (knob)
  bool faults_enabled = true;

  // ---- blocking: called when the SUT blocks in poll/read with nothing ready.
  // Must make progress in the world (deliver something / advance the clock) and
  // return true, or return false when nothing can ever happen (deadlock).
  std::function<bool(int64_t deadline_us)> on_block;

  // ---- statistics
  Stats stats;
  void count_fault(const char *kind) { stats.faults[kind]++; }

  // ---- event trace hook (kernel-level events feed the trace hash)
  std::function<void(const char *what, int64_t a, int64_t b)> trace;

  // ---- internals used by the wrappers
  struct FdEntry { enum Kind { NONE, UNBOUND, LISTENER, STREAM } kind = NONE; End *end = nullptr; Listener *lis = nullptr; bool nonblock = false; };
  std::map<int, FdEntry> fdt;
  std::vector<End *> all_ends;
  std::vector<Listener *> all_listeners;
  int next_end_id = 1;
  uint64_t rand_ctr = 0, rand_key = 0;
  int alloc_fd();                       // reserve a real descriptor number
  End *new_end();
  void make_pair(End **a, End **b);
  void unref_end(End *e);
  int install_stream_fd(End *e);
  void fill_random(void *buf, size_t n);
  bool readable(const FdEntry &f) const;
  bool writable(const FdEntry &f) const;
  bool hup(const FdEntry &f) const;
};

extern Kernel *K;                       // the one kernel; never null after sim_kernel_init()
void kernel_init();

// Real (unwrapped) close/dup for harness code that manages real fds itself.
int real_close(int fd);
int real_dup(int fd);

}  // namespace simk
