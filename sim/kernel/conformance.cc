// sim/kernel/conformance.cc — does the simulated kernel answer like Linux?
//
// The same scenarios (the subset of AF_UNIX stream / SCM_RIGHTS / poll / pipe
// behaviour libdbus and the daemon rely on) run twice: once through the
// link-time wrappers (simulated kernel), once through the real system calls.
// Each scenario writes a textual log of what the caller can observe (return
// values, errno names, bytes, number of descriptors, readiness bits).  The two
// logs must be identical.  Faults are off: this checks the fault-free
// semantics the fault catalogue then perturbs in legal ways.
//
//   build/simconf           prints the two logs' differences; exit 0 iff none
#include <errno.h>
#include <fcntl.h>
#include <poll.h>
#include <signal.h>
#include <stdarg.h>
#include <stdio.h>
#include <string.h>
#include <sys/mman.h>
#include <sys/socket.h>
#include <sys/stat.h>
#include <sys/uio.h>
#include <unistd.h>

#include <algorithm>
#include <string>
#include <vector>

#include "kernel/kernel.h"

extern "C" {
int __real_socketpair(int, int, int, int[2]);
ssize_t __real_read(int, void *, size_t);
ssize_t __real_write(int, const void *, size_t);
ssize_t __real_sendmsg(int, const struct msghdr *, int);
ssize_t __real_recvmsg(int, struct msghdr *, int);
ssize_t __real_send(int, const void *, size_t, int);
ssize_t __real_recv(int, void *, size_t, int);
int __real_close(int);
int __real_poll(struct pollfd *, nfds_t, int);
int __real_shutdown(int, int);
int __real_pipe2(int[2], int);
int __real_fcntl(int, int, ...);
int __real_getsockopt(int, int, int, void *, socklen_t *);
}

struct Api {
  int (*socketpair)(int, int, int, int[2]);
  ssize_t (*read)(int, void *, size_t);
  ssize_t (*write)(int, const void *, size_t);
  ssize_t (*sendmsg)(int, const struct msghdr *, int);
  ssize_t (*recvmsg)(int, struct msghdr *, int);
  ssize_t (*send)(int, const void *, size_t, int);
  ssize_t (*recv)(int, void *, size_t, int);
  int (*close)(int);
  int (*poll)(struct pollfd *, nfds_t, int);
  int (*shutdown)(int, int);
  int (*pipe2)(int[2], int);
  int (*setnonblock)(int);
};

static int real_setnb(int fd) { int fl = __real_fcntl(fd, F_GETFL, 0); return __real_fcntl(fd, F_SETFL, fl | O_NONBLOCK); }
static int sim_setnb(int fd) { int fl = fcntl(fd, F_GETFL, 0); return fcntl(fd, F_SETFL, fl | O_NONBLOCK); }

static std::string g_log;
static void L(const char *fmt, ...) {
  char b[512];
  va_list ap;
  va_start(ap, fmt);
  vsnprintf(b, sizeof b, fmt, ap);
  va_end(ap);
  g_log += b;
  g_log += "\n";
}
static const char *en(int e) {
  switch (e) { case 0: return "0"; case EAGAIN: return "EAGAIN"; case EPIPE: return "EPIPE"; case ECONNRESET: return "ECONNRESET"; case EBADF: return "EBADF"; case ENOTCONN: return "ENOTCONN"; case EINVAL: return "EINVAL"; default: return "other"; }
}
static std::string R(ssize_t r) { char b[64]; if (r < 0) snprintf(b, sizeof b, "-1/%s", en(errno)); else snprintf(b, sizeof b, "%zd", r); return b; }

static ssize_t send_with_fds(const Api &a, int fd, const char *data, size_t n, const std::vector<int> &fds) {
  struct iovec iov = {(void *)data, n};
  char ctl[CMSG_SPACE(sizeof(int) * 8)];
  struct msghdr m;
  memset(&m, 0, sizeof m);
  m.msg_iov = &iov; m.msg_iovlen = 1;
  if (!fds.empty()) {
    m.msg_control = ctl; m.msg_controllen = CMSG_SPACE(sizeof(int) * fds.size());
    struct cmsghdr *c = CMSG_FIRSTHDR(&m);
    c->cmsg_level = SOL_SOCKET; c->cmsg_type = SCM_RIGHTS; c->cmsg_len = CMSG_LEN(sizeof(int) * fds.size());
    memcpy(CMSG_DATA(c), fds.data(), sizeof(int) * fds.size());
  }
  return a.sendmsg(fd, &m, MSG_NOSIGNAL);
}
// returns bytes; *nfds descriptors received (closed at once, identity checked by the caller through ino)
static ssize_t recv_with_fds(const Api &a, int fd, char *buf, size_t n, size_t room_for, std::vector<int> *fds, int *flags) {
  struct iovec iov = {buf, n};
  char ctl[CMSG_SPACE(sizeof(int) * 8)];
  struct msghdr m;
  memset(&m, 0, sizeof m);
  m.msg_iov = &iov; m.msg_iovlen = 1;
  if (room_for > 0) { m.msg_control = ctl; m.msg_controllen = CMSG_SPACE(sizeof(int) * room_for); }
  ssize_t r = a.recvmsg(fd, &m, MSG_CMSG_CLOEXEC);
  if (flags) *flags = m.msg_flags;
  if (r >= 0)
    for (struct cmsghdr *c = CMSG_FIRSTHDR(&m); c; c = CMSG_NXTHDR(&m, c))
      if (c->cmsg_level == SOL_SOCKET && c->cmsg_type == SCM_RIGHTS) {
        size_t k = (c->cmsg_len - CMSG_LEN(0)) / sizeof(int);
        for (size_t i = 0; i < k; i++) { int x; memcpy(&x, CMSG_DATA(c) + i * sizeof(int), sizeof x); fds->push_back(x); }
      }
  return r;
}
static unsigned long ino_of(int fd) { struct stat st; if (fstat(fd, &st) != 0) return 0; return (unsigned long)st.st_ino; }
static std::string P(const Api &a, int fd, short ev) {
  struct pollfd p = {fd, ev, 0};
  int r = a.poll(&p, 1, 0);
  char b[64];
  snprintf(b, sizeof b, "%d:%s%s%s%s", r, (p.revents & POLLIN) ? "IN" : "", (p.revents & POLLOUT) ? "OUT" : "", (p.revents & POLLHUP) ? "HUP" : "", (p.revents & POLLERR) ? "ERR" : "");
  return b;
}

static void scenarios(const Api &a) {
  char buf[256];
  int sv[2];
  // 1. stream semantics: writes coalesce, reads may be partial, order kept
  L("# stream");
  a.socketpair(AF_UNIX, SOCK_STREAM, 0, sv); a.setnonblock(sv[0]); a.setnonblock(sv[1]);
  L("write %s", R(a.write(sv[0], "hello", 5)).c_str());
  L("write %s", R(a.write(sv[0], "world", 5)).c_str());
  ssize_t r = a.read(sv[1], buf, 3); L("read3 %s %.*s", R(r).c_str(), (int)(r > 0 ? r : 0), buf);
  r = a.read(sv[1], buf, 100); L("read100 %s %.*s", R(r).c_str(), (int)(r > 0 ? r : 0), buf);
  L("poll-empty %s", P(a, sv[1], POLLIN | POLLOUT).c_str());
  r = a.read(sv[1], buf, 10); L("read-empty-nonblock %s", R(r).c_str());
  // 2. peer closes with data pending: data first, then EOF; writes to a closed peer
  L("# close");
  a.write(sv[0], "tail", 4);
  a.close(sv[0]);
  L("poll-after-peer-close %s", P(a, sv[1], POLLIN).c_str());
  r = a.read(sv[1], buf, 100); L("read-tail %s %.*s", R(r).c_str(), (int)(r > 0 ? r : 0), buf);
  r = a.read(sv[1], buf, 100); L("read-eof %s", R(r).c_str());
  L("poll-at-eof %s", P(a, sv[1], POLLIN | POLLOUT).c_str());
  r = a.send(sv[1], "x", 1, MSG_NOSIGNAL); L("send-to-closed %s", R(r).c_str());
  a.close(sv[1]);
  // 3. shutdown(SHUT_WR): the peer reads EOF, the other direction stays open
  L("# shutdown");
  a.socketpair(AF_UNIX, SOCK_STREAM, 0, sv); a.setnonblock(sv[0]); a.setnonblock(sv[1]);
  a.write(sv[0], "ab", 2);
  L("shutdown %d", a.shutdown(sv[0], SHUT_WR));
  r = a.read(sv[1], buf, 10); L("read %s", R(r).c_str());
  r = a.read(sv[1], buf, 10); L("read-eof %s", R(r).c_str());
  r = a.write(sv[1], "back", 4); L("write-back %s", R(r).c_str());
  r = a.read(sv[0], buf, 10); L("read-back %s", R(r).c_str());
  a.close(sv[0]); a.close(sv[1]);
  // 4. SCM_RIGHTS: descriptors ride on the first byte of their sendmsg, arrive as the same open files in order
  L("# scm_rights");
  a.socketpair(AF_UNIX, SOCK_STREAM, 0, sv); a.setnonblock(sv[0]); a.setnonblock(sv[1]);
  int f1 = memfd_create("c1", MFD_CLOEXEC), f2 = memfd_create("c2", MFD_CLOEXEC), f3 = memfd_create("c3", MFD_CLOEXEC);
  unsigned long i1 = ino_of(f1), i2 = ino_of(f2), i3 = ino_of(f3);
  a.write(sv[0], "pre", 3);
  L("sendmsg+2fds %s", R(send_with_fds(a, sv[0], "DATA", 4, {f1, f2})).c_str());
  a.write(sv[0], "post", 4);
  std::vector<int> got;
  int fl = 0;
  r = recv_with_fds(a, sv[1], buf, 100, 4, &got, &fl);
  L("recv1 %s %.*s fds=%zu ctrunc=%d", R(r).c_str(), (int)(r > 0 ? r : 0), buf, got.size(), (fl & MSG_CTRUNC) != 0);   // does a read cross into the descriptor-carrying segment?
  size_t before = got.size();
  r = recv_with_fds(a, sv[1], buf, 100, 4, &got, &fl);
  L("recv2 %s %.*s fds=%zu ctrunc=%d", R(r).c_str(), (int)(r > 0 ? r : 0), buf, got.size() - before, (fl & MSG_CTRUNC) != 0);
  before = got.size();
  r = recv_with_fds(a, sv[1], buf, 100, 4, &got, &fl);
  L("recv3 %s fds=%zu", R(r).c_str(), got.size() - before);
  L("identity %d %d", got.size() >= 1 && ino_of(got[0]) == i1, got.size() >= 2 && ino_of(got[1]) == i2);
  for (int x : got) close(x);
  got.clear();
  // 4b. control buffer too small: truncation flag, the descriptors that fit are delivered, the rest are gone
  L("sendmsg+3fds %s", R(send_with_fds(a, sv[0], "Q", 1, {f1, f2, f3})).c_str());
  r = recv_with_fds(a, sv[1], buf, 100, 1, &got, &fl);
  L("recv-small-ctl %s fds=%zu ctrunc=%d first-is-f1=%d", R(r).c_str(), got.size(), (fl & MSG_CTRUNC) != 0, !got.empty() && ino_of(got[0]) == i1);
  for (int x : got) close(x);
  got.clear();
  // 4c. plain read of a descriptor-carrying byte: data arrives, descriptors are discarded
  L("sendmsg+1fd %s", R(send_with_fds(a, sv[0], "Z", 1, {f3})).c_str());
  r = a.read(sv[1], buf, 10); L("plain-read %s %.*s", R(r).c_str(), (int)(r > 0 ? r : 0), buf);
  r = recv_with_fds(a, sv[1], buf, 100, 4, &got, &fl);
  L("recv-after %s fds=%zu", R(r).c_str(), got.size());
  // 4d. descriptors sent, then the receiver reads only part of the data of that sendmsg: they come with the first part
  L("sendmsg+1fd %s", R(send_with_fds(a, sv[0], "0123456789", 10, {f3})).c_str());
  r = recv_with_fds(a, sv[1], buf, 4, 4, &got, &fl);
  L("recv-part %s fds=%zu is-f3=%d", R(r).c_str(), got.size(), !got.empty() && ino_of(got[0]) == i3);
  before = got.size();
  r = recv_with_fds(a, sv[1], buf, 100, 4, &got, &fl);
  L("recv-rest %s fds=%zu", R(r).c_str(), got.size() - before);
  for (int x : got) close(x);
  got.clear();
  close(f1); close(f2); close(f3);
  a.close(sv[0]); a.close(sv[1]);
  // 5. readiness for writing and a reader that went away
  L("# poll");
  a.socketpair(AF_UNIX, SOCK_STREAM, 0, sv); a.setnonblock(sv[0]); a.setnonblock(sv[1]);
  L("fresh %s %s", P(a, sv[0], POLLIN | POLLOUT).c_str(), P(a, sv[1], POLLIN | POLLOUT).c_str());
  a.write(sv[0], "x", 1);
  L("after-write %s", P(a, sv[1], POLLIN | POLLOUT).c_str());
  a.close(sv[1]);
  L("peer-closed-with-unread %s", P(a, sv[0], POLLIN | POLLOUT).c_str());
  r = a.send(sv[0], "y", 1, MSG_NOSIGNAL); L("send %s", R(r).c_str());
  a.close(sv[0]);
  // 6. pipes
  L("# pipe");
  int p[2];
  L("pipe2 %d", a.pipe2(p, O_CLOEXEC | O_NONBLOCK));
  L("write %s", R(a.write(p[1], "pp", 2)).c_str());
  L("poll %s", P(a, p[0], POLLIN).c_str());
  r = a.read(p[0], buf, 10); L("read %s", R(r).c_str());
  a.close(p[1]);
  L("poll-writer-closed %s", P(a, p[0], POLLIN).c_str());
  r = a.read(p[0], buf, 10); L("read-eof %s", R(r).c_str());
  a.close(p[0]);
}

int main() {
  signal(SIGPIPE, SIG_IGN);
  simk::kernel_init();
  simk::K->reset(1);
  simk::K->faults_enabled = false;
  Api sim = {socketpair, read, write, sendmsg, recvmsg, send, recv, close, poll, shutdown, pipe2, sim_setnb};
  Api real = {__real_socketpair, __real_read, __real_write, __real_sendmsg, __real_recvmsg, __real_send, __real_recv, __real_close, __real_poll, __real_shutdown, __real_pipe2, real_setnb};
  g_log.clear(); scenarios(sim); std::string a = g_log;
  g_log.clear(); scenarios(real); std::string b = g_log;
  if (a == b) { printf("conformance: %zu observations agree between the simulated kernel and Linux\n", (size_t)std::count(a.begin(), a.end(), '\n')); return 0; }
  // line diff
  std::vector<std::string> la, lb;
  size_t i = 0;
  while (i < a.size()) { size_t e = a.find('\n', i); la.push_back(a.substr(i, e - i)); i = e + 1; }
  i = 0;
  while (i < b.size()) { size_t e = b.find('\n', i); lb.push_back(b.substr(i, e - i)); i = e + 1; }
  for (size_t k = 0; k < std::max(la.size(), lb.size()); k++) {
    std::string x = k < la.size() ? la[k] : "<missing>", y = k < lb.size() ? lb[k] : "<missing>";
    if (x != y) printf("DIFF line %zu\n  sim : %s\n  real: %s\n", k + 1, x.c_str(), y.c_str());
  }
  return 1;
}
