// sim/kernel/kernel.cc — simulated kernel + link-time wrappers (-Wl,--wrap=sym).
#include "kernel.h"

#include <errno.h>
#include <fcntl.h>
#include <grp.h>
#include <poll.h>
#include <pwd.h>
#include <signal.h>
#include <stdarg.h>
#include <stddef.h>
#include <stdio.h>
#include <stdlib.h>
#include <string.h>
#include <sys/eventfd.h>
#include <sys/resource.h>
#include <sys/socket.h>
#include <sys/time.h>
#include <sys/types.h>
#include <sys/uio.h>
#include <sys/un.h>
#include <sys/wait.h>
#include <time.h>
#include <unistd.h>

#include <algorithm>

#ifndef SO_PEERGROUPS
#define SO_PEERGROUPS 59
#endif

extern "C" {
int __real_close(int);
int __real_dup(int);
int __real_fcntl(int, int, ...);
int __real_poll(struct pollfd *, nfds_t, int);
ssize_t __real_read(int, void *, size_t);
ssize_t __real_write(int, const void *, size_t);
ssize_t __real_writev(int, const struct iovec *, int);
ssize_t __real_send(int, const void *, size_t, int);
ssize_t __real_recv(int, void *, size_t, int);
ssize_t __real_sendmsg(int, const struct msghdr *, int);
ssize_t __real_recvmsg(int, struct msghdr *, int);
int __real_socket(int, int, int);
int __real_socketpair(int, int, int, int[2]);
int __real_bind(int, const struct sockaddr *, socklen_t);
int __real_listen(int, int);
int __real_accept(int, struct sockaddr *, socklen_t *);
int __real_accept4(int, struct sockaddr *, socklen_t *, int);
int __real_connect(int, const struct sockaddr *, socklen_t);
int __real_getsockname(int, struct sockaddr *, socklen_t *);
int __real_getpeername(int, struct sockaddr *, socklen_t *);
int __real_getsockopt(int, int, int, void *, socklen_t *);
int __real_setsockopt(int, int, int, const void *, socklen_t);
int __real_shutdown(int, int);
int __real_pipe(int[2]);
int __real_pipe2(int[2], int);
int __real_dup2(int, int);
pid_t __real_waitpid(pid_t, int *, int);
int __real_kill(pid_t, int);
}

namespace simk {

Kernel *K = nullptr;

static const int FD_BASE = 1000;

int real_close(int fd) { return __real_close(fd); }
int real_dup(int fd) { return __real_fcntl(fd, F_DUPFD_CLOEXEC, FD_BASE); }

void kernel_init() {
  if (!K) {
    struct rlimit rl;
    if (getrlimit(RLIMIT_NOFILE, &rl) == 0 && rl.rlim_cur < 8192) {
      rl.rlim_cur = std::min<rlim_t>(rl.rlim_max, 65536);
      setrlimit(RLIMIT_NOFILE, &rl);
    }
    K = new Kernel();
  }
}

Kernel::Kernel() { reset(1); }
Kernel::~Kernel() {}

void Kernel::reset(uint64_t seed) {
  // close every simulated descriptor number still reserved
  for (auto &kv : fdt) __real_close(kv.first);
  fdt.clear();
  for (End *e : all_ends) {
    for (auto &s : e->rx)
      for (int fd : s.fds) __real_close(fd);
    delete e;
  }
  all_ends.clear();
  for (Listener *l : all_listeners) delete l;
  all_listeners.clear();
  for (auto &in : installed)
    if (in.open) __real_close(in.fd);
  installed.clear();
  installed_open.clear();
  installed_closed.clear();
  passed_fd_double_closes = 0;
  next_install_tag = 1;
  for (Process *p : procs) delete p;
  procs.clear();
  next_pid = 30000;
  fork_fails = false;
  now_us = 1600000000ll * 1000000ll;  // fixed epoch
  self = Creds();
  self.pid = 777;
  users.clear();
  groups.clear();
  add_user("root", 0, 0);
  add_group("root", 0);
  io = IoProfile();
  io_rng = Rng(seed ^ 0x5151);
  sut_read_limit = 0;
  faults_enabled = true;
  on_block = nullptr;
  trace = nullptr;
  stats = Stats();
  next_end_id = 1;
  rand_ctr = 0;
  rand_key = seed * 0x9e3779b97f4a7c15ull + 12345;
}

void Kernel::add_user(const std::string &name, unsigned uid, unsigned gid, bool at_console) {
  User u;
  u.name = name; u.uid = uid; u.gid = gid; u.home = "/nonexistent/" + name; u.at_console = at_console;
  users.push_back(u);
}
void Kernel::add_group(const std::string &name, unsigned gid, std::vector<std::string> members) {
  Group g;
  g.name = name; g.gid = gid; g.members = std::move(members);
  groups.push_back(g);
}

int Kernel::alloc_fd() {
  int base = eventfd(0, EFD_CLOEXEC | EFD_NONBLOCK);
  if (base < 0) { perror("simk: eventfd"); abort(); }
  int fd = __real_fcntl(base, F_DUPFD_CLOEXEC, FD_BASE);
  if (fd < 0) { perror("simk: F_DUPFD"); abort(); }
  __real_close(base);
  installed_closed.erase(fd);   // the number is in use again: a close of it is no longer a double close
  return fd;
}

End *Kernel::new_end() {
  End *e = new End();
  e->id = next_end_id++;
  all_ends.push_back(e);
  return e;
}

void Kernel::make_pair(End **a, End **b) {
  End *x = new_end(), *y = new_end();
  x->peer = y; y->peer = x;
  *a = x; *b = y;
}

void Kernel::unref_end(End *e) {
  change_gen++;
  if (--e->refs > 0) return;
  e->open = false;
  // unread data at close => the peer sees ECONNRESET (Linux AF_UNIX semantics)
  bool had_unread = e->rx_bytes > 0;
  for (auto &s : e->rx)
    for (int fd : s.fds) __real_close(fd);
  e->rx.clear();
  e->rx_bytes = 0;
  if (e->peer) {
    e->peer->peer_gone = true;
    e->peer->peer_shut_wr = true;
    if (had_unread && !e->is_pipe) e->peer->reset = true;
    e->peer->peer = nullptr;
    e->peer = nullptr;
  }
}

int Kernel::install_stream_fd(End *e) {
  int fd = alloc_fd();
  FdEntry f;
  f.kind = FdEntry::STREAM;
  f.end = e;
  fdt[fd] = f;
  return fd;
}

bool Kernel::is_sim_fd(int fd) const { return fdt.count(fd) != 0; }
End *Kernel::end_of_fd(int fd) {
  auto it = fdt.find(fd);
  return (it == fdt.end() || it->second.kind != FdEntry::STREAM) ? nullptr : it->second.end;
}
int Kernel::sut_open_sim_fds() const { return (int)fdt.size(); }
std::vector<int> Kernel::sut_fd_list() const {
  std::vector<int> v;
  for (auto &kv : fdt) v.push_back(kv.first);
  return v;
}

Listener *Kernel::find_listener(const std::string &name) {
  for (Listener *l : all_listeners)
    if (l->open && l->name == name) return l;
  return nullptr;
}

Listener *Kernel::make_scripted_listener(const std::string &name) {
  Listener *l = new Listener();
  l->name = name;
  l->scripted = true;
  all_listeners.push_back(l);
  return l;
}

End *Kernel::actor_connect(const std::string &name, const Creds &creds) {
  Listener *l = find_listener(name);
  if (!l || l->scripted) return nullptr;
  End *srv, *cli;
  make_pair(&srv, &cli);
  srv->peer_creds = creds;
  cli->peer_creds = self;
  l->backlog.push_back(srv);
  srv->refs = 1;  // held by the backlog until accepted (then by the fd table)
  return cli;
}

void Kernel::actor_write(End *e, const std::string &data, std::vector<int> fds) {
  if (!e->open || !e->peer || data.empty()) {
    for (int fd : fds) __real_close(fd);
    return;
  }
  End *p = e->peer;
  Seg s;
  s.data = data;
  s.fds = std::move(fds);
  p->rx_bytes += data.size();
  e->bytes_out += data.size();
  change_gen++;
  // coalesce with the previous segment when neither carries descriptors
  if (!p->rx.empty() && s.fds.empty() && p->rx.back().fds.empty())
    p->rx.back().data += s.data;
  else
    p->rx.push_back(std::move(s));
}

std::string Kernel::actor_read(End *e, size_t max, std::vector<int> *fds_out) {
  std::string out;
  while (!e->rx.empty() && out.size() < max) {
    Seg &s = e->rx.front();
    if (!s.fds.empty()) {
      if (fds_out) fds_out->insert(fds_out->end(), s.fds.begin(), s.fds.end());
      else for (int fd : s.fds) __real_close(fd);
      s.fds.clear();
    }
    size_t take = std::min(max - out.size(), s.data.size());
    out.append(s.data, 0, take);
    s.data.erase(0, take);
    e->rx_bytes -= take;
    if (s.data.empty()) e->rx.pop_front();
  }
  e->bytes_in += out.size();
  return out;
}

void Kernel::actor_close(End *e) { if (e->open) unref_end(e); }
void Kernel::actor_shutdown_wr(End *e) { if (e->peer) e->peer->peer_shut_wr = true; }

Process *Kernel::proc_by_pid(int pid) {
  for (Process *p : procs) if (p->pid == pid) return p;
  return nullptr;
}

void Kernel::fill_random(void *buf, size_t n) {
  unsigned char *p = (unsigned char *)buf;
  while (n) {
    Rng r(rand_key ^ (rand_ctr++ * 0xd1342543de82ef95ull));
    uint64_t v = r.next();
    size_t k = std::min<size_t>(n, 8);
    memcpy(p, &v, k);
    p += k; n -= k;
  }
}

bool Kernel::readable(const FdEntry &f) const {
  if (f.kind == FdEntry::LISTENER) return !f.lis->backlog.empty();
  if (f.kind != FdEntry::STREAM) return false;
  End *e = f.end;
  return e->rx_bytes > 0 || e->peer_gone || e->peer_shut_wr || e->reset;
}
bool Kernel::writable(const FdEntry &f) const {
  if (f.kind != FdEntry::STREAM) return false;
  End *e = f.end;
  if (!e->peer) return true;  // will fail with EPIPE, which poll reports as writable+ERR
  return e->peer->rx_bytes < e->peer->rxcap;
}
bool Kernel::hup(const FdEntry &f) const {
  return f.kind == FdEntry::STREAM && f.end->peer_gone;
}

}  // namespace simk

// =====================================================================
// wrappers
// =====================================================================
using namespace simk;

#define COUNT(name) do { if (K) K->stats.syscalls[name]++; } while (0)

static bool fault(unsigned pct, const char *kind) {
  if (!K->faults_enabled || pct == 0) return false;
  if (!K->io_rng.pct(pct)) return false;
  K->count_fault(kind);
  return true;
}

static Kernel::FdEntry *lookup(int fd) {
  if (!K) return nullptr;
  auto it = K->fdt.find(fd);
  return it == K->fdt.end() ? nullptr : &it->second;
}

// Wait until `ready()` holds, running the world.  Returns false on deadlock / deadline.
template <class F>
static bool block_until(F ready, int64_t deadline_us) {
  int guard = 0;
  while (!ready()) {
    if (deadline_us >= 0 && K->now_us >= deadline_us) return false;
    if (!K->on_block) {
      if (deadline_us >= 0) { K->now_us = deadline_us; return ready(); }
      fprintf(stderr, "simk: SUT blocks forever with no world hook\n");
      abort();
    }
    if (!K->on_block(deadline_us)) {
      if (deadline_us >= 0) { if (K->now_us < deadline_us) K->now_us = deadline_us; return ready(); }
      fprintf(stderr, "simk: deadlock: SUT blocked and nothing can happen\n");
      abort();
    }
    if (++guard > 10000000) { fprintf(stderr, "simk: block_until livelock\n"); abort(); }
  }
  return true;
}

// ---- core stream read/write used by read/recv/recvmsg and write/send/sendmsg

static ssize_t stream_read(Kernel::FdEntry *f, struct iovec *iov, int iovcnt, void *control,
                           size_t *controllen, int *msg_flags, int flags, const char *name) {
  End *e = f->end;
  if (fault(K->io.eintr_pct, "eintr")) { errno = EINTR; return -1; }
  if (!e->can_read) { errno = EBADF; return -1; }
  size_t want = 0;
  for (int i = 0; i < iovcnt; i++) want += iov[i].iov_len;
  if (e->rx_bytes == 0) {
    if (e->reset) { e->reset = false; errno = ECONNRESET; return -1; }
    if (e->peer_gone || e->peer_shut_wr) return 0;
    if (f->nonblock || (flags & MSG_DONTWAIT)) { errno = EAGAIN; return -1; }
    if (!block_until([&] { return e->rx_bytes > 0 || e->peer_gone || e->peer_shut_wr; }, -1)) { errno = EAGAIN; return -1; }
    if (e->rx_bytes == 0) return 0;
  } else if (f->nonblock && want > 1 && fault(K->io.eagain_read_pct, "spurious_eagain_r")) {
    // (not on 1-byte reads: the credentials-byte read documents that it does not expect EAGAIN after
    // readiness, and Linux AF_UNIX sockets do not produce it)
    errno = EAGAIN; return -1;
  }
  if (control && fault(K->io.sys_err_pct, "sys_err_recv")) { errno = ENOBUFS; return -1; }
  if (want == 0) return 0;
  Seg &s = e->rx.front();
  size_t avail = s.data.size();
  // without descriptors on the following segment, a read may continue into it
  size_t limit = std::min(want, e->rx_bytes);
  if (K->sut_read_limit > 0) limit = std::min<size_t>(limit, (size_t)K->sut_read_limit);
  if (limit > 1) {
    if (fault(K->io.one_byte_read_pct, "one_byte_read")) limit = 1;
    else if (fault(K->io.short_read_pct, "short_read")) limit = 1 + K->io_rng.below(limit - 1);
  }
  (void)avail;
  // Linux: a read may run from plain segments into the next segment that carries descriptors, delivers those
  // descriptors with that segment's first byte, and stops after that segment (checked by build/simconf)
  bool took_fds = false;
  auto deliver_fds = [&](Seg &s) {
    size_t space = (control && controllen) ? *controllen : 0;
    size_t maxfds = space >= CMSG_LEN(0) ? (space - CMSG_LEN(0)) / sizeof(int) : 0;
    size_t nfds = std::min(maxfds, s.fds.size());
    bool cloexec = (flags & MSG_CMSG_CLOEXEC) != 0;
    if (nfds > 0) {
      struct cmsghdr *cm = (struct cmsghdr *)control;
      cm->cmsg_level = SOL_SOCKET;
      cm->cmsg_type = SCM_RIGHTS;
      cm->cmsg_len = CMSG_LEN(nfds * sizeof(int));
      int *dst = (int *)CMSG_DATA(cm);
      for (size_t i = 0; i < nfds; i++) {
        int nfd = __real_fcntl(s.fds[i], cloexec ? F_DUPFD_CLOEXEC : F_DUPFD, 1000);
        if (nfd < 0) { perror("simk: dup for SCM_RIGHTS"); abort(); }
        __real_close(s.fds[i]);
        dst[i] = nfd;
        Kernel::Installed in;
        in.fd = nfd; in.tag = K->next_install_tag++;
        K->installed_open[nfd] = K->installed.size();
        K->installed_closed.erase(nfd);
        K->installed.push_back(in);
      }
      *controllen = CMSG_SPACE(nfds * sizeof(int)) <= space ? CMSG_SPACE(nfds * sizeof(int)) : cm->cmsg_len;
    } else if (controllen) {
      *controllen = 0;
    }
    if (K->trace) K->trace("scm_rights", (int64_t)nfds, (int64_t)s.fds.size());
    if (nfds < s.fds.size()) {
      // surplus is discarded by the kernel, MSG_CTRUNC set (without any control buffer - a plain read - silently)
      for (size_t i = nfds; i < s.fds.size(); i++) __real_close(s.fds[i]);
      if (msg_flags && control) *msg_flags |= MSG_CTRUNC;
      if (control) K->count_fault("ctrunc");
    }
    s.fds.clear();
    took_fds = true;
  };
  (void)s;
  size_t done = 0;
  int vi = 0; size_t voff = 0;
  while (done < limit && !e->rx.empty()) {
    Seg &cur = e->rx.front();
    bool fd_segment = !cur.fds.empty();
    if (fd_segment) deliver_fds(cur);
    size_t take = std::min(limit - done, cur.data.size());
    size_t copied = 0;
    while (copied < take) {
      while (vi < iovcnt && voff == iov[vi].iov_len) { vi++; voff = 0; }
      size_t k = std::min(take - copied, iov[vi].iov_len - voff);
      memcpy((char *)iov[vi].iov_base + voff, cur.data.data() + copied, k);
      voff += k; copied += k;
    }
    cur.data.erase(0, take);
    e->rx_bytes -= take;
    done += take;
    if (cur.data.empty()) e->rx.pop_front();
    if (fd_segment) break;
  }
  if (!took_fds && controllen) *controllen = 0;
  e->bytes_in += done;
  if (e->peer) e->peer->peer_consumed += done;
  K->stats.bytes_sut_read += done;
  if (K->trace) K->trace(name, e->id, (int64_t)done);
  return (ssize_t)done;
}

static ssize_t stream_write(Kernel::FdEntry *f, const struct iovec *iov, int iovcnt, const int *fds,
                            size_t nfds, int flags, const char *name) {
  End *e = f->end;
  if (fault(K->io.eintr_pct, "eintr")) { errno = EINTR; return -1; }
  if (!e->can_write) { errno = EBADF; return -1; }
  if (!e->peer || e->peer_gone) { errno = EPIPE; return -1; }  // MSG_NOSIGNAL / SIGPIPE ignored
  End *p = e->peer;
  size_t want = 0;
  for (int i = 0; i < iovcnt; i++) want += iov[i].iov_len;
  if (want == 0) return 0;
  if (nfds > 0 && fault(K->io.sys_err_pct, "etoomanyrefs")) { errno = ETOOMANYREFS; return -1; }
  if (fault(K->io.sys_err_pct, "sys_err_send")) { errno = ENOBUFS; return -1; }
  size_t room = p->rx_bytes < p->rxcap ? p->rxcap - p->rx_bytes : 0;
  if (room == 0) {
    if (f->nonblock || (flags & MSG_DONTWAIT)) { K->count_fault("eagain_w"); errno = EAGAIN; return -1; }
    if (!block_until([&] { return !e->peer || e->peer->rx_bytes < e->peer->rxcap; }, -1)) { errno = EAGAIN; return -1; }
    if (!e->peer) { errno = EPIPE; return -1; }
    room = p->rxcap - p->rx_bytes;
  } else if (f->nonblock && fault(K->io.eagain_write_pct, "spurious_eagain_w")) {
    errno = EAGAIN; return -1;
  }
  size_t n = std::min(want, room);
  if (n < want) K->count_fault("short_write_cap");
  if (n > 1) {
    if (fault(K->io.one_byte_write_pct, "one_byte_write")) n = 1;
    else if (fault(K->io.short_write_pct, "short_write")) n = 1 + K->io_rng.below(n - 1);
  }
  Seg s;
  s.data.reserve(n);
  size_t left = n;
  for (int i = 0; i < iovcnt && left; i++) {
    size_t k = std::min(left, iov[i].iov_len);
    s.data.append((const char *)iov[i].iov_base, k);
    left -= k;
  }
  for (size_t i = 0; i < nfds; i++) {
    int d = __real_fcntl(fds[i], F_DUPFD_CLOEXEC, 1000);
    if (d < 0) { errno = EBADF; return -1; }
    s.fds.push_back(d);
  }
  p->rx_bytes += n;
  K->change_gen++;
  if (!p->rx.empty() && s.fds.empty() && p->rx.back().fds.empty()) p->rx.back().data += s.data;
  else p->rx.push_back(std::move(s));
  e->bytes_out += n;
  K->stats.bytes_sut_written += n;
  if (K->trace) K->trace(name, e->id, (int64_t)n);
  return (ssize_t)n;
}

extern "C" {

// ------------------------------------------------------------ descriptors

int __wrap_close(int fd) {
  Kernel::FdEntry *f = lookup(fd);
  if (!f) {
    if (K) {
      auto it = K->installed_open.find(fd);
      if (it != K->installed_open.end()) {
        K->installed[it->second].closes++;
        K->installed[it->second].open = false;
        K->installed_open.erase(it);
        K->installed_closed.insert(fd);
      } else if (K->installed_closed.count(fd)) {
        K->passed_fd_double_closes++;
        if (K->trace) K->trace("double-close", fd, 0);
      }
    }
    return __real_close(fd);
  }
  COUNT("close");
  if (f->kind == Kernel::FdEntry::STREAM) K->unref_end(f->end);
  else if (f->kind == Kernel::FdEntry::LISTENER) {
    f->lis->open = false;
    for (End *e : f->lis->backlog) K->unref_end(e);
    f->lis->backlog.clear();
  }
  K->fdt.erase(fd);
  return __real_close(fd);
}

int __wrap_dup(int fd) {
  Kernel::FdEntry *f = lookup(fd);
  if (!f) {
    int nfd = __real_dup(fd);
    return nfd;
  }
  COUNT("dup");
  int nfd = K->alloc_fd();
  Kernel::FdEntry g = *f;
  if (g.kind == Kernel::FdEntry::STREAM) g.end->refs++;
  K->fdt[nfd] = g;
  return nfd;
}

int __wrap_dup2(int a, int b) {
  if (lookup(a) || lookup(b)) { errno = EINVAL; return -1; }
  return __real_dup2(a, b);
}

int __wrap_fcntl(int fd, int cmd, ...) {
  va_list ap;
  va_start(ap, cmd);
  long arg = va_arg(ap, long);
  va_end(ap);
  Kernel::FdEntry *f = lookup(fd);
  if (f) {
    if (cmd == F_SETFL) f->nonblock = (arg & O_NONBLOCK) != 0;
    if (cmd == F_GETFL) return O_RDWR | (f->nonblock ? O_NONBLOCK : 0);
    if (cmd == F_DUPFD || cmd == F_DUPFD_CLOEXEC) {
      int nfd = K->alloc_fd();
      Kernel::FdEntry g = *f;
      if (g.kind == Kernel::FdEntry::STREAM) g.end->refs++;
      K->fdt[nfd] = g;
      return nfd;
    }
    if (cmd == F_SETFL) return 0;
    return __real_fcntl(fd, cmd, arg);  // F_GETFD / F_SETFD on the backing eventfd
  }
  if (K && (cmd == F_DUPFD || cmd == F_DUPFD_CLOEXEC)) {
    // dup of an installed (passed) descriptor: SUT now owns one more number; track it too
    int nfd = __real_fcntl(fd, cmd, arg < 1000 ? 1000 : arg);
    if (nfd >= 0) K->installed_closed.erase(nfd);
    if (nfd >= 0 && K->installed_open.count(fd)) {
      Kernel::Installed in;
      in.fd = nfd; in.tag = K->next_install_tag++;
      K->installed_open[nfd] = K->installed.size();
      K->installed.push_back(in);
    }
    return nfd;
  }
  return __real_fcntl(fd, cmd, arg);
}

// ------------------------------------------------------------ sockets

int __wrap_socket(int domain, int type, int protocol) {
  if (!K || domain != AF_UNIX) { errno = EAFNOSUPPORT; return -1; }  // no real network in simulation
  COUNT("socket");
  (void)protocol;
  int fd = K->alloc_fd();
  Kernel::FdEntry f;
  f.kind = Kernel::FdEntry::UNBOUND;
  f.nonblock = (type & SOCK_NONBLOCK) != 0;
  K->fdt[fd] = f;
  return fd;
}

int __wrap_socketpair(int domain, int type, int protocol, int sv[2]) {
  if (!K) return __real_socketpair(domain, type, protocol, sv);
  COUNT("socketpair");
  End *a, *b;
  K->make_pair(&a, &b);
  a->peer_creds = K->self;
  b->peer_creds = K->self;
  sv[0] = K->install_stream_fd(a);
  sv[1] = K->install_stream_fd(b);
  if (type & SOCK_NONBLOCK) { K->fdt[sv[0]].nonblock = K->fdt[sv[1]].nonblock = true; }
  return 0;
}

static std::string sun_name(const struct sockaddr *addr, socklen_t len) {
  const struct sockaddr_un *un = (const struct sockaddr_un *)addr;
  size_t plen = len - offsetof(struct sockaddr_un, sun_path);
  if (plen > 0 && un->sun_path[0] == '\0') return "@" + std::string(un->sun_path + 1, plen - 1);
  return std::string(un->sun_path, strnlen(un->sun_path, plen));
}

int __wrap_bind(int fd, const struct sockaddr *addr, socklen_t len) {
  Kernel::FdEntry *f = lookup(fd);
  if (!f) return __real_bind(fd, addr, len);
  COUNT("bind");
  if (f->kind != Kernel::FdEntry::UNBOUND || addr->sa_family != AF_UNIX) { errno = EINVAL; return -1; }
  std::string name = sun_name(addr, len);
  if (K->find_listener(name)) { errno = EADDRINUSE; return -1; }
  Listener *l = new Listener();
  l->name = name;
  K->all_listeners.push_back(l);
  f->kind = Kernel::FdEntry::LISTENER;
  f->lis = l;
  return 0;
}

int __wrap_listen(int fd, int backlog) {
  Kernel::FdEntry *f = lookup(fd);
  if (!f) return __real_listen(fd, backlog);
  COUNT("listen");
  return f->kind == Kernel::FdEntry::LISTENER ? 0 : (errno = EINVAL, -1);
}

int __wrap_accept4(int fd, struct sockaddr *addr, socklen_t *alen, int flags) {
  Kernel::FdEntry *f = lookup(fd);
  if (!f) return __real_accept4(fd, addr, alen, flags);
  COUNT("accept4");
  if (f->kind != Kernel::FdEntry::LISTENER) { errno = EINVAL; return -1; }
  if (fault(K->io.eintr_pct, "eintr")) { errno = EINTR; return -1; }
  if (f->lis->backlog.empty() || fault(K->io.accept_eagain_pct, "accept_eagain")) { errno = EAGAIN; return -1; }
  End *e = f->lis->backlog.front();
  f->lis->backlog.pop_front();
  int nfd = K->install_stream_fd(e);
  if (flags & SOCK_NONBLOCK) K->fdt[nfd].nonblock = true;
  if (addr && alen && *alen >= sizeof(sa_family_t)) {
    addr->sa_family = AF_UNIX;
    *alen = sizeof(sa_family_t);
  }
  if (K->trace) K->trace("accept", e->id, 0);
  return nfd;
}

int __wrap_accept(int fd, struct sockaddr *addr, socklen_t *alen) { return __wrap_accept4(fd, addr, alen, 0); }

int __wrap_connect(int fd, const struct sockaddr *addr, socklen_t len) {
  Kernel::FdEntry *f = lookup(fd);
  if (!f) { errno = ECONNREFUSED; return -1; }
  COUNT("connect");
  if (f->kind != Kernel::FdEntry::UNBOUND || addr->sa_family != AF_UNIX) { errno = EINVAL; return -1; }
  std::string name = sun_name(addr, len);
  Listener *l = K->find_listener(name);
  if (!l) { errno = ECONNREFUSED; return -1; }
  End *mine, *theirs;
  K->make_pair(&mine, &theirs);
  mine->peer_creds = K->self;   // overwritten by the scripted side if it wants
  theirs->peer_creds = K->self;
  f->kind = Kernel::FdEntry::STREAM;
  f->end = mine;
  if (l->scripted) l->accepted_by_actor.push_back(theirs);
  else l->backlog.push_back(theirs);
  return 0;
}

int __wrap_getsockname(int fd, struct sockaddr *addr, socklen_t *alen) {
  Kernel::FdEntry *f = lookup(fd);
  if (!f) return __real_getsockname(fd, addr, alen);
  struct sockaddr_un un;
  memset(&un, 0, sizeof un);
  un.sun_family = AF_UNIX;
  socklen_t n = std::min<socklen_t>(*alen, sizeof(sa_family_t));
  memcpy(addr, &un, n);
  *alen = sizeof(sa_family_t);
  return 0;
}

int __wrap_getpeername(int fd, struct sockaddr *addr, socklen_t *alen) {
  return __wrap_getsockname(fd, addr, alen);
}

int __wrap_getsockopt(int fd, int level, int opt, void *val, socklen_t *len) {
  Kernel::FdEntry *f = lookup(fd);
  if (!f) return __real_getsockopt(fd, level, opt, val, len);
  COUNT("getsockopt");
  if (level != SOL_SOCKET) { errno = ENOPROTOOPT; return -1; }
  if (f->kind != Kernel::FdEntry::STREAM) { errno = EINVAL; return -1; }
  const Creds &c = f->end->peer_creds;
  if (opt == SO_PEERCRED) {
    if (!c.have) { errno = ENOPROTOOPT; return -1; }
    struct ucred cr;
    cr.pid = c.pid; cr.uid = c.uid; cr.gid = c.gid;
    if (*len < sizeof cr) { errno = EINVAL; return -1; }
    memcpy(val, &cr, sizeof cr);
    *len = sizeof cr;
    return 0;
  }
  if (opt == SO_PEERGROUPS) {
    if (!c.have || !c.have_groups) { errno = ENOPROTOOPT; return -1; }
    socklen_t need = c.groups.size() * sizeof(gid_t);
    if (*len < need) { *len = need; errno = ERANGE; return -1; }
    gid_t *g = (gid_t *)val;
    for (size_t i = 0; i < c.groups.size(); i++) g[i] = c.groups[i];
    *len = need;
    return 0;
  }
  if (opt == SO_ERROR) {
    if (*len >= sizeof(int)) { *(int *)val = 0; *len = sizeof(int); }
    return 0;
  }
  errno = ENOPROTOOPT;  // SO_PEERSEC and friends
  return -1;
}

int __wrap_setsockopt(int fd, int level, int opt, const void *val, socklen_t len) {
  Kernel::FdEntry *f = lookup(fd);
  if (!f) return __real_setsockopt(fd, level, opt, val, len);
  return 0;
}

int __wrap_shutdown(int fd, int how) {
  if (K) K->change_gen++;
  Kernel::FdEntry *f = lookup(fd);
  if (!f) return __real_shutdown(fd, how);
  COUNT("shutdown");
  if (f->kind != Kernel::FdEntry::STREAM) { errno = ENOTCONN; return -1; }
  if ((how == SHUT_WR || how == SHUT_RDWR) && f->end->peer) f->end->peer->peer_shut_wr = true;
  return 0;
}

// ------------------------------------------------------------ data transfer

ssize_t __wrap_read(int fd, void *buf, size_t n) {
  Kernel::FdEntry *f = lookup(fd);
  if (!f) return __real_read(fd, buf, n);
  COUNT("read");
  if (f->kind != Kernel::FdEntry::STREAM) { errno = EINVAL; return -1; }
  struct iovec iov = {buf, n};
  return stream_read(f, &iov, 1, nullptr, nullptr, nullptr, 0, "read");
}

ssize_t __wrap_recv(int fd, void *buf, size_t n, int flags) {
  Kernel::FdEntry *f = lookup(fd);
  if (!f) return __real_recv(fd, buf, n, flags);
  COUNT("recv");
  if (f->kind != Kernel::FdEntry::STREAM) { errno = ENOTCONN; return -1; }
  struct iovec iov = {buf, n};
  return stream_read(f, &iov, 1, nullptr, nullptr, nullptr, flags, "recv");
}

ssize_t __wrap_recvmsg(int fd, struct msghdr *m, int flags) {
  Kernel::FdEntry *f = lookup(fd);
  if (!f) return __real_recvmsg(fd, m, flags);
  COUNT("recvmsg");
  if (f->kind != Kernel::FdEntry::STREAM) { errno = ENOTCONN; return -1; }
  size_t clen = m->msg_controllen;
  m->msg_flags = 0;
  ssize_t r = stream_read(f, m->msg_iov, (int)m->msg_iovlen, m->msg_control, &clen, &m->msg_flags, flags, "recvmsg");
  if (r >= 0) m->msg_controllen = clen;
  return r;
}

ssize_t __wrap_write(int fd, const void *buf, size_t n) {
  Kernel::FdEntry *f = lookup(fd);
  if (!f) return __real_write(fd, buf, n);
  COUNT("write");
  if (f->kind != Kernel::FdEntry::STREAM) { errno = EINVAL; return -1; }
  struct iovec iov = {(void *)buf, n};
  return stream_write(f, &iov, 1, nullptr, 0, 0, "write");
}

ssize_t __wrap_writev(int fd, const struct iovec *iov, int cnt) {
  Kernel::FdEntry *f = lookup(fd);
  if (!f) return __real_writev(fd, iov, cnt);
  COUNT("writev");
  if (f->kind != Kernel::FdEntry::STREAM) { errno = EINVAL; return -1; }
  return stream_write(f, iov, cnt, nullptr, 0, 0, "writev");
}

ssize_t __wrap_send(int fd, const void *buf, size_t n, int flags) {
  Kernel::FdEntry *f = lookup(fd);
  if (!f) return __real_send(fd, buf, n, flags);
  COUNT("send");
  if (f->kind != Kernel::FdEntry::STREAM) { errno = ENOTCONN; return -1; }
  struct iovec iov = {(void *)buf, n};
  return stream_write(f, &iov, 1, nullptr, 0, flags, "send");
}

ssize_t __wrap_sendmsg(int fd, const struct msghdr *m, int flags) {
  Kernel::FdEntry *f = lookup(fd);
  if (!f) return __real_sendmsg(fd, m, flags);
  COUNT("sendmsg");
  if (f->kind != Kernel::FdEntry::STREAM) { errno = ENOTCONN; return -1; }
  const int *fds = nullptr;
  size_t nfds = 0;
  if (m->msg_control && m->msg_controllen >= sizeof(struct cmsghdr)) {
    for (struct cmsghdr *cm = CMSG_FIRSTHDR((struct msghdr *)m); cm; cm = CMSG_NXTHDR((struct msghdr *)m, cm))
      if (cm->cmsg_level == SOL_SOCKET && cm->cmsg_type == SCM_RIGHTS) {
        fds = (const int *)CMSG_DATA(cm);
        nfds = (cm->cmsg_len - CMSG_LEN(0)) / sizeof(int);
      }
  }
  return stream_write(f, m->msg_iov, (int)m->msg_iovlen, fds, nfds, flags, "sendmsg");
}

int __wrap_pipe2(int p[2], int flags) {
  if (!K) return __real_pipe2(p, flags);
  COUNT("pipe");
  End *r, *w;
  K->make_pair(&r, &w);
  r->is_pipe = w->is_pipe = true;
  r->can_write = false;
  w->can_read = false;
  r->unix_socket = w->unix_socket = false;
  p[0] = K->install_stream_fd(r);
  p[1] = K->install_stream_fd(w);
  if (flags & O_NONBLOCK) K->fdt[p[0]].nonblock = K->fdt[p[1]].nonblock = true;
  return 0;
}
int __wrap_pipe(int p[2]) { return __wrap_pipe2(p, 0); }

// ------------------------------------------------------------ readiness

int __wrap_poll(struct pollfd *fds, nfds_t n, int timeout) {
  if (!K) return __real_poll(fds, n, timeout);
  bool any_sim = false;
  for (nfds_t i = 0; i < n; i++) if (fds[i].fd >= 0 && lookup(fds[i].fd)) any_sim = true;
  if (!any_sim && n > 0) return __real_poll(fds, n, timeout);
  COUNT("poll");
  if (fault(K->io.eintr_pct, "eintr")) { errno = EINTR; return -1; }
  auto scan = [&]() -> int {
    int ready = 0;
    for (nfds_t i = 0; i < n; i++) {
      fds[i].revents = 0;
      if (fds[i].fd < 0) continue;
      Kernel::FdEntry *f = lookup(fds[i].fd);
      if (!f) {  // a real descriptor mixed in: ask the real kernel, non-blocking
        struct pollfd one = fds[i];
        if (__real_poll(&one, 1, 0) > 0) fds[i].revents = one.revents;
      } else {
        bool pipe_eof = f->kind == Kernel::FdEntry::STREAM && f->end->is_pipe && f->end->rx_bytes == 0;   // Linux: a drained pipe whose writer is gone reports HUP only
        if ((fds[i].events & POLLIN) && K->readable(*f) && !pipe_eof) fds[i].revents |= POLLIN;
        if ((fds[i].events & POLLOUT) && K->writable(*f)) fds[i].revents |= POLLOUT;
        if (K->hup(*f)) fds[i].revents |= POLLHUP;
        if (f->kind == Kernel::FdEntry::STREAM && f->end->reset) fds[i].revents |= POLLERR;   // the peer closed without reading what we sent
      }
      if (fds[i].revents) ready++;
    }
    return ready;
  };
  int ready = scan();
  if (ready == 0 && timeout != 0) {
    int64_t deadline = timeout < 0 ? -1 : K->now_us + (int64_t)timeout * 1000;
    block_until([&] { return scan() > 0; }, deadline);
    ready = scan();
  }
  // legal: report only a subset of what is ready (level-triggered, the rest shows up next time)
  if (ready > 1 && fault(K->io.poll_subset_pct, "poll_subset")) {
    int keep = (int)K->io_rng.below((uint64_t)ready);
    int seen = 0;
    for (nfds_t i = 0; i < n; i++) {
      if (!fds[i].revents) continue;
      if (seen++ != keep && K->io_rng.pct(50)) { fds[i].revents = 0; ready--; }
    }
  }
  return ready;
}

int __wrap_epoll_create1(int flags) { (void)flags; errno = ENOSYS; return -1; }
int __wrap_epoll_create(int size) { (void)size; errno = ENOSYS; return -1; }
int __wrap_inotify_init1(int flags) { (void)flags; errno = ENOSYS; return -1; }
int __wrap_inotify_init(void) { errno = ENOSYS; return -1; }

// ------------------------------------------------------------ time, randomness

int __wrap_clock_gettime(clockid_t id, struct timespec *ts) {
  (void)id;
  int64_t t = K ? K->now_us : 0;
  ts->tv_sec = t / 1000000;
  ts->tv_nsec = (t % 1000000) * 1000;
  return 0;
}
int __wrap_gettimeofday(struct timeval *tv, void *tz) {
  (void)tz;
  int64_t t = K ? K->now_us : 0;
  tv->tv_sec = t / 1000000;
  tv->tv_usec = t % 1000000;
  return 0;
}
time_t __wrap_time(time_t *out) {
  time_t t = (time_t)((K ? K->now_us : 0) / 1000000);
  if (out) *out = t;
  return t;
}
int __wrap_nanosleep(const struct timespec *req, struct timespec *rem) {
  if (K) K->now_us += (int64_t)req->tv_sec * 1000000 + req->tv_nsec / 1000;
  if (rem) { rem->tv_sec = 0; rem->tv_nsec = 0; }
  return 0;
}
int __wrap_usleep(useconds_t us) { if (K) K->now_us += us; return 0; }

ssize_t __wrap_getrandom(void *buf, size_t n, unsigned flags) {
  (void)flags;
  K->fill_random(buf, n);
  return (ssize_t)n;
}

// ------------------------------------------------------------ identity, NSS

uid_t __wrap_getuid(void) { return K ? K->self.uid : 0; }
uid_t __wrap_geteuid(void) { return K ? K->self.uid : 0; }
gid_t __wrap_getgid(void) { return K ? K->self.gid : 0; }
gid_t __wrap_getegid(void) { return K ? K->self.gid : 0; }
pid_t __wrap_getpid(void) { return K ? K->self.pid : 1; }

static int fill_passwd(const User &u, struct passwd *pw, char *buf, size_t buflen, struct passwd **res) {
  size_t need = u.name.size() + 1 + u.home.size() + 1 + 2 + 8;
  if (buflen < need) { *res = nullptr; return ERANGE; }
  char *p = buf;
  pw->pw_name = p; strcpy(p, u.name.c_str()); p += u.name.size() + 1;
  pw->pw_dir = p; strcpy(p, u.home.c_str()); p += u.home.size() + 1;
  pw->pw_passwd = p; strcpy(p, "x"); p += 2;
  pw->pw_gecos = p - 1;  // ""
  pw->pw_shell = p; strcpy(p, "/bin/sh");
  pw->pw_uid = u.uid;
  pw->pw_gid = u.gid;
  *res = pw;
  return 0;
}

int __wrap_getpwnam_r(const char *name, struct passwd *pw, char *buf, size_t buflen, struct passwd **res) {
  for (auto &u : K->users) if (u.name == name) return fill_passwd(u, pw, buf, buflen, res);
  *res = nullptr;
  return 0;
}
int __wrap_getpwuid_r(uid_t uid, struct passwd *pw, char *buf, size_t buflen, struct passwd **res) {
  for (auto &u : K->users) if (u.uid == uid) return fill_passwd(u, pw, buf, buflen, res);
  *res = nullptr;
  return 0;
}
static struct passwd g_pw;
static char g_pwbuf[1024];
struct passwd *__wrap_getpwnam(const char *name) {
  struct passwd *r = nullptr;
  __wrap_getpwnam_r(name, &g_pw, g_pwbuf, sizeof g_pwbuf, &r);
  return r;
}
struct passwd *__wrap_getpwuid(uid_t uid) {
  struct passwd *r = nullptr;
  __wrap_getpwuid_r(uid, &g_pw, g_pwbuf, sizeof g_pwbuf, &r);
  return r;
}

static int fill_group(const Group &g, struct group *gr, char *buf, size_t buflen, struct group **res) {
  size_t need = g.name.size() + 1 + 2 + sizeof(char *) * (g.members.size() + 1) + 16;
  for (auto &m : g.members) need += m.size() + 1;
  if (buflen < need) { *res = nullptr; return ERANGE; }
  char *p = buf;
  gr->gr_name = p; strcpy(p, g.name.c_str()); p += g.name.size() + 1;
  gr->gr_passwd = p; strcpy(p, "x"); p += 2;
  p = (char *)(((uintptr_t)p + 7) & ~(uintptr_t)7);
  char **mem = (char **)p;
  p += sizeof(char *) * (g.members.size() + 1);
  for (size_t i = 0; i < g.members.size(); i++) {
    mem[i] = p; strcpy(p, g.members[i].c_str()); p += g.members[i].size() + 1;
  }
  mem[g.members.size()] = nullptr;
  gr->gr_mem = mem;
  gr->gr_gid = g.gid;
  *res = gr;
  return 0;
}
int __wrap_getgrnam_r(const char *name, struct group *gr, char *buf, size_t buflen, struct group **res) {
  for (auto &g : K->groups) if (g.name == name) return fill_group(g, gr, buf, buflen, res);
  *res = nullptr;
  return 0;
}
int __wrap_getgrgid_r(gid_t gid, struct group *gr, char *buf, size_t buflen, struct group **res) {
  for (auto &g : K->groups) if (g.gid == gid) return fill_group(g, gr, buf, buflen, res);
  *res = nullptr;
  return 0;
}
static struct group g_gr;
static char g_grbuf[4096];
struct group *__wrap_getgrnam(const char *name) {
  struct group *r = nullptr;
  __wrap_getgrnam_r(name, &g_gr, g_grbuf, sizeof g_grbuf, &r);
  return r;
}
int __wrap_getgrouplist(const char *user, gid_t primary, gid_t *out, int *n) {
  std::vector<gid_t> v;
  v.push_back(primary);
  for (auto &g : K->groups)
    for (auto &m : g.members)
      if (m == user && g.gid != primary) v.push_back(g.gid);
  if ((int)v.size() > *n) { *n = (int)v.size(); return -1; }
  for (size_t i = 0; i < v.size(); i++) out[i] = v[i];
  *n = (int)v.size();
  return (int)v.size();
}

// ------------------------------------------------------------ processes, limits

pid_t __wrap_fork(void) {
  COUNT("fork");
  if (K->fork_fails) { K->count_fault("fork_fail"); errno = EAGAIN; return -1; }
  Process *p = new Process();
  p->pid = K->next_pid++;
  // the child inherits every descriptor; what matters later are the ends of
  // SUT-internal pairs (both ends held by the SUT now): the parent will close
  // "the child's" ends, and the Process actor keeps them alive.
  for (auto &kv : K->fdt) {
    if (kv.second.kind != Kernel::FdEntry::STREAM) continue;
    End *e = kv.second.end;
    if (!e->peer) continue;
    bool peer_in_sut = false;
    for (auto &kv2 : K->fdt)
      if (kv2.second.kind == Kernel::FdEntry::STREAM && kv2.second.end == e->peer) peer_in_sut = true;
    if (peer_in_sut) { e->refs++; p->held.push_back(e); }
  }
  p->argv = K->next_spawn_argv;
  K->next_spawn_argv.clear();
  p->env = K->next_spawn_env;
  K->next_spawn_env.clear();
  K->procs.push_back(p);
  if (K->trace) K->trace("fork", p->pid, 0);
  return p->pid;
}

void Kernel::proc_settle(Process *p) {
  if (p->settled) return;
  p->settled = true;
  for (End *e : p->held) {
    bool parent_has_it = false;
    for (auto &kv : fdt) if (kv.second.kind == FdEntry::STREAM && kv.second.end == e) parent_has_it = true;
    if (parent_has_it) unref_end(e);            // a copy of one of the parent's own descriptors: the child closes it
    else if (e->is_pipe) { if (!p->errpipe) p->errpipe = e; else unref_end(e); }
    else { if (!p->sock) p->sock = e; else unref_end(e); }
  }
  p->held.clear();
}
static std::string two_ints(int a, int b) { std::string s((const char *)&a, sizeof a); s.append((const char *)&b, sizeof b); return s; }
void Kernel::proc_exec_ok(Process *p) {
  proc_settle(p);
  if (p->exited) return;
  if (p->errpipe) { unref_end(p->errpipe); p->errpipe = nullptr; }
  if (p->sock && !p->reported) actor_write(p->sock, two_ints(3 /* CHILD_PID */, p->pid + 100000));
  p->reported = true;
}
void Kernel::proc_exit(Process *p, int wait_status) {
  proc_settle(p);
  if (p->exited) return;
  if (p->errpipe) { unref_end(p->errpipe); p->errpipe = nullptr; }
  if (p->sock && !p->reported) { actor_write(p->sock, two_ints(3, p->pid + 100000)); p->reported = true; }
  if (p->sock) { actor_write(p->sock, two_ints(0 /* CHILD_EXITED */, wait_status)); unref_end(p->sock); p->sock = nullptr; }
  p->exited = true;
  p->status = 0;
}
void Kernel::proc_exec_failed(Process *p, int err) {
  proc_settle(p);
  if (p->exited) return;
  if (p->errpipe) { actor_write(p->errpipe, two_ints(2 /* CHILD_EXEC_FAILED */, err)); unref_end(p->errpipe); p->errpipe = nullptr; }
  if (p->sock) { if (!p->reported) actor_write(p->sock, two_ints(3, p->pid + 100000)); p->reported = true; actor_write(p->sock, two_ints(0, 1 << 8)); unref_end(p->sock); p->sock = nullptr; }
  p->exited = true;
  p->status = 0;
}
void Kernel::proc_die(Process *p) {
  proc_settle(p);
  if (p->errpipe) { unref_end(p->errpipe); p->errpipe = nullptr; }
  if (p->sock) { unref_end(p->sock); p->sock = nullptr; }
  p->exited = true;
  p->status = 9;
}

pid_t __wrap_waitpid(pid_t pid, int *status, int options) {
  COUNT("waitpid");
  for (Process *p : K->procs) {
    if ((pid > 0 && p->pid != pid) || p->reaped) continue;
    if (!p->exited) {
      if (options & WNOHANG) { if (pid > 0) return 0; else continue; }
      if (!block_until([&] { return p->exited; }, -1)) { errno = ECHILD; return -1; }
    }
    p->reaped = true;
    if (status) *status = p->status;
    return p->pid;
  }
  if (pid <= 0 && (options & WNOHANG)) {
    for (Process *p : K->procs) if (!p->reaped) return 0;
  }
  errno = ECHILD;
  return -1;
}

int __wrap_kill(pid_t pid, int sig) {
  COUNT("kill");
  Process *p = K->proc_by_pid(pid >= 100000 ? pid - 100000 : pid);   // the grandchild's pid stands for the same scripted process
  if (!p) {
    if (pid == K->self.pid) return 0;   // SIGHUP to ourselves from dir-watch: ignored
    errno = ESRCH; return -1;
  }
  if (sig != 0) { p->killed = true; p->kill_sig = sig; }
  if (sig == SIGKILL || sig == SIGTERM) K->proc_die(p);
  if (K->trace) K->trace("kill", pid, sig);
  return 0;
}

int __wrap_setrlimit(int res, const struct rlimit *rl) { (void)res; (void)rl; return 0; }
int __wrap_prlimit(pid_t pid, int res, const struct rlimit *n, struct rlimit *o) {
  (void)pid; (void)res; (void)n;
  if (o) { o->rlim_cur = 65536; o->rlim_max = 65536; }
  return 0;
}

// ------------------------------------------------------------ libsystemd

int __wrap_sd_uid_get_seats(uid_t uid, int require_active, char ***seats) {
  (void)require_active;
  if (seats) *seats = nullptr;
  for (auto &u : K->users) if (u.uid == uid && u.at_console) return 1;
  return 0;
}
int __wrap_sd_journal_stream_fd(const char *id, int prio, int level_prefix) {
  (void)id; (void)prio; (void)level_prefix;
  return -ENOENT;
}
int __wrap_sd_notify(int unset, const char *state) { (void)unset; (void)state; return 0; }
int __wrap_sd_listen_fds(int unset) { (void)unset; return 0; }

}  // extern "C"

// ------------------------------------------------------------ spawn (link-time seam, simbus only): remember what would be exec'ed
extern "C" {
struct DBusBabysitter;
struct DBusError;
typedef void (*SimSpawnChildSetupFunc)(void *);
unsigned __real__dbus_spawn_async_with_babysitter(DBusBabysitter **, const char *, char *const *, char *const *, unsigned, SimSpawnChildSetupFunc, void *, DBusError *);
unsigned __wrap__dbus_spawn_async_with_babysitter(DBusBabysitter **sitter_p, const char *log_name, char *const *argv, char *const *env, unsigned flags, SimSpawnChildSetupFunc setup,
                                                  void *user_data, DBusError *error) {
  if (K) {
    K->next_spawn_argv.clear();
    for (int i = 0; argv && argv[i]; i++) K->next_spawn_argv.push_back(argv[i]);
    K->next_spawn_env.clear();
    for (int i = 0; env && env[i]; i++) K->next_spawn_env.push_back(env[i]);
  }
  return __real__dbus_spawn_async_with_babysitter(sitter_p, log_name, argv, env, flags, setup, user_data, error);
}
}
