// sim/model/policy.h — reference evaluator for the bus security policy, written
// from doc/dbus-daemon.1.xml.in (<policy>, <allow>, <deny>).  Independent of
// bus/policy.c.  Also renders a policy to configuration XML so that the same
// object configures the real daemon and the model.
#pragma once
#include <string>
#include <vector>

#include "codec/wire.h"

namespace pol {

struct Opt {                      // optional string attribute; "*" is represented as absent
  bool set = false;
  std::string v;
  Opt() {}
  Opt(const std::string &s) : set(true), v(s) {}
};

struct Rule {
  bool allow = true;
  enum Kind { SEND, RECEIVE, OWN, USER, GROUP } kind = SEND;
  // SEND / RECEIVE attributes (send_* or receive_* according to kind)
  Opt type;                       // "method_call" | "method_return" | "signal" | "error"
  Opt path, interface, member, error;
  Opt peer;                       // send_destination / receive_sender
  Opt peer_prefix;                // send_destination_prefix (SEND only)
  int broadcast = -1;             // send_broadcast: -1 absent, 0 false, 1 true (SEND only)
  int requested_reply = -1;       // -1 absent
  int eavesdrop = -1;             // -1 absent
  long min_fds = -1, max_fds = -1;
  bool star_peer = false;         // send_destination="*" / receive_sender="*" given explicitly (matches any message)
  // OWN
  std::string own;                // name, or "*" ; own_prefix when own_is_prefix
  bool own_is_prefix = false;
  // USER / GROUP (connect rules)
  std::string who;                // name or "*"
  std::string xml() const;
};

struct Block {
  enum Ctx { DEFAULT, GROUP, USER, AT_CONSOLE_TRUE, AT_CONSOLE_FALSE, MANDATORY } ctx = DEFAULT;
  std::string who;                // user / group name (or numeric id text)
  std::vector<Rule> rules;
};

struct Policy {
  std::vector<Block> blocks;      // file order
  std::string xml() const;
};

struct Who {                      // a connection, as far as policy is concerned
  unsigned uid = 0;
  std::string user;               // user name ("" if unknown)
  std::vector<unsigned> gids;
  std::vector<std::string> groups;  // names of those groups, same order ("" if unknown)
  bool at_console = false;
};

// Rules that apply to `w`, in the documented order of application.
std::vector<const Rule *> effective_rules(const Policy &p, const Who &w);

struct MsgFacts {
  const wire::Msg *m = nullptr;
  unsigned nfds = 0;
  bool requested_reply = false;   // for replies: an open slot exists
  bool eavesdropping = false;     // proposed recipient is not the addressed one and the message has a destination
  // names the *other party* holds (primary or queued) plus its unique name; for the bus: {"org.freedesktop.DBus"}
  std::vector<std::string> peer_names;
  bool peer_exists = true;        // false: no such party (e.g. destination not on the bus)
};

struct Opts {
  // listed known finding: the eavesdrop attribute of send_* rules is not evaluated by the reference bus
  bool send_eavesdrop_ignored = false;
  uint64_t *hits = nullptr;        // incremented when that changes a decision
};

// sender side: may the holder of `rules` send the message to the party described by f.peer_*?
bool may_send(const std::vector<const Rule *> &rules, const MsgFacts &f, const Opts &o = Opts());
// receiver side: may the holder of `rules` receive the message from the party described by f.peer_*?
bool may_receive(const std::vector<const Rule *> &rules, const MsgFacts &f);
bool may_own(const std::vector<const Rule *> &rules, const std::string &name);
// connect rules: default = same uid as the bus
bool may_connect(const Policy &p, const Who &w, unsigned bus_uid);

// compact one-line-per-rule text form used inside plan files
std::string encode(const Policy &p);
bool decode(const std::string &text, Policy *out);

}  // namespace pol
