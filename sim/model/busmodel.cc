// sim/model/busmodel.cc — see busmodel.h.  Written from the specification,
// not from bus/*.c.
#include "model/busmodel.h"

#include <algorithm>

namespace bm {

const char *BUS = "org.freedesktop.DBus";
static const char *BUS_PATH = "/org/freedesktop/DBus";

std::string U(int i) { return std::string("\x01") + std::to_string(i); }
static bool is_sym(const std::string &s) { return !s.empty() && s[0] == '\x01'; }
static int sym_idx(const std::string &s) { return atoi(s.c_str() + 1); }

std::string Model::resolve(const std::string &s) const {
  if (!is_sym(s)) return s;
  int i = sym_idx(s);
  if (i >= 0 && (size_t)i < uniq.size() && !uniq[(size_t)i].empty()) return uniq[(size_t)i];
  return s;
}

void Model::connect(int c, unsigned uid, unsigned pid, const std::vector<unsigned> &gids, bool fdpass) {
  if ((size_t)c >= conns.size()) { conns.resize((size_t)c + 1); uniq.resize((size_t)c + 1); exp.resize((size_t)c + 1); floating.resize((size_t)c + 1); }
  Conn &k = conns[(size_t)c];
  k = Conn();
  k.exists = true; k.alive = true;
  k.uid = uid; k.pid = pid; k.gids = gids; k.fdpass = fdpass;
}

int Model::conn_by_unique(const std::string &name) const {
  if (is_sym(name)) {
    int i = sym_idx(name);
    return (i >= 0 && (size_t)i < conns.size()) ? i : -1;
  }
  for (size_t i = 0; i < uniq.size(); i++)
    if (!uniq[i].empty() && uniq[i] == name) return (int)i;
  return -1;
}

bool Model::is_unique_of(const std::string &name, int c) const { return conn_by_unique(name) == c; }

int Model::owner_of(const std::string &name) const {
  if (name.empty()) return -1;
  if (is_sym(name) || name[0] == ':') {
    int c = conn_by_unique(name);
    if (c >= 0 && conns[(size_t)c].alive && conns[(size_t)c].hello) return c;
    return -1;
  }
  auto it = names.find(name);
  if (it == names.end() || it->second.empty()) return -1;
  return it->second.front().c;
}

std::vector<std::string> Model::all_names_symbolic() const {
  std::vector<std::string> v;
  v.push_back(BUS);
  for (size_t i = 0; i < conns.size(); i++)
    if (conns[i].alive && conns[i].hello) v.push_back(U((int)i));
  for (auto &kv : names)
    if (!kv.second.empty()) v.push_back(kv.first);
  return v;
}

uint64_t Model::state_signature() const {
  uint64_t h = 1469598103934665603ull;
  auto mixs = [&](const std::string &s) { for (unsigned char ch : s) { h ^= ch; h *= 1099511628211ull; } h ^= 0xfe; h *= 1099511628211ull; };
  auto mixi = [&](uint64_t v) { h ^= v + 0x9e37; h *= 1099511628211ull; };
  for (auto &kv : names) {
    if (kv.second.empty()) continue;
    mixs(kv.first);
    for (auto &q : kv.second) { mixi((uint64_t)q.c); mixi(q.allow_replacement * 2 + q.do_not_queue); }
  }
  for (size_t i = 0; i < conns.size(); i++) {
    mixi(conns[i].alive * 4 + conns[i].hello * 2 + conns[i].monitor);
    mixi(conns[i].rules.size());
  }
  mixi(pending.size());
  return h;
}

static std::string prop_of_member(const std::string &m) {
  if (m == "AddMatch" || m == "RemoveMatch") return "C07";
  if (m == "Hello") return "C03";
  return "C04";
}

static const char *E_ACCESS = "org.freedesktop.DBus.Error.AccessDenied";
static const char *E_LIMITS = "org.freedesktop.DBus.Error.LimitsExceeded";
static const char *E_NOOWNER = "org.freedesktop.DBus.Error.NameHasNoOwner";
static const char *E_UNKNOWN = "org.freedesktop.DBus.Error.ServiceUnknown";
static const char *E_NOREPLY = "org.freedesktop.DBus.Error.NoReply";
static const char *E_RULE_NOT_FOUND = "org.freedesktop.DBus.Error.MatchRuleNotFound";
static const char *E_RULE_INVALID = "org.freedesktop.DBus.Error.MatchRuleInvalid";

// A message the bus itself originates is subject only to the recipient's receive rules; a recipient
// that has not completed Hello has no policy yet and can be told anything by the bus.
int Model::bus_may_deliver(int r, const wire::Msg &m) {
  if (r < 0 || (size_t)r >= conns.size()) return 0;
  // "max_outgoing_bytes": a recipient that does not read loses what is sent to it beyond the limit, bus-originated
  // replies and signals included (they are dropped, there is nobody to tell)
  bool undetermined = false;
  if (queue_full) {
    // in an event of several transactions (a disconnect releasing several names) the bus's order among them is its
    // own: any of them may come after another has grown the queue since it was read
    if (multi_txn) { emitted_in_event[r]++; undetermined = true; }
    else if (queue_full(r)) { probes["dropped_recipient_queue_full"]++; return 0; }
  }
  if (!can_receive || !conns[(size_t)r].hello) return undetermined ? 2 : 1;
  if (!can_receive(-1, m, r, r, m.reply_serial() != 0)) return 0;
  return undetermined ? 2 : 1;
}

void Model::emit_from_bus(int r, Exp e, bool fl) {
  {
    // monitors see what the bus originates whether or not the recipient's policy lets it through
    Exp c = e;
    capture_loose(c, r, fl);
  }
  int verdict = bus_may_deliver(r, e.m);
  if (verdict == 2) e.optional = true;
  if (verdict != 1) {
    // monitors may additionally be shown the refusal itself: an error "in reply to" the refused message,
    // addressed to the bus (AccessDenied for a receive policy, LimitsExceeded for a full queue)
    for (size_t i = 0; i < conns.size(); i++) {
      if (!conns[i].alive || !conns[i].monitor) continue;
      Exp x;
      x.from_bus = true;
      x.m = wire::Msg::error(1, 1, BUS, E_ACCESS);
      x.m.set_field(wire::F_SENDER, wire::Value::string(BUS));
      x.any_reply_serial = true;
      x.any_error_name = true;
      x.ignore_body = true;
      x.optional = true;
      x.what = "monitor's copy of the refusal of a bus-originated message";
      x.prop = "C18";
      emit((int)i, x);
    }
  }
  if (!verdict) {
    probes["bus_message_refused_by_receive_policy"]++;
    return;
  }
  if (fl) emit_floating(r, std::move(e)); else emit(r, std::move(e));
}

static void resolve_value(const Model &md, wire::Value &v) {
  if (v.type == 's') v.str = md.resolve(v.str);
  for (auto &k : v.kids) resolve_value(md, k);
}

// a bus-originated error whose name the documents leave open: the monitor's copy is as loose as the original
// When policy refuses a message for one of its recipients, monitors may be shown the refusal: an
// AccessDenied error "in reply to" the message (addressed to its sender).
void Model::monitors_may_see_refusal(int sender, const wire::Msg &m, const char *errname) {
  if (sender < 0) return;   // a broadcast from the bus has no serial: there is nothing to reply to
  for (size_t i = 0; i < conns.size(); i++) {
    if (!conns[i].alive || !conns[i].monitor) continue;
    Exp x;
    x.from_bus = true;
    x.m = wire::Msg::error(1, m.serial, sender >= 0 ? U(sender) : std::string(BUS), errname ? errname : E_ACCESS);
    x.m.set_field(wire::F_SENDER, wire::Value::string(BUS));
    x.any_reply_serial = sender < 0;
    x.any_destination = true;
    x.ignore_body = true;
    x.optional = true;
    x.what = "monitor's copy of a refusal";
    x.prop = "C18";
    emit((int)i, x);
  }
}

// Does a monitor's filter rule take this message?  0 no, 1 yes, 2 not determined: a destination key naming a
// well-known name is pinned only where the message has no addressee (then it is compared with the DESTINATION
// header); whether an addressee "is" that name at the instant of a name hand-over is left open.
static int monitor_rule_verdict(const mr::Rule &r, const wire::Msg &rm, const mr::MatchCtx &ctx) {
  if (r.has_destination && !wire::valid_unique_name(r.destination) && ctx.has_addressed) {
    mr::Rule r2 = r;
    r2.has_destination = false;
    return mr::matches(r2, rm, ctx, false) ? 2 : 0;
  }
  return mr::matches(r, rm, ctx, false) ? 1 : 0;
}

void Model::capture_loose(const Exp &orig, int addressed, bool fl) {
  for (size_t i = 0; i < conns.size(); i++) {
    Conn &k = conns[i];
    if (!k.alive || !k.monitor) continue;
    mr::MatchCtx ctx = ctx_for(-1, addressed, orig.m);
    wire::Msg rm = orig.m;
    for (auto &f : rm.fields) resolve_value(*this, f.val);
    bool hit = false, maybe = false;
    // What the driver addresses to a connection it is disconnecting or turning into a monitor (NameLost for each
    // of its names) is matched against an addressee that is losing its names one by one, in the bus's internal
    // order: whether a filter on that connection's unique name takes a given one of these signals is left open.
    bool stripping = addressed >= 0 && (size_t)addressed < conns.size() && (!conns[(size_t)addressed].alive || addressed == becoming_monitor);
    std::string stripped_un = stripping ? resolve(U(addressed)) : std::string();
    for (auto &r : k.mon_rules) {
      if (stripping && r.has_destination && r.destination == stripped_un) {
        mr::Rule r2 = r; r2.has_destination = false;
        if (mr::matches(r2, rm, ctx, false)) maybe = true;
        continue;
      }
      int v = monitor_rule_verdict(r, rm, ctx); if (v == 1) hit = true; else if (v == 2) maybe = true;
    }
    if (!hit && !maybe) continue;
    Exp e = orig;
    e.last = false; e.pre = false;
    if ((int)i == becoming_monitor || !hit) e.optional = true;
    e.what = "monitor's copy of " + orig.what;
    e.prop = "C18";
    probes["monitor_captured_bus_message"]++;
    if (fl) emit_floating((int)i, e); else emit((int)i, e);
  }
}

void Model::capture(int sender, const wire::Msg &m0, int addressed, bool optional, bool fl) {
  bool any = false;
  for (auto &k : conns) if (k.alive && k.monitor) any = true;
  if (!any) return;
  wire::Msg m = m0;
  mr::MatchCtx ctx = ctx_for(sender, addressed, m);
  wire::Msg rm = m;
  for (auto &f : rm.fields) resolve_value(*this, f.val);
  for (auto &v : rm.body) resolve_value(*this, v);
  for (size_t i = 0; i < conns.size(); i++) {
    Conn &k = conns[i];
    if (!k.alive || !k.monitor) continue;
    // "only on connections where descriptor passing was negotiated": a monitor that did not negotiate it is not
    // shown messages that carry descriptors (certainly not their header without the descriptors)
    if (m.unix_fds() > 0 && !k.fdpass) { probes["monitor_without_fd_passing_skipped"]++; continue; }
    bool hit = false, maybe = false;
    for (auto &r : k.mon_rules) { int v = monitor_rule_verdict(r, rm, ctx); if (v == 1) hit = true; else if (v == 2) maybe = true; }
    if (!hit && !maybe) continue;
    bool only_maybe = !hit;
    Exp e;
    e.from_bus = sender < 0;
    e.m = m;
    e.optional = optional || only_maybe || (int)i == becoming_monitor;   // its own transition: "subsequently" leaves these open
    e.ignore_body = sender < 0 && m.type == wire::T_ERROR;
    e.any_error_name = false;
    e.what = "monitor's copy";
    e.prop = "C18";
    probes[sender < 0 ? "monitor_captured_bus_message" : "monitor_captured_client_message"]++;
    if (fl && !e.optional) emit_floating((int)i, e); else emit((int)i, e);
  }
}

void Model::emit_floating(int r, Exp e) {
  if (r < 0 || (size_t)r >= conns.size()) return;
  if (!conns[(size_t)r].alive || conns[(size_t)r].unchecked) return;
  floating[(size_t)r].push_back(std::move(e));
}

void Model::emit(int r, Exp e) {
  if (r < 0 || (size_t)r >= conns.size()) return;
  if (!conns[(size_t)r].alive || conns[(size_t)r].unchecked) return;
  std::deque<Group> &q = exp[(size_t)r];
  if (q.empty() || q.back().event != event) { Group g; g.event = event; q.push_back(g); }
  q.back().items.push_back(std::move(e));
}

mr::MatchCtx Model::ctx_for(int sender, int addressed, const wire::Msg &m) {
  mr::MatchCtx ctx;
  (void)m;
  ctx.sender_is = [this, sender](const std::string &n) {
    if (sender < 0) return n == BUS;
    if (n == BUS) return false;
    return owner_of(n) == sender;
  };
  ctx.has_addressed = addressed >= 0;
  ctx.addressed_is = [this, addressed](const std::string &n) { return owner_of(n) == addressed; };
  return ctx;
}

bool Model::rule_matches_any(int rc, const wire::Msg &m0, int sender, int addressed, bool eavesdropping) {
  mr::MatchCtx ctx = ctx_for(sender, addressed, m0);
  // the message as the recipient would see it: symbolic names resolved where known
  wire::Msg m = m0;
  for (auto &f : m.fields) resolve_value(*this, f.val);
  for (auto &v : m.body) resolve_value(*this, v);
  for (auto &r : conns[(size_t)rc].rules)
    if (mr::matches(r, m, ctx, eavesdropping)) return true;
  return false;
}

// Deliver m (already stamped) to its addressed recipient (if any) and to every
// connection whose rules match.  sender < 0: the bus itself.
void Model::route(int sender, const wire::Msg &m, int addressed) {
  bool is_reply = m.type == wire::T_RETURN || m.type == wire::T_ERROR;
  bool requested = false;
  if (is_reply && addressed >= 0 && sender >= 0)
    for (auto &p : pending)
      if (!p.doomed && p.caller == addressed && p.callee == sender && p.serial == m.reply_serial()) requested = true;
  if (addressed >= 0) {
    bool ok = true;
    if (is_reply && requested && sender >= 0) {
      // The slot is used up by the attempt: "at most one reply per call gets through" even if policy
      // then refuses this one (the documents do not say the call becomes answerable again).
      for (size_t i = 0; i < pending.size(); i++)
        if (!pending[i].doomed && pending[i].caller == addressed && pending[i].callee == sender && pending[i].serial == m.reply_serial()) {
          pending.erase(pending.begin() + (long)i);
          break;
        }
    }
    if (sender >= 0 && can_send && !can_send(sender, m, addressed, addressed, requested)) ok = false;
    if (ok && can_receive && !can_receive(sender, m, addressed, addressed, requested)) ok = false;
    if (ok && m.unix_fds() > 0 && !conns[(size_t)addressed].fdpass) ok = false;
    if (ok && queue_full && queue_full(addressed)) {
      // the addressee's queue in the bus is over max_outgoing_bytes: refused with LimitsExceeded, nothing is
      // delivered and no reply is awaited
      probes["unicast_refused_queue_full"]++;
      monitors_may_see_refusal(sender, m, E_LIMITS);
      if (sender >= 0) {
        Exp e;
        e.from_bus = true;
        e.m = wire::Msg::error(1, m.serial, U(sender), E_LIMITS);
        e.m.set_field(wire::F_SENDER, wire::Value::string(BUS));
        e.ignore_body = true;
        e.optional = m.type != wire::T_CALL || (m.flags & wire::FL_NO_REPLY_EXPECTED) != 0;
        e.what = "error: the destination's message queue is full";
        e.prop = "C05";
        emit_from_bus(sender, e);
      }
      return;
    }
    if (!ok) {
      probes["unicast_refused"]++;
      if (sender >= 0) {
        // a denied method call earns AccessDenied; for other types only "delivered to no one" is
        // required, an AccessDenied error back to the sender is admitted
        Exp e;
        e.from_bus = true;
        e.m = wire::Msg::error(1, m.serial, U(sender), "org.freedesktop.DBus.Error.AccessDenied");
        e.m.set_field(wire::F_SENDER, wire::Value::string(BUS));
        e.ignore_body = true;
        e.optional = m.type != wire::T_CALL || (m.flags & wire::FL_NO_REPLY_EXPECTED) != 0;
        if (is_reply) probes[requested ? "requested_reply_refused" : "unrequested_reply_refused"]++;
        if (m.unix_fds() > 0 && !conns[(size_t)addressed].fdpass) e.any_error_name = true;
        e.what = "error for refused call";
        e.prop = "C06";
        emit_from_bus(sender, e);
      }
      return;
    }
    if (sender >= 0 && m.type == wire::T_CALL && !(m.flags & wire::FL_NO_REPLY_EXPECTED)) {
      // a reply slot must be available: not the same (caller, callee, serial) twice, and within the limit
      long mine = 0;
      bool dup = false;
      for (auto &p : pending) {
        if (p.caller == sender) mine++;
        if (p.caller == sender && p.callee == addressed && p.serial == m.serial) dup = true;
      }
      if (dup || mine >= lim.max_replies_per_connection) {
        Exp e;
        e.from_bus = true;
        e.m = wire::Msg::error(1, m.serial, U(sender), E_LIMITS);
        e.m.set_field(wire::F_SENDER, wire::Value::string(BUS));
        e.any_error_name = dup;    // the documents name no error for a reused serial
        e.ignore_body = true;
        e.what = dup ? "error: serial of an outstanding call reused" : "error: pending-reply limit";
        e.prop = dup ? "C09" : "C13";
        probes[dup ? "serial_reuse_refused" : "limit_replies_hit"]++;
        emit_from_bus(sender, e);
        return;
      }
    }
    Exp e;
    e.from_bus = sender < 0;
    e.m = m;
    e.what = hold_order_key ? "held message released to the started service" : "unicast delivery";
    e.prop = hold_order_key ? "C19" : "C05";
    if (hold_order_key) { e.order_key = hold_order_key; e.pre = true; }
    emit(addressed, e);
    if (sender >= 0) {
      if (m.type == wire::T_CALL && !(m.flags & wire::FL_NO_REPLY_EXPECTED)) {
        PendingReply p{};
        p.caller = sender; p.callee = addressed; p.serial = m.serial;
        p.deadline_us = lim.reply_timeout_ms < 0 ? -1 : now_us + lim.reply_timeout_ms * 1000;
        pending.push_back(p);
      }

    }
  }
  // For eavesdroppers of a reply the "requested" state is not pinned down by the documents (the
  // slot has just been used up for the addressee): their copies are neither required nor forbidden.
  route_matches(sender, m, addressed, requested, is_reply && requested && (bool)can_send);
}

// Connections whose rules match.  Broadcasts (no destination) must arrive exactly once; copies of
// messages addressed to someone else go only to eavesdroppers, who may, but need not, get them.
void Model::route_matches(int sender, const wire::Msg &m, int addressed, bool requested, bool policy_lenient) {
  for (size_t rc = 0; rc < conns.size(); rc++) {
    Conn &k = conns[rc];
    if (!k.alive || !k.hello || (int)rc == addressed) continue;
    if (k.monitor && (int)rc != becoming_monitor) continue;   // a monitor has lost its ordinary rules
    bool eavesdropping = m.has_field(wire::F_DESTINATION);
    if (!rule_matches_any((int)rc, m, sender, addressed, eavesdropping)) continue;
    if (!policy_lenient) {
      bool refused = (sender >= 0 && can_send && !can_send(sender, m, (int)rc, addressed, requested)) ||
                     (can_receive && !can_receive(sender, m, (int)rc, addressed, requested));
      if (refused) { monitors_may_see_refusal(sender, m); continue; }
    } else if (can_send) monitors_may_see_refusal(sender, m);
    if (m.unix_fds() > 0 && !k.fdpass) {
      // a matching recipient that cannot take the descriptors gets nothing; monitors may be shown that refusal
      monitors_may_see_refusal(sender, m, "org.freedesktop.DBus.Error.NotSupported");
      continue;
    }
    bool queue_undetermined = false;
    if (queue_full) {
      if (multi_txn) { emitted_in_event[(int)rc]++; queue_undetermined = true; }
      else if (queue_full((int)rc)) { probes["dropped_recipient_queue_full"]++; monitors_may_see_refusal(sender, m, E_LIMITS); continue; }
      if (queue_undetermined) monitors_may_see_refusal(sender, m, E_LIMITS);
    }
    Exp e;
    e.from_bus = sender < 0;
    e.m = m;
    e.what = eavesdropping ? "eavesdropped copy" : "broadcast delivery";
    e.prop = eavesdropping ? "C05" : (sender < 0 ? "C04" : "C07");
    e.optional = eavesdropping || queue_undetermined || (int)rc == becoming_monitor;   // mid-transition: rules may or may not be gone yet
    if (eavesdropping) probes["eavesdrop_copy"]++; else probes["broadcast_copy"]++;
    emit((int)rc, e);
  }
}

static wire::Msg bus_signal(const char *member, std::vector<wire::Value> body) {
  wire::Msg s = wire::Msg::signal(1, BUS_PATH, BUS, member, std::move(body));
  s.set_field(wire::F_SENDER, wire::Value::string(BUS));
  return s;
}

void Model::name_owner_changed(const std::string &name, const std::string &o, const std::string &n) {
  wire::Msg s = bus_signal("NameOwnerChanged", {wire::Value::string(name), wire::Value::string(o), wire::Value::string(n)});
  capture(-1, s, -1);
  route(-1, s, -1);
}

void Model::name_signal(int c, const char *member, const std::string &name) {
  wire::Msg s = bus_signal(member, {wire::Value::string(name)});
  s.set_field(wire::F_DESTINATION, wire::Value::string(U(c)));
  Exp e;
  e.from_bus = true;
  e.m = s;
  e.what = member;
  e.prop = "C04";
  e.pre = true;
  emit_from_bus(c, e);
}

void Model::reply_ok(int c, const wire::Msg &call, std::vector<wire::Value> body, bool name_set) {
  Exp e;
  // NO_REPLY_EXPECTED: "the reply ... should be omitted as an optimisation", it may still be sent
  e.optional = (call.flags & wire::FL_NO_REPLY_EXPECTED) != 0;
  e.from_bus = true;
  e.m = wire::Msg::method_return(1, call.serial, U(c), std::move(body));
  e.m.set_field(wire::F_SENDER, wire::Value::string(BUS));
  e.body_is_name_set = name_set;
  e.last = true;
  e.what = "reply to " + call.member();
  e.prop = prop_of_member(call.member());
  emit_from_bus(c, e);
}

void Model::reply_err(int c, const wire::Msg &call, const std::string &name, std::vector<std::string> any_of) {
  Exp e;
  e.from_bus = true;
  e.m = wire::Msg::error(1, call.serial, U(c), name.empty() ? "org.freedesktop.DBus.Error.Failed" : name);
  e.m.set_field(wire::F_SENDER, wire::Value::string(BUS));
  e.any_error_name = name.empty() && any_of.empty();
  e.error_any_of = std::move(any_of);
  e.ignore_body = true;
  e.last = true;
  e.optional = (call.flags & wire::FL_NO_REPLY_EXPECTED) != 0;
  e.what = "error reply to " + call.member();
  e.any_destination = !conns[(size_t)c].hello;
  e.prop = name == E_LIMITS ? "C13" : name == E_ACCESS ? "C06" : prop_of_member(call.member());
  emit_from_bus(c, e);
}

void Model::release_entry(int c, const std::string &name, bool from_disconnect) {
  (void)from_disconnect;
  auto it = names.find(name);
  if (it == names.end()) return;
  std::vector<QEntry> &q = it->second;
  size_t pos = 0;
  while (pos < q.size() && q[pos].c != c) pos++;
  if (pos == q.size()) return;
  bool was_primary = pos == 0;
  q.erase(q.begin() + (long)pos);
  if (was_primary) {
    name_signal(c, "NameLost", name);
    if (q.empty()) {
      name_owner_changed(name, U(c), "");
    } else {
      name_owner_changed(name, U(c), U(q.front().c));
      name_signal(q.front().c, "NameAcquired", name);
      probes["owner_handover_to_waiter"]++;
    }
  } else {
    probes["waiter_removed"]++;
  }
  if (q.empty()) names.erase(it);
}

// Rules of other connections whose sender= or destination= is the unique name of `c` can never match
// again once that name is gone (unique names are not reused).  Whether the bus keeps or discards
// them is not specified: observable only through RemoveMatch and the rule limit -> choice point,
// read white-box.
void Model::doom_rules_naming(int c) {
  std::string un = resolve(U(c));
  for (size_t o = 0; o < conns.size(); o++) {
    if ((int)o == c || !conns[o].alive) continue;
    Choice ch;
    ch.id = "rules-naming-vanished-unique-name";
    ch.conn = (int)o;
    for (size_t i = 0; i < conns[o].rules.size(); i++) {
      const mr::Rule &r = conns[o].rules[i];
      if ((r.has_sender && r.sender == un) || (r.has_destination && r.destination == un)) { ch.rule_idx.push_back(i); conns[o].rule_doomed[i] = true; }
    }
    if (!ch.rule_idx.empty()) { open_choices.push_back(ch); probes["rule_names_vanished_unique"]++; }
  }
}

void Model::disconnect(int c) {
  event++;
  if (c < 0 || (size_t)c >= conns.size()) return;
  Conn &k = conns[(size_t)c];
  if (!k.alive) return;
  k.alive = false;   // first: a dead connection receives nothing, owns nothing
  struct Multi { Model &m; explicit Multi(Model &mm) : m(mm) { m.multi_txn = true; m.emitted_in_event.clear(); } ~Multi() { m.multi_txn = false; } } multi(*this);
  // every claim on a well-known name goes away (order among names is not specified)
  std::vector<std::string> held;
  for (auto &kv : names)
    for (auto &q : kv.second)
      if (q.c == c) held.push_back(kv.first);
  if (held.size() >= 2) probes["disconnect_multi_names"]++;
  for (auto &n : held) {
    auto &q = names[n];
    if (!q.empty() && q.front().c == c && q.size() >= 3) probes["owner_disconnect_two_waiters"]++;
    release_entry(c, n, true);
  }
  // pending replies: callers waiting for c get NoReply (sent when the bus expires the slot, probe H2c);
  // c's own outstanding calls vanish
  doom_slots_of(c, "noreply_on_disconnect");
  if (k.hello) { name_signal(c, "NameLost", U(c)); name_owner_changed(U(c), U(c), ""); }
  if (k.hello) {
    doom_rules_naming(c);
  }
  if (k.monitor) {
    // A departing MONITOR is swept out of the monitors' matchmaker like any connection out of the ordinary one:
    // its own rules go, and so do other monitors' rules that name its unique name as sender or destination.
    // (An ordinary client's departure leaves every monitor's filter untouched.)
    std::string un = resolve(U(c));
    for (size_t o = 0; o < conns.size(); o++) {
      if ((int)o == c || !conns[o].alive || !conns[o].monitor) continue;
      auto &v = conns[o].mon_rules;
      size_t before = v.size();
      v.erase(std::remove_if(v.begin(), v.end(), [&](const mr::Rule &r) { return (r.has_sender && r.sender == un) || (r.has_destination && r.destination == un); }), v.end());
      if (v.size() != before) probes["monitor_rule_naming_departed_monitor_dropped"]++;
    }
  }
  k.hello = false;
  k.rules.clear();
  k.rule_texts.clear();
  k.rule_doomed.clear();
  exp[(size_t)c].clear();
  floating[(size_t)c].clear();
}

void Model::doom_slots_of(int c, const char *why) {
  for (size_t i = 0; i < pending.size();) {
    if (pending[i].caller == c) {
      if (std::string(why) == "became_monitor_with_calls_to_answer") probes["became_monitor_with_calls_outstanding"]++;
      pending.erase(pending.begin() + (long)i);
      continue;
    }
    if (pending[i].callee == c && !pending[i].doomed) { pending[i].doomed = true; probes[why]++; }
    i++;
  }
}

void Model::reply_expired(int caller, int callee, uint32_t serial) {
  event++;
  // A caller may reuse a serial while the first call is still outstanding (to another callee): the slot the bus
  // names is the one with that callee; a slot whose callee is gone is reported without one (callee -1).
  for (int pass = 0; pass < 3; pass++)
  for (size_t i = 0; i < pending.size(); i++) {
    PendingReply &q = pending[i];
    if (q.caller != caller || q.serial != serial) continue;
    if (pass == 0 && !(q.callee == callee)) continue;
    if (pass == 1 && !(callee < 0 && q.doomed)) continue;
    if (pass == 2 && !(q.doomed || q.callee == callee)) continue;
    bool doomed = q.doomed;
    pending.erase(pending.begin() + (long)i);
    probes[doomed ? "noreply_sent_for_vanished_callee" : "reply_slot_expired"]++;
    Exp e;
    e.from_bus = true;
    e.m = wire::Msg::error(1, serial, U(caller), E_NOREPLY);
    e.m.set_field(wire::F_SENDER, wire::Value::string(BUS));
    e.ignore_body = true;
    e.what = doomed ? "NoReply because the callee went away" : "NoReply because the reply timeout elapsed";
    e.prop = "C09";
    emit_from_bus(caller, e);
    return;
  }
  // not found: the caller itself is gone
}

std::vector<PendingReply> Model::overdue() const {
  std::vector<PendingReply> v;
  for (auto &p : pending) if (p.doomed || (p.deadline_us >= 0 && p.deadline_us < now_us)) v.push_back(p);
  return v;
}

void Model::resolve_rule_choice(int conn, const std::vector<size_t> &idx, bool dropped) {
  if (conn < 0 || (size_t)conn >= conns.size() || !dropped) return;
  Conn &k = conns[(size_t)conn];
  for (size_t j = idx.size(); j-- > 0;) {
    size_t i = idx[j];
    if (i >= k.rules.size()) continue;
    k.rules.erase(k.rules.begin() + (long)i);
    k.rule_texts.erase(k.rule_texts.begin() + (long)i);
    k.rule_doomed.erase(k.rule_doomed.begin() + (long)i);
  }
}

void Model::resolve_choice(const std::string &name, const std::vector<int> &actual) {
  for (size_t i = 0; i < open_choices.size(); i++) {
    if (open_choices[i].name != name) continue;
    auto &q = names[name];
    std::vector<QEntry> nq;
    for (int c : actual)
      for (auto &e : q)
        if (e.c == c) nq.push_back(e);
    if (nq.size() == q.size()) q = nq;
    open_choices.erase(open_choices.begin() + (long)i);
    return;
  }
}

void Model::driver(int c, const wire::Msg &m) {
  Conn &k = conns[(size_t)c];
  std::string member = m.member();
  std::string iface = m.interface();
  bool iface_ok = !m.has_field(wire::F_INTERFACE) || iface == BUS;
  auto arg_s = [&](size_t i) { return i < m.body.size() && m.body[i].type == 's'; };
  auto arg_u = [&](size_t i) { return i < m.body.size() && m.body[i].type == 'u'; };

  if (iface == "org.freedesktop.DBus.Peer" && member == "Ping" && m.body.empty()) { reply_ok(c, m, {}); return; }
  if (iface == "org.freedesktop.DBus.Monitoring" && member == "BecomeMonitor") { become_monitor(c, m); return; }

  if (!iface_ok) { reply_err(c, m, ""); return; }

  if (member == "Hello") {
    if (!m.body.empty()) { reply_err(c, m, ""); return; }
    if (k.hello) { reply_err(c, m, ""); probes["second_hello"]++; return; }
    {
      long active = 0, same_uid = 0;
      for (auto &o : conns) if (o.alive && o.hello) { active++; if (o.uid == k.uid) same_uid++; }
      if (active >= lim.max_completed_connections) { reply_err(c, m, E_LIMITS); probes["limit_completed_hit"]++; return; }
      if (same_uid >= lim.max_connections_per_user) { reply_err(c, m, E_LIMITS); probes["limit_per_user_hit"]++; return; }
    }
    k.hello = true;
    name_owner_changed(U(c), "", U(c));
    name_signal(c, "NameAcquired", U(c));
    // the Hello reply is not ordered against NameAcquired by the documents
    Exp e;
    e.from_bus = true;
    e.m = wire::Msg::method_return(1, m.serial, U(c), {wire::Value::string(U(c))});
    e.m.set_field(wire::F_SENDER, wire::Value::string(BUS));
    e.what = "Hello reply";
    e.prop = "C03";
    emit_from_bus(c, e);
    return;
  }

  if (member == "RequestName") {
    if (m.body.size() != 2 || !arg_s(0) || !arg_u(1)) { reply_err(c, m, ""); return; }
    std::string name = m.body[0].str;
    uint32_t fl = (uint32_t)m.body[1].u;
    if (!wire::valid_bus_name(name) || name[0] == ':' || name == BUS) { reply_err(c, m, ""); probes["reqname_refused_name"]++; return; }
    if (can_own && !can_own(c, name)) { reply_err(c, m, E_ACCESS); probes["own_denied"]++; return; }
    bool allow = fl & 1, replace = fl & 2, dnq = fl & 4;
    std::vector<QEntry> &q = names[name];
    size_t mine = 0;
    while (mine < q.size() && q[mine].c != c) mine++;
    bool queued = mine < q.size();
    if (!queued) {
      // "max_names_per_connection": names a connection can own — its unique name is one of them,
      // and a place in a queue is a claim that counts
      long held = k.hello ? 1 : 0;
      for (auto &kv : names) for (auto &e : kv.second) if (e.c == c) held++;
      if (held >= lim.max_names_per_connection) {
        if (q.empty()) names.erase(name);
        reply_err(c, m, E_LIMITS);
        probes["limit_names_hit"]++;
        return;
      }
    }
    if (q.empty()) {
      q.push_back({c, allow, dnq});
      name_owner_changed(name, "", U(c));
      name_signal(c, "NameAcquired", name);
      activation_complete(name, c);
      reply_ok(c, m, {wire::Value::u32(1)});
      probes["reqname_reply_1"]++;
      return;
    }
    if (q.front().c == c) {
      q.front().allow_replacement = allow;
      q.front().do_not_queue = dnq;
      reply_ok(c, m, {wire::Value::u32(4)});
      probes["reqname_reply_4"]++;
      return;
    }
    if (q.front().allow_replacement && replace) {
      QEntry old = q.front();
      if (queued) { q.erase(q.begin() + (long)mine); probes["waiter_replaces_owner"]++; }
      q.erase(q.begin());
      std::vector<QEntry> nq;
      nq.push_back({c, allow, dnq});
      if (!old.do_not_queue) { nq.push_back(old); probes["replaced_owner_requeued"]++; } else probes["replaced_owner_dropped"]++;
      for (auto &e : q) nq.push_back(e);
      q = nq;
      name_signal(old.c, "NameLost", name);
      name_owner_changed(name, U(old.c), U(c));
      name_signal(c, "NameAcquired", name);
      reply_ok(c, m, {wire::Value::u32(1)});
      probes["reqname_reply_1_replace"]++;
      return;
    }
    // replacement not possible
    if (queued) {
      q[mine].allow_replacement = allow;
      q[mine].do_not_queue = dnq;
      probes["waiter_updates_flags"]++;
    } else {
      q.push_back({c, allow, dnq});
      mine = q.size() - 1;
    }
    if (replace && !dnq && q.size() > 2 && mine != 1) {
      // Documents: a waiter's "flags are updated" / a newcomer "is appended to the queue", but also
      // "REPLACE_EXISTING results in jumping the queue".  Admit both readings: position as just
      // described, or directly behind the primary owner.  The harness reads the actual order.
      Choice ch;
      ch.name = name; ch.id = queued ? "waiter-rerequest-position" : "new-waiter-with-replace-position";
      std::vector<int> same, moved;
      for (auto &e : q) same.push_back(e.c);
      moved.push_back(q.front().c); moved.push_back(c);
      for (size_t i = 1; i < q.size(); i++) if (q[i].c != c) moved.push_back(q[i].c);
      ch.admissible = {same, moved};
      open_choices.push_back(ch);
    }
    if (dnq) {
      q.erase(q.begin() + (long)mine);
      reply_ok(c, m, {wire::Value::u32(3)});
      probes[queued ? "waiter_dropped_by_dnq" : "reqname_reply_3"]++;
    } else {
      reply_ok(c, m, {wire::Value::u32(2)});
      probes["reqname_reply_2"]++;
    }
    return;
  }

  if (member == "ReleaseName") {
    if (m.body.size() != 1 || !arg_s(0)) { reply_err(c, m, ""); return; }
    std::string name = m.body[0].str;
    if (!wire::valid_bus_name(name) || name[0] == ':' || name == BUS) { reply_err(c, m, ""); probes["relname_refused_name"]++; return; }
    auto it = names.find(name);
    if (it == names.end() || it->second.empty()) { reply_ok(c, m, {wire::Value::u32(2)}); probes["relname_reply_2"]++; return; }
    bool mine = false;
    for (auto &e : it->second) if (e.c == c) mine = true;
    if (!mine) { reply_ok(c, m, {wire::Value::u32(3)}); probes["relname_reply_3"]++; return; }
    release_entry(c, name, false);
    reply_ok(c, m, {wire::Value::u32(1)});
    probes["relname_reply_1"]++;
    return;
  }

  if (member == "GetNameOwner") {
    if (m.body.size() != 1 || !arg_s(0)) { reply_err(c, m, ""); return; }
    std::string name = m.body[0].str;
    if (name == BUS) { reply_ok(c, m, {wire::Value::string(BUS)}); return; }
    int o = owner_of(name);
    if (o < 0) { reply_err(c, m, E_NOOWNER); return; }
    reply_ok(c, m, {wire::Value::string(U(o))});
    return;
  }
  if (member == "NameHasOwner") {
    if (m.body.size() != 1 || !arg_s(0)) { reply_err(c, m, ""); return; }
    std::string name = m.body[0].str;
    bool has = name == BUS || owner_of(name) >= 0;
    reply_ok(c, m, {wire::Value::boolean(has)});
    return;
  }
  if (member == "ListNames") {
    if (!m.body.empty()) { reply_err(c, m, ""); return; }
    std::vector<wire::Value> el;
    for (auto &n : all_names_symbolic()) el.push_back(wire::Value::string(n));
    reply_ok(c, m, {wire::Value::array("s", el)}, true);
    return;
  }
  if (member == "ListActivatableNames") {
    if (!m.body.empty()) { reply_err(c, m, ""); return; }
    std::vector<wire::Value> el;
    el.push_back(wire::Value::string(BUS));
    for (auto &n : activatable) el.push_back(wire::Value::string(n));
    if (cfg_unspecified) {
      // listed finding C14-reload-not-atomic: which service directories are in force is unspecified until the retry
      Exp e;
      e.from_bus = true;
      e.m = wire::Msg::method_return(1, m.serial, U(c), {wire::Value::array("s", el)});
      e.m.set_field(wire::F_SENDER, wire::Value::string(BUS));
      e.ignore_body = true;
      e.last = true;
      e.what = "reply to ListActivatableNames";
      e.prop = "C04";
      emit_from_bus(c, e);
      return;
    }
    reply_ok(c, m, {wire::Value::array("s", el)}, true);
    return;
  }
  if (member == "ListQueuedOwners") {
    if (m.body.size() != 1 || !arg_s(0)) { reply_err(c, m, ""); return; }
    std::string name = m.body[0].str;
    auto it = names.find(name);
    if (it == names.end() || it->second.empty()) {
      if (name == BUS || owner_of(name) >= 0) {
        std::string only = name == BUS ? std::string(BUS) : U(owner_of(name));
        reply_ok(c, m, {wire::Value::array("s", {wire::Value::string(only)})});
      } else reply_err(c, m, "");
      return;
    }
    std::vector<wire::Value> el;
    for (auto &e : it->second) el.push_back(wire::Value::string(U(e.c)));
    reply_ok(c, m, {wire::Value::array("s", el)});
    return;
  }
  if (member == "AddMatch") {
    if (m.body.size() != 1 || !arg_s(0)) { reply_err(c, m, ""); return; }
    mr::Rule r;
    std::string why;
    mr::ParseVerdict v = mr::parse(m.body[0].str, &r, &why);
    bool at_limit = (long)k.rules.size() >= lim.max_match_rules_per_connection;
    // an invalid rule at the limit may be refused for either reason
    if (v == mr::PV_INVALID) { reply_err(c, m, "", at_limit ? std::vector<std::string>{E_RULE_INVALID, E_LIMITS} : std::vector<std::string>{E_RULE_INVALID}); probes["addmatch_invalid"]++; return; }
    if (v == mr::PV_UNSPECIFIED) {
      // the documents do not say whether this text is a rule: any single reply, and this connection's
      // deliveries are no longer predicted
      probes["addmatch_unspecified"]++;
      k.unchecked = true;
      exp[(size_t)c].clear();
      floating[(size_t)c].clear();
      return;
    }
    if (at_limit) { reply_err(c, m, E_LIMITS); probes["limit_rules_hit"]++; return; }
    if (r.eavesdrop && k.uid != 0 && k.uid != bus_uid) {
      // "Match rules can also be used for eavesdropping, if the security policy of the message bus allows it":
      // the reference bus lets only root and its own user add eavesdropping rules
      reply_err(c, m, E_ACCESS);
      probes["eavesdrop_rule_refused"]++;
      return;
    }
    k.rules.push_back(r);
    k.rule_texts.push_back(m.body[0].str);
    k.rule_doomed.push_back(false);
    reply_ok(c, m, {});
    probes["addmatch_ok"]++;
    return;
  }
  if (member == "RemoveMatch") {
    if (m.body.size() != 1 || !arg_s(0)) { reply_err(c, m, ""); return; }
    mr::Rule r;
    std::string why;
    mr::ParseVerdict v = mr::parse(m.body[0].str, &r, &why);
    if (v != mr::PV_VALID) { reply_err(c, m, ""); return; }
    // "removes the first rule that matches" — with duplicates one remains.  Which of two equal
    // rules goes is unobservable.
    for (size_t i = k.rules.size(); i-- > 0;) {
      if (k.rules[i] == r) {
        k.rules.erase(k.rules.begin() + (long)i);
        k.rule_texts.erase(k.rule_texts.begin() + (long)i);
        k.rule_doomed.erase(k.rule_doomed.begin() + (long)i);
        reply_ok(c, m, {});
        probes["rmmatch_ok"]++;
        return;
      }
    }
    if (known.count("C07-removematch-ack-before-error")) {
      // listed known finding: the success reply is queued before the lookup and still goes out
      Exp a;
      a.from_bus = true;
      a.m = wire::Msg::method_return(1, m.serial, U(c), {});
      a.m.set_field(wire::F_SENDER, wire::Value::string(BUS));
      a.optional = true;
      a.finding = "C07-removematch-ack-before-error";
      a.what = "spurious success reply to a failing RemoveMatch";
      a.prop = "C07";
      emit_from_bus(c, a);
    }
    reply_err(c, m, E_RULE_NOT_FOUND);
    probes["rmmatch_notfound"]++;
    return;
  }
  if (member == "GetConnectionUnixUser" || member == "GetConnectionUnixProcessID") {
    if (m.body.size() != 1 || !arg_s(0)) { reply_err(c, m, ""); return; }
    std::string name = m.body[0].str;
    if (name == BUS) { reply_err(c, m, ""); return; }
    int o = owner_of(name);
    if (o < 0) { reply_err(c, m, ""); return; }
    reply_ok(c, m, {wire::Value::u32(member == "GetConnectionUnixUser" ? conns[(size_t)o].uid : conns[(size_t)o].pid)});
    return;
  }
  if (member == "StartServiceByName") {
    if (!(m.body.size() == 2 && arg_s(0) && arg_u(1))) { reply_err(c, m, ""); return; }
    std::string name = m.body[0].str;
    // "the executable associated with a name": without a service file there is nothing to start, owner or not
    // (the documents do not say which of the two answers wins; the service-file lookup comes first here)
    if (name != BUS && !activatable.count(name)) { reply_err(c, m, ""); probes["start_unknown_service"]++; return; }
    if (name == BUS || owner_of(name) >= 0) { reply_ok(c, m, {wire::Value::u32(2)}); probes["start_already_running"]++; return; }   // DBUS_START_REPLY_ALREADY_RUNNING
    activation_join(name, c, m, true);
    return;
  }
  if (member == "UpdateActivationEnvironment") {
    // "normally, session bus activated services inherit the environment of the bus daemon; this method adds to
    // or modifies that environment when activating services" (no service helper and no systemd activation here)
    if (!(m.body.size() == 1 && m.body[0].type == 'a' && m.body[0].sig == "{ss}")) { reply_err(c, m, ""); return; }
    for (auto &de : m.body[0].kids)
      if (de.kids.size() == 2) act_env[de.kids[0].str].insert(de.kids[1].str);
    probes["activation_environment_updated"]++;
    reply_ok(c, m, {});
    return;
  }
  if (member == "ReloadConfig") {
    if (!m.body.empty()) { reply_err(c, m, ""); return; }
    // "ReloadConfig: request the bus to reload its configuration": limits, policy and service directories of the
    // file now in place govern everything from here on; what connections already hold stays
    if (has_next_cfg) { lim = lim_next; activatable = activatable_next; cfg_gen = 1; has_next_cfg = false; probes["config_reloaded"]++; }
    reply_ok(c, m, {});
    return;
  }
  if (member == "GetId" && !m.body.empty()) { reply_err(c, m, ""); return; }
  if (member == "GetId") {
    // value not predictable by the model; presence only
    Exp e;
    e.from_bus = true;
    e.m = wire::Msg::method_return(1, m.serial, U(c), {wire::Value::string("")});
    e.m.set_field(wire::F_SENDER, wire::Value::string(BUS));
    e.ignore_body = true;
    e.last = true;
    e.what = "reply to GetId";
    e.prop = "C04";
    emit_from_bus(c, e);
    return;
  }
  // anything else: exactly one error (name not asserted)
  reply_err(c, m, "");
}

void Model::become_monitor(int c, const wire::Msg &m) {
  Conn &k = conns[(size_t)c];
  if (k.uid != 0 && k.uid != bus_uid) { reply_err(c, m, E_ACCESS); probes["become_monitor_denied"]++; return; }
  if (m.body.size() != 2 || m.body[0].type != 'a' || m.body[0].sig != "s" || m.body[1].type != 'u') { reply_err(c, m, ""); return; }
  if (m.body[1].u != 0) { reply_err(c, m, ""); return; }
  std::vector<mr::Rule> rules;
  for (auto &v : m.body[0].kids) {
    mr::Rule r;
    std::string why;
    mr::ParseVerdict pv = mr::parse(v.str, &r, &why, true);
    if (pv == mr::PV_INVALID) { reply_err(c, m, ""); probes["become_monitor_bad_rule"]++; return; }
    if (pv == mr::PV_UNSPECIFIED) { k.unchecked = true; exp[(size_t)c].clear(); floating[(size_t)c].clear(); return; }
    r.eavesdrop = true;
    rules.push_back(r);
  }
  if (rules.empty()) { mr::Rule all; all.eavesdrop = true; rules.push_back(all); }
  probes["became_monitor"]++;
  bool queued_somewhere = false;
  // the acknowledgement, then it gives up everything it holds
  reply_ok(c, m, {});
  // its filter is in force from here on; copies of what its own transition generates are neither
  // required nor forbidden ("subsequently")
  k.monitor = true;
  k.mon_rules = rules;
  becoming_monitor = c;
  std::vector<std::string> held;
  for (auto &kv : names) for (auto &q : kv.second) if (q.c == c) held.push_back(kv.first);
  for (auto &n : held) { if (names[n].front().c != c) queued_somewhere = true; release_entry(c, n, true); }
  if (queued_somewhere) probes["became_monitor_while_queued"]++;
  if (!held.empty()) probes["became_monitor_while_owning"]++;
  // calls it was expected to answer will not be answered: the callers get NoReply; its own calls are forgotten
  doom_slots_of(c, "became_monitor_with_calls_to_answer");
  name_signal(c, "NameLost", U(c));
  name_owner_changed(U(c), U(c), "");
  becoming_monitor = -1;
  // "From that moment ... is never the addressee of a delivery": whether the NameLost signals of this
  // very request still reach it is not specified
  if (!exp[(size_t)c].empty() && exp[(size_t)c].back().event == event)
    for (auto &it : exp[(size_t)c].back().items) if (it.pre) it.optional = true;
  doom_rules_naming(c);
  k.hello = false;           // owns nothing, is nobody's addressee
  k.rules.clear(); k.rule_texts.clear(); k.rule_doomed.clear();
}

void Model::process(int c, const wire::Msg &orig) {
  event++;
  if (c < 0 || (size_t)c >= conns.size()) return;
  Conn &k = conns[(size_t)c];
  if (!k.alive) return;
  k.processed++;
  if (k.monitor) { k.expect_closed = true; return; }
  // 1. strip what the client must not be able to inject; stamp the sender
  wire::Msg m = orig;
  bool had_forged = m.has_field(wire::F_SENDER);
  bool had_unknown = false;
  {
    std::vector<wire::Field> keep;
    for (auto &f : m.fields) {
      if (f.code > wire::F_CONTAINER_INSTANCE) { had_unknown = true; continue; }
      if (f.code == wire::F_CONTAINER_INSTANCE) { had_unknown = true; continue; }
      if (f.code == wire::F_SENDER) continue;
      keep.push_back(f);
    }
    m.fields = keep;
  }
  if (had_forged) probes["forged_sender_seen"]++;
  if (had_unknown) probes["unknown_field_seen"]++;
  std::string dest = m.destination();
  bool to_bus = dest == BUS;

  // 2. before Hello only Hello is served.  Anything else is delivered nowhere; what the sender
  //    itself sees (an error, a disconnect) is not fixed by the documents, so its own stream is
  //    no longer checked.
  if (!k.hello) {
    bool is_hello = to_bus && m.type == wire::T_CALL && m.member() == "Hello" && (!m.has_field(wire::F_INTERFACE) || m.interface() == BUS);
    if (!is_hello) {
      probes["message_before_hello"]++;
      k.unchecked = true;
      exp[(size_t)c].clear();
      floating[(size_t)c].clear();
      // monitors are shown it (unless it has no destination and is not a signal, see below); the
      // connection has no name yet, the reference bus labels it ":not.active.yet"
      if (m.has_field(wire::F_DESTINATION) || m.type == wire::T_SIGNAL) {
        m.set_field(wire::F_SENDER, wire::Value::string(":not.active.yet"));
        capture(c, m, -1);
        monitors_may_see_refusal(c, m);
      }
      return;
    }
  }
  {
    // what monitors are shown as the sender of a message from a connection that has no name yet: the
    // reference bus writes ":not.active.yet", except that a successful Hello is re-labelled with the new name
    bool named = k.hello;
    if (!k.hello) {
      long active = 0, same_uid = 0;
      for (auto &o : conns) if (o.alive && o.hello) { active++; if (o.uid == k.uid) same_uid++; }
      named = m.body.empty() && active < lim.max_completed_connections && same_uid < lim.max_connections_per_user;
    }
    m.set_field(wire::F_SENDER, wire::Value::string(named ? U(c) : std::string(":not.active.yet")));
  }
  bool destless_nonsignal = !m.has_field(wire::F_DESTINATION) && m.type != wire::T_SIGNAL;
  if (!destless_nonsignal) capture(c, m, to_bus ? -1 : owner_of(dest));
  else {
    // listed known finding: the bus hands destination-less non-signals to its own library before
    // capturing them, so monitors never see them (nor the replies)
    bool would = false;
    for (auto &o : conns) if (o.alive && o.monitor) would = true;
    if (would) {
      if (known.count("C18-destinationless-not-captured")) finding_hits["C18-destinationless-not-captured"]++;
      else capture(c, m, -1);
    }
  }
  m.set_field(wire::F_SENDER, wire::Value::string(U(c)));

  if (to_bus) {
    // a connection that has not completed Hello has no policy yet: its Hello is always let through
    if (k.hello && can_send && !can_send(c, m, -1, -1, false)) {
      probes["send_to_bus_denied"]++;
      if (m.type == wire::T_CALL) reply_err(c, m, E_ACCESS);
      return;
    }
    if (m.type == wire::T_CALL) driver(c, m);
    // other message types addressed to the bus are ignored; eavesdroppers may see any of them.
    // For a request that itself changes who owns what, ownership-based rules are evaluated on a
    // state the documents do not pin down (before or after the change): copies neither required nor forbidden.
    bool changes_ownership = m.type == wire::T_CALL && (m.member() == "RequestName" || m.member() == "ReleaseName" || m.member() == "Hello" || m.member() == "BecomeMonitor");
    route_matches(c, m, -1, false, changes_ownership && (bool)can_send);
    return;
  }
  if (!m.has_field(wire::F_DESTINATION)) {
    if (m.type == wire::T_SIGNAL) { route(c, m, -1); return; }
    // A non-signal without destination is for the bus itself: never forwarded.  A method call gets
    // exactly one reply or error from the bus (Peer interface or "unknown method").  The reply is
    // produced by the bus's own connection object: fields other than type/reply_serial are not asserted.
    probes["destinationless_nonsignal"]++;
    if (m.type == wire::T_CALL) {
      Exp e;
      e.from_bus = true;
      e.optional = (m.flags & wire::FL_NO_REPLY_EXPECTED) != 0;
      e.m.type = 0;               // "return or error"
      e.m.set_field(wire::F_REPLY_SERIAL, wire::Value::u32(m.serial));
      e.ignore_body = true;
      e.what = "bus-local answer to destination-less call";
      e.prop = "C05";
      emit(c, e);
    }
    return;
  }
  if (m.type < wire::T_CALL || m.type > wire::T_SIGNAL) {
    // "Unknown message types must be ignored": whether the bus forwards such a message, drops it or
    // answers with an error is not specified.  Nothing is required, a forwarded copy and an error are admitted.
    probes["unknown_message_type"]++;
    int R0 = owner_of(dest);
    if (R0 >= 0) {
      Exp e;
      e.m = m;
      e.optional = true;
      e.what = "forwarded message of unknown type";
      e.prop = "C05";
      emit(R0, e);
    }
    Exp x;
    x.from_bus = true;
    x.m = wire::Msg::error(1, m.serial, U(c), E_ACCESS);
    x.m.set_field(wire::F_SENDER, wire::Value::string(BUS));
    x.any_error_name = true;
    x.ignore_body = true;
    x.optional = true;
    x.what = "error for a message of unknown type";
    x.prop = "C05";
    emit(c, x);
    return;
  }
  int R = owner_of(dest);
  if (R < 0 && activatable.count(dest) && !(m.flags & wire::FL_NO_AUTO_START)) {
    // auto-start: the message is held until the service has taken the name (or the start fails)
    activation_join(dest, c, m, false);
    route_matches(c, m, -1, false);     // eavesdroppers may see it now
    return;
  }
  if (R < 0) {
    probes["dest_missing"]++;
    {
      // A method call must earn exactly one error.  For other message types the documents only
      // require that nothing is delivered; an error to the sender is admitted.
      Exp e;
      e.from_bus = true;
      e.m = wire::Msg::error(1, m.serial, U(c), E_UNKNOWN);
      e.m.set_field(wire::F_SENDER, wire::Value::string(BUS));
      e.error_any_of = {E_UNKNOWN, E_NOOWNER};
      e.ignore_body = true;
      // (NO_REPLY_EXPECTED is a hint for the CALLEE; "a method call that cannot be delivered produces exactly one
      // error reply to its sender" - the reference bus reports every dispatch failure whatever the flags)
      e.optional = m.type != wire::T_CALL;
      e.what = "error: destination has no owner";
      e.prop = "C05";
      emit_from_bus(c, e);
    }
    // never delivered to an addressee; eavesdroppers may see it
    route_matches(c, m, -1, false);
    return;
  }
  if (R == c) probes["send_to_self"]++;
  route(c, m, R);
}

// ------------------------------------------------------------------ C19: activation

void Model::activation_join(const std::string &name, int c, const wire::Msg &m, bool start_call) {
  auto it = activations.find(name);
  if (it == activations.end()) {
    Activation a;
    a.started_us = now_us;
    activations[name] = a;
    activation_starts++;
    probes["activation_started"]++;
    it = activations.find(name);
  } else probes["activation_joined_pending"]++;
  it->second.waiters.push_back({c, m, start_call});
}

void Model::activation_complete(const std::string &name, int owner) {
  auto it = activations.find(name);
  if (it == activations.end()) return;
  Activation a = it->second;
  activations.erase(it);
  probes["activation_completed"]++;
  int key = 0;
  for (auto &w : a.waiters) {
    if (w.c < 0 || (size_t)w.c >= conns.size()) continue;
    if (w.start_call) {
      if (conns[(size_t)w.c].alive && !(w.m.flags & wire::FL_NO_REPLY_EXPECTED)) {
        // DBUS_START_REPLY_SUCCESS; not ordered against the name signals of the same event (it may go out when the
        // service record is created, before NameAcquired)
        Exp e;
        e.from_bus = true;
        e.m = wire::Msg::method_return(1, w.m.serial, U(w.c), {wire::Value::u32(1)});
        e.m.set_field(wire::F_SENDER, wire::Value::string(BUS));
        e.what = "reply to StartServiceByName";
        e.prop = "C19";
        emit_from_bus(w.c, e);
      }
      continue;
    }
    if (!conns[(size_t)w.c].alive) { probes["held_message_of_vanished_sender_dropped"]++; continue; }   // the sender has gone: its message goes nowhere
    if (conns[(size_t)w.c].closing) {
      // the sender has closed its socket but the bus has not processed the disconnect yet: whether it still counts
      // as connected when the message is released is a race the documents leave open
      Exp e;
      e.m = w.m;
      e.optional = true;
      e.what = "held message of a sender that is going away";
      e.prop = "C19";
      emit(owner, e);
      route_matches(w.c, w.m, owner, false);   // eavesdroppers may see it as well (their copies are optional anyway)
      probes["held_message_of_closing_sender"]++;
      continue;
    }
    hold_order_key = ++key;
    route(w.c, w.m, owner);
    hold_order_key = 0;
    probes["held_message_released"]++;
  }
  if (key >= 2) probes["several_held_messages_released"]++;
}

void Model::activation_failed(const std::string &name, const char *why) {
  auto it = activations.find(name);
  if (it == activations.end()) return;
  Activation a = it->second;
  activations.erase(it);
  // (the caller opens the event: several activations that time out in one sweep fail in an order the model cannot know)
  probes[std::string("activation_failed_") + why]++;
  if (a.waiters.size() >= 2) probes["activation_failure_several_waiters"]++;
  for (auto &w : a.waiters) {
    if (w.c < 0 || (size_t)w.c >= conns.size() || !conns[(size_t)w.c].alive) continue;
    // exactly one error per waiting method call; for held messages of other types an error is admitted, not required
    Exp e;
    e.from_bus = true;
    e.m = wire::Msg::error(1, w.m.serial, U(w.c), E_UNKNOWN);
    e.m.set_field(wire::F_SENDER, wire::Value::string(BUS));
    e.any_error_name = true;
    e.ignore_body = true;
    e.optional = w.m.type != wire::T_CALL || (w.m.flags & wire::FL_NO_REPLY_EXPECTED) != 0;
    e.what = "error: the service could not be started";
    e.prop = "C19";
    emit_from_bus(w.c, e);
  }
}

std::vector<std::string> Model::overdue_activations() const {
  std::vector<std::string> v;
  for (auto &kv : activations) if (now_us >= kv.second.started_us + service_start_timeout_ms * 1000) v.push_back(kv.first);
  return v;
}

// ------------------------------------------------------------------ matching observed against expected

static bool val_eq(const Model &md, const wire::Value &e, const wire::Value &o) {
  if (e.type != o.type) return false;
  switch (e.type) {
    case 's': case 'o': case 'g': {
      std::string r = md.resolve(e.str);
      if (!r.empty() && r[0] == '\x01') return !o.str.empty() && o.str[0] == ':';   // unbound unique name: any unique name
      return r == o.str;
    }
    case 'a': case 'r': case 'e': case 'v':
      if (e.sig != o.sig || e.kids.size() != o.kids.size()) return false;
      for (size_t i = 0; i < e.kids.size(); i++) if (!val_eq(md, e.kids[i], o.kids[i])) return false;
      return true;
    default:
      return e.u == o.u;
  }
}

static bool name_eq(const Model &md, const std::string &e, const std::string &o) {
  std::string r = md.resolve(e);
  if (!r.empty() && r[0] == '\x01') return !o.empty() && o[0] == ':';
  return r == o;
}

bool satisfies(const Model &md, const Exp &e, const wire::Msg &o, std::string *why) {
  auto no = [&](const std::string &w) { if (why) *why = w; return false; };
  if (e.m.type == 0) {
    if (o.type != wire::T_RETURN && o.type != wire::T_ERROR) return no("type: expected a reply");
  } else if (e.m.type != o.type) return no("type");
  // no field the sender injected may survive
  for (auto &f : o.fields)
    if (f.code >= wire::F_CONTAINER_INSTANCE) return no("C03: unknown or container-instance header field delivered");
  if (!e.any_reply_serial && e.m.reply_serial() != o.reply_serial()) return no("reply_serial");
  if (e.m.type == 0) {
    // a reply the bus produces itself: whatever its form, it must say it comes from the bus
    if (o.sender() != BUS) {
      // listed known finding: replies the bus's own library produces for destination-less calls
      // carry no SENDER (and echo a forged SENDER as DESTINATION)
      if (md.known.count("C03-destinationless-reply-no-sender") && !o.has_field(wire::F_SENDER)) { md.finding_hits["C03-destinationless-reply-no-sender"]++; return true; }
      return no("bus-originated reply carries sender '" + o.sender() + "' instead of org.freedesktop.DBus");
    }
    return true;
  }
  if (e.m.type == wire::T_ERROR) {
    if (!e.any_error_name) {
      if (!e.error_any_of.empty()) {
        if (std::find(e.error_any_of.begin(), e.error_any_of.end(), o.error_name()) == e.error_any_of.end()) return no("error name " + o.error_name());
      } else if (e.m.error_name() != o.error_name()) return no("error name " + o.error_name() + " (expected " + e.m.error_name() + ")");
    }
  } else if (e.m.has_field(wire::F_ERROR_NAME) != o.has_field(wire::F_ERROR_NAME)) return no("error name presence");
  if (e.m.path() != o.path()) return no("path");
  if (e.m.interface() != o.interface()) return no("interface");
  if (e.m.member() != o.member()) return no("member");
  if (!e.any_destination) {
    if (e.m.has_field(wire::F_DESTINATION) != o.has_field(wire::F_DESTINATION)) return no("destination presence");
    if (e.m.has_field(wire::F_DESTINATION) && !name_eq(md, e.m.destination(), o.destination())) return no("destination");
  }
  if (!o.has_field(wire::F_SENDER)) return no("C03: no sender");
  if (!name_eq(md, e.m.sender(), o.sender())) return no("C03: sender is " + o.sender());
  if (!e.from_bus) {
    if (e.m.serial != o.serial) return no("serial");
    if (e.m.flags != o.flags) return no("flags");
    if (e.m.unix_fds() != o.unix_fds()) return no("unix_fds");
  }
  if (e.ignore_body) return true;
  if (e.body_is_name_set) {
    if (o.body.size() != 1 || o.body[0].type != 'a' || o.body[0].sig != "s") return no("body not as");
    std::vector<std::string> want, have;
    size_t wild = 0;
    for (auto &v : e.m.body[0].kids) {
      std::string r = md.resolve(v.str);
      if (!r.empty() && r[0] == '\x01') wild++; else want.push_back(r);
    }
    for (auto &v : o.body[0].kids) have.push_back(v.str);
    for (auto &w : want) {
      auto it = std::find(have.begin(), have.end(), w);
      if (it == have.end()) return no("name list lacks " + w);
      have.erase(it);
    }
    if (have.size() != wild) return no("name list has extra/missing entries");
    for (auto &h : have) if (h.empty() || h[0] != ':') return no("name list has unexpected " + h);
    return true;
  }
  if (e.m.body.size() != o.body.size()) return no("body arity");
  for (size_t i = 0; i < e.m.body.size(); i++)
    if (!val_eq(md, e.m.body[i], o.body[i])) return no("body argument " + std::to_string(i) + ": got " + o.body[i].repr() + " expected " + e.m.body[i].repr());
  return true;
}

}  // namespace bm
