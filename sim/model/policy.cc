// sim/model/policy.cc — see policy.h.  Semantics from doc/dbus-daemon.1.xml.in.
#include "model/policy.h"

#include <algorithm>
#include <functional>
#include <sstream>

namespace pol {

static std::string esc(const std::string &s) {
  std::string o;
  for (char c : s) {
    if (c == '&') o += "&amp;";
    else if (c == '<') o += "&lt;";
    else if (c == '"') o += "&quot;";
    else o += c;
  }
  return o;
}

std::string Rule::xml() const {
  std::string o = allow ? "    <allow" : "    <deny";
  auto attr = [&](const std::string &k, const std::string &v) { o += " " + k + "=\"" + esc(v) + "\""; };
  if (kind == OWN) { attr(own_is_prefix ? "own_prefix" : "own", own); return o + "/>\n"; }
  if (kind == USER) { attr("user", who); return o + "/>\n"; }
  if (kind == GROUP) { attr("group", who); return o + "/>\n"; }
  std::string p = kind == SEND ? "send_" : "receive_";
  if (type.set) attr(p + "type", type.v);
  if (path.set) attr(p + "path", path.v);
  if (interface.set) attr(p + "interface", interface.v);
  if (member.set) attr(p + "member", member.v);
  if (error.set) attr(p + "error", error.v);
  // a rule must carry at least one attribute of its own family, otherwise the parser cannot tell
  // what kind of rule it is (eavesdrop / min_fds / max_fds alone read as a receive rule)
  bool family = type.set || path.set || interface.set || member.set || error.set || peer.set || peer_prefix.set || broadcast >= 0 || requested_reply >= 0;
  if (peer.set) attr(kind == SEND ? "send_destination" : "receive_sender", peer.v);
  else if (star_peer || !family) attr(kind == SEND ? "send_destination" : "receive_sender", "*");
  if (peer_prefix.set) attr("send_destination_prefix", peer_prefix.v);
  if (broadcast >= 0) attr("send_broadcast", broadcast ? "true" : "false");
  if (requested_reply >= 0) attr(p + "requested_reply", requested_reply ? "true" : "false");
  if (eavesdrop >= 0) attr("eavesdrop", eavesdrop ? "true" : "false");
  if (min_fds >= 0) attr("min_fds", std::to_string(min_fds));
  if (max_fds >= 0) attr("max_fds", std::to_string(max_fds));
  return o + "/>\n";
}

std::string Policy::xml() const {
  std::string o;
  for (auto &b : blocks) {
    switch (b.ctx) {
      case Block::DEFAULT: o += "  <policy context=\"default\">\n"; break;
      case Block::MANDATORY: o += "  <policy context=\"mandatory\">\n"; break;
      case Block::USER: o += "  <policy user=\"" + esc(b.who) + "\">\n"; break;
      case Block::GROUP: o += "  <policy group=\"" + esc(b.who) + "\">\n"; break;
      case Block::AT_CONSOLE_TRUE: o += "  <policy at_console=\"true\">\n"; break;
      case Block::AT_CONSOLE_FALSE: o += "  <policy at_console=\"false\">\n"; break;
    }
    for (auto &r : b.rules) o += r.xml();
    o += "  </policy>\n";
  }
  return o;
}

static bool names_user(const std::string &who, const Who &w) {
  return who == w.user || who == std::to_string(w.uid);
}

std::vector<const Rule *> effective_rules(const Policy &p, const Who &w) {
  std::vector<const Rule *> out;
  auto take = [&](Block::Ctx c, const std::function<bool(const Block &)> &pred) {
    for (auto &b : p.blocks)
      if (b.ctx == c && pred(b))
        for (auto &r : b.rules) out.push_back(&r);
  };
  take(Block::DEFAULT, [](const Block &) { return true; });
  // "all group=... policies are applied in undefined order": generators give a connection at most
  // one group that has a policy; if several apply they are taken in the order of the group list
  for (size_t i = 0; i < w.gids.size(); i++)
    take(Block::GROUP, [&](const Block &b) { return b.who == std::to_string(w.gids[i]) || (i < w.groups.size() && !w.groups[i].empty() && b.who == w.groups[i]); });
  take(Block::USER, [&](const Block &b) { return names_user(b.who, w); });
  if (w.at_console) take(Block::AT_CONSOLE_TRUE, [](const Block &) { return true; });
  else take(Block::AT_CONSOLE_FALSE, [](const Block &) { return true; });
  take(Block::MANDATORY, [](const Block &) { return true; });
  return out;
}

static const char *type_name(uint8_t t) {
  switch (t) {
    case wire::T_CALL: return "method_call";
    case wire::T_RETURN: return "method_return";
    case wire::T_SIGNAL: return "signal";
    case wire::T_ERROR: return "error";
    default: return "";
  }
}

static bool prefix_matches(const std::string &prefix, const std::string &name) {
  return name == prefix || (name.size() > prefix.size() && name.compare(0, prefix.size(), prefix) == 0 && name[prefix.size()] == '.');
}

static bool rule_matches_msg(const Rule &r, const MsgFacts &f, bool sending, bool ignore_eavesdrop_attr = false) {
  const wire::Msg &m = *f.m;
  bool is_reply = m.type == wire::T_RETURN || m.type == wire::T_ERROR;
  // requested-reply modifier ("only makes sense for reply messages ... ignored for other message types")
  if (is_reply && m.reply_serial() != 0) {
    if (r.allow) {
      // default true: only requested replies are allowed by the rule; false: any reply.
      // The manual also says the session bus "normally allows sending any message" with
      // <allow send_destination="*" eavesdrop="true"/>: an <allow> with eavesdrop="true" is not
      // restricted to requested replies (the two statements only agree under this reading).
      bool only_requested = r.requested_reply != 0 && r.eavesdrop != 1;
      if (only_requested && !f.requested_reply) return false;
    } else {
      // default false: matches only when the reply was not requested; true: applies always
      bool always = r.requested_reply == 1;
      if (!always && f.requested_reply) return false;
    }
  }
  // eavesdrop modifier
  if (ignore_eavesdrop_attr) {
  } else if (r.allow) {
    if (f.eavesdropping && r.eavesdrop != 1) return false;     // allow rules do not cover eavesdropping unless eavesdrop="true"
  } else {
    if (r.eavesdrop == 1 && !f.eavesdropping) return false;    // deny eavesdrop="true": only when eavesdropping
  }
  if (r.type.set && r.type.v != type_name(m.type)) return false;
  // textual matches.  A rule naming a field the message lacks: the manual describes only the
  // interface case for <deny>; pinned to the long-standing reference behaviour and counted as such:
  //   path / member / error absent  -> the attribute is not tested
  //   interface absent              -> <allow> does not match, <deny> matches
  if (r.path.set && m.has_field(wire::F_PATH) && m.path() != r.path.v) return false;
  if (r.interface.set) {
    if (!m.has_field(wire::F_INTERFACE)) { if (r.allow) return false; }
    else if (m.interface() != r.interface.v) return false;
  }
  if (r.member.set && m.has_field(wire::F_MEMBER) && m.member() != r.member.v) return false;
  if (r.error.set && m.has_field(wire::F_ERROR_NAME) && m.error_name() != r.error.v) return false;
  if (sending && r.broadcast >= 0) {
    bool is_broadcast = m.type == wire::T_SIGNAL && !m.has_field(wire::F_DESTINATION);
    if ((r.broadcast == 1) != is_broadcast) return false;
  }
  if (r.peer.set) {
    // "sent to or received from the *owner* of the given name"
    if (!f.peer_exists) return false;
    if (std::find(f.peer_names.begin(), f.peer_names.end(), r.peer.v) == f.peer_names.end()) return false;
  }
  if (r.peer_prefix.set) {
    if (!f.peer_exists) return false;
    bool any = false;
    for (auto &n : f.peer_names) if (prefix_matches(r.peer_prefix.v, n)) any = true;
    if (!any) return false;
  }
  if (r.min_fds >= 0 && (long)f.nfds < r.min_fds) return false;
  if (r.max_fds >= 0 && (long)f.nfds > r.max_fds) return false;
  return true;
}

static bool decide(const std::vector<const Rule *> &rules, const MsgFacts &f, Rule::Kind kind, bool ignore_ev = false) {
  bool allowed = false;   // nothing is allowed by default
  for (const Rule *r : rules) {
    if (r->kind != kind) continue;
    if (rule_matches_msg(*r, f, kind == Rule::SEND, ignore_ev)) allowed = r->allow;
  }
  return allowed;
}

bool may_send(const std::vector<const Rule *> &rules, const MsgFacts &f, const Opts &o) {
  bool documented = decide(rules, f, Rule::SEND);
  if (!o.send_eavesdrop_ignored) return documented;
  bool reference = decide(rules, f, Rule::SEND, true);
  if (reference != documented && o.hits) (*o.hits)++;
  return reference;
}
bool may_receive(const std::vector<const Rule *> &rules, const MsgFacts &f) { return decide(rules, f, Rule::RECEIVE); }

bool may_own(const std::vector<const Rule *> &rules, const std::string &name) {
  bool allowed = false;
  for (const Rule *r : rules) {
    if (r->kind != Rule::OWN) continue;
    bool m = r->own_is_prefix ? prefix_matches(r->own, name) : (r->own == "*" || r->own == name);
    if (m) allowed = r->allow;
  }
  return allowed;
}

bool may_connect(const Policy &p, const Who &w, unsigned bus_uid) {
  bool allowed = w.uid == bus_uid;
  for (Block::Ctx c : {Block::DEFAULT, Block::MANDATORY})
    for (auto &b : p.blocks) {
      if (b.ctx != c) continue;
      for (auto &r : b.rules) {
        if (r.kind == Rule::USER) {
          if (r.who == "*" || names_user(r.who, w)) allowed = r.allow;
        } else if (r.kind == Rule::GROUP) {
          bool m = r.who == "*";
          for (size_t i = 0; i < w.gids.size(); i++)
            if (r.who == std::to_string(w.gids[i]) || (i < w.groups.size() && !w.groups[i].empty() && r.who == w.groups[i])) m = true;
          if (m) allowed = r.allow;
        }
      }
    }
  return allowed;
}

static void put(std::string &o, const char *k, const Opt &v) { if (v.set) { o += " "; o += k; o += "="; o += v.v; } }
static void puti(std::string &o, const char *k, long v) { if (v >= 0) { o += " "; o += k; o += "="; o += std::to_string(v); } }

std::string encode(const Policy &p) {
  std::string o;
  for (auto &b : p.blocks) {
    o += "B " + std::to_string((int)b.ctx) + " " + (b.who.empty() ? "-" : b.who) + "\n";
    for (auto &r : b.rules) {
      o += std::string("R ") + (r.allow ? "A" : "D") + " " + std::to_string((int)r.kind);
      put(o, "type", r.type); put(o, "path", r.path); put(o, "iface", r.interface); put(o, "member", r.member); put(o, "error", r.error);
      put(o, "peer", r.peer); put(o, "prefix", r.peer_prefix);
      puti(o, "bc", r.broadcast); puti(o, "rr", r.requested_reply); puti(o, "ev", r.eavesdrop); puti(o, "minfd", r.min_fds); puti(o, "maxfd", r.max_fds);
      if (r.star_peer) o += " star=1";
      if (!r.own.empty()) o += " own=" + r.own;
      if (r.own_is_prefix) o += " ownp=1";
      if (!r.who.empty()) o += " who=" + r.who;
      o += "\n";
    }
  }
  return o;
}

bool decode(const std::string &text, Policy *out) {
  Policy p;
  std::istringstream in(text);
  std::string line;
  while (std::getline(in, line)) {
    if (line.empty()) continue;
    std::istringstream ls(line);
    std::string tag;
    ls >> tag;
    if (tag == "B") {
      int c; std::string who;
      ls >> c >> who;
      Block b;
      b.ctx = (Block::Ctx)c;
      b.who = who == "-" ? "" : who;
      p.blocks.push_back(b);
    } else if (tag == "R") {
      if (p.blocks.empty()) return false;
      std::string ad; int kind;
      ls >> ad >> kind;
      Rule r;
      r.allow = ad == "A";
      r.kind = (Rule::Kind)kind;
      std::string kv;
      while (ls >> kv) {
        size_t e = kv.find('=');
        if (e == std::string::npos) return false;
        std::string k = kv.substr(0, e), v = kv.substr(e + 1);
        if (k == "type") r.type = Opt(v); else if (k == "path") r.path = Opt(v); else if (k == "iface") r.interface = Opt(v);
        else if (k == "member") r.member = Opt(v); else if (k == "error") r.error = Opt(v); else if (k == "peer") r.peer = Opt(v);
        else if (k == "prefix") r.peer_prefix = Opt(v); else if (k == "bc") r.broadcast = atoi(v.c_str()); else if (k == "rr") r.requested_reply = atoi(v.c_str());
        else if (k == "ev") r.eavesdrop = atoi(v.c_str()); else if (k == "minfd") r.min_fds = atol(v.c_str()); else if (k == "maxfd") r.max_fds = atol(v.c_str());
        else if (k == "star") r.star_peer = true; else if (k == "own") r.own = v; else if (k == "ownp") r.own_is_prefix = true; else if (k == "who") r.who = v;
        else return false;
      }
      p.blocks.back().rules.push_back(r);
    } else return false;
  }
  *out = p;
  return true;
}

}  // namespace pol
