// sim/model/matchrule.cc — see matchrule.h.  Written from the specification.
#include "model/matchrule.h"

#include <algorithm>

namespace mr {

bool Rule::operator==(const Rule &o) const {
  return has_type == o.has_type && (!has_type || type == o.type) &&
         has_sender == o.has_sender && (!has_sender || sender == o.sender) &&
         has_interface == o.has_interface && (!has_interface || interface == o.interface) &&
         has_member == o.has_member && (!has_member || member == o.member) &&
         has_path == o.has_path && (!has_path || path == o.path) &&
         has_path_namespace == o.has_path_namespace && (!has_path_namespace || path_namespace == o.path_namespace) &&
         has_destination == o.has_destination && (!has_destination || destination == o.destination) &&
         eavesdrop == o.eavesdrop && args == o.args;
}

static bool valid_namespace(const std::string &s) {
  // like a bus name but a single element is enough; elements must not start with a digit
  if (s.empty() || s.size() > 255) return false;
  size_t i = 0;
  while (true) {
    size_t start = i;
    while (i < s.size() && s[i] != '.') {
      char c = s[i];
      bool ok = (c >= 'A' && c <= 'Z') || (c >= 'a' && c <= 'z') || c == '_' || c == '-' || (c >= '0' && c <= '9' && i > start);
      if (!ok) return false;
      i++;
    }
    if (i == start) return false;
    if (i == s.size()) return true;
    i++;  // '.'
    if (i == s.size()) return false;
  }
}

ParseVerdict parse(const std::string &t, Rule *out, std::string *why, bool wellknown_destination_ok) {
  Rule r;
  auto bad = [&](const char *w) { if (why) *why = w; return PV_INVALID; };
  auto unspec = [&](const char *w) { if (why) *why = w; return PV_UNSPECIFIED; };
  if (t.size() > 1024) return unspec("longer than 1024 bytes");
  size_t i = 0, npairs = 0;
  bool soft = false;         // something the specification does not define was seen
  const char *softwhy = "";
  std::vector<std::string> seen;
  while (i < t.size()) {
    // key
    size_t ks = i;
    while (i < t.size() && t[i] != '=' && t[i] != ',') i++;
    if (i == t.size() || t[i] == ',') {
      // no '=': a trailing comma / empty pair / bare word
      std::string k = t.substr(ks, i - ks);
      if (k.find_first_not_of(" \t") == std::string::npos) { soft = true; softwhy = "empty pair or trailing comma"; if (i < t.size()) i++; continue; }
      return bad("key without '='");
    }
    std::string key = t.substr(ks, i - ks);
    i++;  // '='
    if (key.find_first_of(" \t") != std::string::npos) { soft = true; softwhy = "whitespace in key"; }
    // trim (only matters when soft)
    size_t a = key.find_first_not_of(" \t"), b = key.find_last_not_of(" \t");
    key = a == std::string::npos ? "" : key.substr(a, b - a + 1);
    // value with quoting
    std::string val;
    bool inq = false;
    while (i < t.size()) {
      char c = t[i];
      if (inq) {
        if (c == '\'') inq = false; else val += c;
        i++;
      } else if (c == '\'') { inq = true; i++; }
      else if (c == '\\') {
        if (i + 1 < t.size() && t[i + 1] == '\'') { val += '\''; i += 2; }
        else { val += '\\'; i++; }
      } else if (c == ',') break;
      else { val += c; i++; }
    }
    if (inq) return bad("unterminated quote");
    if (i < t.size()) i++;  // ','
    npairs++;
    if (std::find(seen.begin(), seen.end(), key) != seen.end()) { soft = true; softwhy = "key given twice"; }
    seen.push_back(key);
    if (key == "type") {
      r.has_type = true;
      if (val == "signal") r.type = wire::T_SIGNAL;
      else if (val == "method_call") r.type = wire::T_CALL;
      else if (val == "method_return") r.type = wire::T_RETURN;
      else if (val == "error") r.type = wire::T_ERROR;
      else return bad("unknown type");
    } else if (key == "sender") {
      if (!wire::valid_bus_name(val)) return bad("sender not a bus name");
      r.has_sender = true; r.sender = val;
    } else if (key == "interface") {
      if (!wire::valid_interface(val)) return bad("bad interface");
      r.has_interface = true; r.interface = val;
    } else if (key == "member") {
      if (!wire::valid_member(val)) return bad("bad member");
      r.has_member = true; r.member = val;
    } else if (key == "path") {
      if (!wire::valid_path(val)) return bad("bad path");
      r.has_path = true; r.path = val;
    } else if (key == "path_namespace") {
      if (!wire::valid_path(val)) return bad("bad path_namespace");
      r.has_path_namespace = true; r.path_namespace = val;
    } else if (key == "destination") {
      if (!wire::valid_bus_name(val)) return bad("destination not a bus name");
      if (!wire::valid_unique_name(val) && !wellknown_destination_ok) { soft = true; softwhy = "destination is not a unique name"; }
      r.has_destination = true; r.destination = val;
    } else if (key == "eavesdrop") {
      if (val == "true") r.eavesdrop = true;
      else if (val == "false") r.eavesdrop = false;
      else return bad("eavesdrop not true/false");
      r.has_eavesdrop = true;
    } else if (key.compare(0, 3, "arg") == 0) {
      size_t p = 3;
      if (p >= key.size() || key[p] < '0' || key[p] > '9') return bad("arg without number");
      unsigned long n = 0;
      size_t digits = 0;
      while (p < key.size() && key[p] >= '0' && key[p] <= '9') { n = n * 10 + (unsigned long)(key[p] - '0'); p++; digits++; if (n > 100000) return bad("arg number too large"); }
      if (digits > 1 && key[3] == '0') { soft = true; softwhy = "arg number with leading zero"; }
      std::string suffix = key.substr(p);
      ArgMatch am;
      if (suffix.empty()) am.kind = ArgMatch::EXACT;
      else if (suffix == "path") am.kind = ArgMatch::PATH;
      else if (suffix == "namespace") {
        if (n != 0) return bad("only arg0namespace exists");
        am.kind = ArgMatch::NAMESPACE;
        if (!valid_namespace(val)) return bad("arg0namespace value not a bus-name prefix");
      } else return bad("unknown arg key suffix");
      if (n > 63) return bad("arg index above 63");
      am.n = (int)n;
      am.value = val;
      for (auto &x : r.args) if (x.n == am.n) { soft = true; softwhy = "same argument index matched twice"; }
      if (!wire::valid_utf8(val)) return bad("arg value not UTF-8");
      r.args.push_back(am);
    } else {
      return bad("unknown key");
    }
  }
  if (r.has_path && r.has_path_namespace) return bad("path and path_namespace together");
  if (npairs > 16) { soft = true; softwhy = "more than 16 keys"; }
  std::sort(r.args.begin(), r.args.end(), [](const ArgMatch &x, const ArgMatch &y) { return x.n < y.n; });
  if (soft) return unspec(softwhy);
  *out = r;
  return PV_VALID;
}

static bool starts_with(const std::string &s, const std::string &p) { return s.size() >= p.size() && s.compare(0, p.size(), p) == 0; }

bool matches(const Rule &r, const wire::Msg &m, const MatchCtx &ctx, bool eavesdropping) {
  if (eavesdropping && !r.eavesdrop) return false;
  if (r.has_type && m.type != r.type) return false;
  if (r.has_interface && (!m.has_field(wire::F_INTERFACE) || m.interface() != r.interface)) return false;
  if (r.has_member && (!m.has_field(wire::F_MEMBER) || m.member() != r.member)) return false;
  if (r.has_path && (!m.has_field(wire::F_PATH) || m.path() != r.path)) return false;
  if (r.has_path_namespace) {
    if (!m.has_field(wire::F_PATH)) return false;
    const std::string &p = r.path_namespace;
    std::string mp = m.path();
    if (!(mp == p || p == "/" || starts_with(mp, p + "/"))) return false;
  }
  if (r.has_sender && !(ctx.sender_is && ctx.sender_is(r.sender))) return false;
  if (r.has_destination) {
    if (!m.has_field(wire::F_DESTINATION)) return false;
    if (ctx.has_addressed) { if (!ctx.addressed_is(r.destination)) return false; }
    else if (m.destination() != r.destination) return false;
  }
  for (auto &a : r.args) {
    if ((size_t)a.n >= m.body.size()) return false;
    const wire::Value &v = m.body[(size_t)a.n];
    if (a.kind == ArgMatch::EXACT) {
      if (v.type != 's' || v.str != a.value) return false;
    } else if (a.kind == ArgMatch::PATH) {
      if (v.type != 's' && v.type != 'o') return false;
      const std::string &x = v.str, &w = a.value;
      bool ok = x == w || (!x.empty() && x.back() == '/' && starts_with(w, x)) || (!w.empty() && w.back() == '/' && starts_with(x, w));
      if (!ok) return false;
    } else {
      if (v.type != 's') return false;
      if (!(v.str == a.value || starts_with(v.str, a.value + "."))) return false;
    }
  }
  return true;
}

}  // namespace mr
