// sim/model/matchrule.h — reference parser and matcher for match rules
// (D-Bus specification, "Match Rules").  Independent of bus/signals.c.
#pragma once
#include <functional>
#include <map>
#include <string>
#include <vector>

#include "codec/wire.h"

namespace mr {

struct ArgMatch {
  int n = 0;
  enum Kind { EXACT, PATH, NAMESPACE } kind = EXACT;
  std::string value;
  bool operator==(const ArgMatch &o) const { return n == o.n && kind == o.kind && value == o.value; }
};

struct Rule {
  bool has_type = false; uint8_t type = 0;
  bool has_sender = false; std::string sender;
  bool has_interface = false; std::string interface;
  bool has_member = false; std::string member;
  bool has_path = false; std::string path;
  bool has_path_namespace = false; std::string path_namespace;
  bool has_destination = false; std::string destination;
  bool eavesdrop = false; bool has_eavesdrop = false;
  std::vector<ArgMatch> args;      // sorted by n
  // Equality as RemoveMatch needs it: same keys, same values.
  bool operator==(const Rule &o) const;
};

enum ParseVerdict {
  PV_VALID,
  PV_INVALID,
  PV_UNSPECIFIED   // the specification does not say (e.g. more keys than an implementation limit); caller treats as a choice point
};

// Parse per the specification's grammar and quoting rules.
// wellknown_destination_ok: a destination key naming a well-known name is taken as specified (pinned for monitor
// filters: it matches what the addressee owns, or the DESTINATION header when there is no addressee)
ParseVerdict parse(const std::string &text, Rule *out, std::string *why, bool wellknown_destination_ok = false);

// Facts about the message being matched that are not in the message itself.
struct MatchCtx {
  // does the *sender connection* own `name` as primary owner (or is `name` its unique name,
  // or is the sender the bus itself and name == org.freedesktop.DBus)?
  std::function<bool(const std::string &name)> sender_is;
  // does the *addressed recipient connection* own `name` (primary) / have it as unique name?
  // (no addressed recipient: compare with the message's destination field)
  std::function<bool(const std::string &name)> addressed_is;
  bool has_addressed = false;
};

// Does `r` match message `m`?  Eavesdrop semantics (unicast to someone else
// only with eavesdrop='true') are applied by the caller via `is_eavesdropping`.
bool matches(const Rule &r, const wire::Msg &m, const MatchCtx &ctx, bool is_eavesdropping);

}  // namespace mr
