// sim/model/busmodel.h — executable reference model of the message bus,
// written from doc/dbus-specification.xml ("Message Bus Specification") and
// doc/dbus-daemon.1.xml.in.  Stepped in the order the bus processes messages
// (probe H2); predicts, per recipient, what must arrive.  See DESIGN.md
// appendices A, B, F, H.
#pragma once
#include <deque>
#include <functional>
#include <map>
#include <set>
#include <string>
#include <vector>

#include "codec/wire.h"
#include "model/matchrule.h"

namespace bm {

// Symbolic unique name of connection i: "\x01<i>".  Resolved through Model::uniq.
std::string U(int i);
extern const char *BUS;   // "org.freedesktop.DBus"

struct Exp {                       // one expected delivery
  bool from_bus = false;           // bus-originated (serial unknown, flags not compared)
  wire::Msg m;                     // expected content; strings may be symbolic unique names
  bool any_error_name = false;     // error name not fixed by the documents
  std::vector<std::string> error_any_of;   // if non-empty: one of these
  bool ignore_body = false;        // e.g. human-readable error text
  bool any_reply_serial = false;   // reply to a bus-originated message whose serial the model cannot know
  bool any_destination = false;    // addressee has no unique name yet: DESTINATION not fixed by the documents
  bool body_is_name_set = false;   // body = one 'as' compared as a set (ListNames)
  bool last = false;               // a reply: must arrive after every `pre` item of its group
  bool pre = false;                // a signal addressed to the requester: must precede its reply
  bool optional = false;           // documents allow it to be present or absent
  int order_key = 0;               // > 0: items of one group with keys must arrive in increasing key order (held messages, C19)
  std::string what;                // for reports
  std::string finding;             // non-empty: this item exists only because of a listed known finding; matching it counts a hit
  std::string prop;                // property whose statement this expectation comes from (C03, C04, ...)
};

struct Group {                     // everything one processed event makes one recipient receive
  uint64_t event = 0;
  std::vector<Exp> items;
};

struct QEntry { int c; bool allow_replacement; bool do_not_queue; };

struct PendingReply { int caller; int callee; uint32_t serial; int64_t deadline_us; bool doomed = false; /* callee gone: the bus will expire it at once */ };

struct Conn {
  bool exists = false;             // connect step happened
  bool alive = false;              // bus has not processed its disconnect yet
  bool hello = false;
  bool expect_closed = false;      // model says the bus must have closed / will close it
  std::string close_prop = "C18";  // property that demands it
  bool monitor = false;
  bool closing = false;            // the client has closed its socket; the bus may or may not have noticed yet
  bool unchecked = false;          // its own incoming stream is no longer predicted (documents silent)
  unsigned uid = 0, pid = 0;
  std::vector<unsigned> gids;
  bool fdpass = false;
  std::vector<mr::Rule> rules;
  std::vector<mr::Rule> mon_rules; // filter of a monitor (empty list never happens: no rules given = one match-all rule)
  std::vector<std::string> rule_texts;
  std::vector<bool> rule_doomed;   // names a unique name that has disconnected: can never match again
  uint64_t processed = 0;          // messages of this connection processed so far
};

struct Limits {
  long max_names_per_connection = 50000;      // daemon defaults are far away; set when configured
  long max_match_rules_per_connection = 50000;
  long max_replies_per_connection = 50000;
  long max_completed_connections = 50000;
  long max_connections_per_user = 50000;
  int64_t reply_timeout_ms = -1;
};

// Outcome the model wants the harness to look at with the white-box accessor
// when the documents leave the result open (DESIGN 3.7 "choice points").
struct Choice {
  std::string name;                // queue name concerned
  std::string id;                  // which choice point
  std::vector<std::vector<int>> admissible;   // admissible queue orders (connection indices)
  int conn = -1;                   // for rule-count choices: the connection whose rules are concerned
  std::vector<size_t> rule_idx;    // rules that may have been dropped
};

class Model {
 public:
  std::vector<Conn> conns;
  std::vector<std::string> uniq;                        // bound unique names ("" = not observed yet)
  std::map<std::string, std::vector<QEntry>> names;     // well-known names: queue, head = primary owner
  std::vector<std::deque<Group>> exp;                   // per recipient
  std::vector<std::vector<Exp>> floating;               // per recipient: must arrive by the next quiescent point, position free
  std::vector<PendingReply> pending;
  Limits lim;
  int becoming_monitor = -1;                             // connection whose BecomeMonitor is being processed right now
  unsigned bus_uid = 0;                                  // uid the bus runs as
  uint64_t event = 0;
  int64_t now_us = 0;
  std::map<std::string, uint64_t> probes;               // rare-branch counters
  std::set<std::string> known;                          // ids of listed known findings (known_findings.json, status=finding)
  mutable std::map<std::string, uint64_t> finding_hits; // how often each listed finding was observed in this run
  std::vector<Choice> open_choices;                     // to be resolved by the harness right after the event
  std::set<std::string> activatable;                    // names with a service file (C19)
  // configuration reload (C14's "parsing ... a configuration file"): what ReloadConfig switches to, if the
  // harness has put a different file in place; cfg_gen tells the harness' policy hooks which rule set is in force
  bool has_next_cfg = false;
  Limits lim_next;
  std::set<std::string> activatable_next;
  std::map<std::string, std::set<std::string>> act_env;   // every value a client ever stored per activation-environment variable (C19)
  int dying_addressee = -1;           // set while the NameLost for a departing connection's unique name is emitted
  int cfg_gen = 0;
  bool cfg_unspecified = false;       // between a half-done reload (listed finding) and its retry
  // C19: a pending activation: who waits, in arrival order
  struct Waiter { int c; wire::Msg m; bool start_call; /* StartServiceByName (answered by the bus) vs a held message (delivered to the service) */ };
  struct Activation { std::vector<Waiter> waiters; int64_t started_us = 0; };
  std::map<std::string, Activation> activations;        // name -> pending activation
  uint64_t activation_starts = 0;                       // how many times a service program had to be started
  int64_t service_start_timeout_ms = 25000;
  int hold_order_key = 0;                               // set while held messages are being released (orders them for the recipient)
  void activation_failed(const std::string &name, const char *why);    // the started process failed / exited / timed out: every waiter gets one error
  std::vector<std::string> overdue_activations() const;

  // policy plug-in points (default: allow).  See model/policy.h for the real evaluator.
  std::function<bool(int sender, const wire::Msg &m, int recipient /* -1 = bus */, int addressed, bool requested_reply)> can_send;
  std::function<bool(int sender /* -1 = bus */, const wire::Msg &m, int recipient, int addressed, bool requested_reply)> can_receive;
  std::function<bool(int c, const std::string &name)> can_own;
  // white-box: is the recipient's outgoing queue in the bus over max_outgoing_bytes right now?  (unset: never)
  std::function<bool(int recipient)> queue_full;
  bool multi_txn = false;                // the event being modelled is carried out in several transactions (a disconnect)
  std::map<int, int> emitted_in_event;   // recipient -> bus-originated messages already predicted in this multi-transaction event

  void connect(int c, unsigned uid, unsigned pid, const std::vector<unsigned> &gids, bool fdpass);
  // H2: the bus starts processing message m from connection c
  void process(int c, const wire::Msg &m);
  // H2 with the Local.Disconnected pseudo-message
  void disconnect(int c);
  // probe H2c: the bus expired the reply slot (caller, callee, serial) and sent NoReply
  void reply_expired(int caller, int callee, uint32_t serial);
  // slots whose deadline has passed (the bus must expire them once its loop runs)
  std::vector<PendingReply> overdue() const;
  void doom_slots_of(int callee, const char *why);
  // a white-box observation resolves an open choice: the actual queue order
  void resolve_choice(const std::string &name, const std::vector<int> &actual_order);
  // rules naming a unique name that went away: dropped (true) or kept (false)
  void resolve_rule_choice(int conn, const std::vector<size_t> &idx, bool dropped);

  // helpers used by oracles
  int owner_of(const std::string &name) const;          // -1 none; unique names resolve via uniq / symbolic
  bool is_unique_of(const std::string &name, int c) const;
  int conn_by_unique(const std::string &name) const;
  std::vector<std::string> all_names_symbolic() const;  // ListNames expectation
  std::string resolve(const std::string &s) const;      // symbolic -> bound text (or unchanged)
  uint64_t state_signature() const;                     // abstract state hash (for reach statistics)

 private:
  void emit(int recipient, Exp e);
  void emit_floating(int recipient, Exp e);
  // every monitor whose filter matches gets one copy (before any policy decision)
  void capture(int sender, const wire::Msg &m, int addressed, bool optional = false, bool floating = false);
  void capture_loose(const Exp &orig, int addressed, bool floating = false);
  void monitors_may_see_refusal(int sender, const wire::Msg &m, const char *errname = nullptr);
  int bus_may_deliver(int recipient, const wire::Msg &m);   // 0 no, 1 yes, 2 not determined (queue may have filled meanwhile)   // receive policy of the recipient for a bus-originated message
  void emit_from_bus(int recipient, Exp e, bool floating = false);
  void emit_broadcast_from_bus(const wire::Msg &sig);
  void route(int c, const wire::Msg &m, int addressed);
  void route_matches(int sender, const wire::Msg &m, int addressed, bool requested, bool policy_lenient = false);
  void driver(int c, const wire::Msg &m);
  void become_monitor(int c, const wire::Msg &m);
  void doom_rules_naming(int c);
  void activation_join(const std::string &name, int c, const wire::Msg &m, bool start_call);
  void activation_complete(const std::string &name, int owner);
  void reply_ok(int c, const wire::Msg &call, std::vector<wire::Value> body, bool name_set = false);
  void reply_err(int c, const wire::Msg &call, const std::string &name, std::vector<std::string> any_of = {});
  void name_owner_changed(const std::string &name, const std::string &old_o, const std::string &new_o);
  void name_signal(int c, const char *member, const std::string &name);
  void release_entry(int c, const std::string &name, bool from_disconnect);
  bool rule_matches_any(int rc, const wire::Msg &m, int sender, int addressed, bool eavesdropping);
  mr::MatchCtx ctx_for(int sender, int addressed, const wire::Msg &m);
};

// Does observed message `o` satisfy expectation `e` under the model's name bindings?
// On mismatch *why says what differs.
bool satisfies(const Model &md, const Exp &e, const wire::Msg &o, std::string *why);

}  // namespace bm
