// sim/harness/exec.cc — deterministic executor of simbus plans + oracle comparison.
#include <stdio.h>
#include <stdlib.h>
#include <string.h>

#include <algorithm>
#include <set>

#include "codec/wire.h"
#include "core/core.h"
#include "harness/busworld.h"
#include "harness/checks.h"
#include "harness/exec.h"

#include <sys/mman.h>
#include <sys/stat.h>
#include "kernel/kernel.h"
#include "model/busmodel.h"

extern "C" {
#include <dbus/dbus.h>
}

using core::fail;
using core::Step;
using simk::K;

namespace checks {

// ------------------------------------------------------------------ literals

wire::Value random_value(simk::Rng &r, int depth) {
  int k = (int)r.below(depth > 2 ? 9 : 13);
  switch (k) {
    case 0: return wire::Value::byte((uint8_t)r.next());
    case 1: return wire::Value::boolean(r.pct(50));
    case 2: return wire::Value::i16((int16_t)r.next());
    case 3: return wire::Value::u32((uint32_t)r.next());
    case 4: return wire::Value::i64((int64_t)r.next());
    case 5: return wire::Value::dbl_bits(r.next());
    case 6: { std::string s; int n = (int)r.below(12); for (int i = 0; i < n; i++) s += (char)('a' + r.below(26)); return wire::Value::string(s); }
    case 7: return wire::Value::path(r.pct(30) ? "/" : "/p/q" + std::to_string(r.below(100)));
    case 8: return wire::Value::sigval(r.pct(50) ? "a{sv}" : "i");
    case 9: {
      static const char *elems[] = {"y", "n", "u", "x", "s", "(yx)", "as", "v"};
      std::string es = elems[r.below(8)];
      std::vector<wire::Value> v;
      int n = (int)r.below(4);
      for (int i = 0; i < n; i++) {
        if (es == "y") v.push_back(wire::Value::byte((uint8_t)r.next()));
        else if (es == "n") v.push_back(wire::Value::i16((int16_t)r.next()));
        else if (es == "u") v.push_back(wire::Value::u32((uint32_t)r.next()));
        else if (es == "x") v.push_back(wire::Value::i64((int64_t)r.next()));
        else if (es == "s") v.push_back(wire::Value::string("e" + std::to_string(r.below(1000))));
        else if (es == "(yx)") v.push_back(wire::Value::strukt({wire::Value::byte((uint8_t)r.next()), wire::Value::i64((int64_t)r.next())}));
        else if (es == "as") v.push_back(wire::Value::array("s", {wire::Value::string("z")}));
        else v.push_back(wire::Value::variant(wire::Value::u32((uint32_t)r.next())));
      }
      return wire::Value::array(es, v);
    }
    case 10: return wire::Value::strukt({random_value(r, depth + 1), random_value(r, depth + 1)});
    case 11: return wire::Value::variant(random_value(r, depth + 1));
    default: {
      std::vector<wire::Value> es;
      int n = (int)r.below(3);
      for (int i = 0; i < n; i++) es.push_back(wire::Value::dict_entry(wire::Value::string("k" + std::to_string(i)), wire::Value::variant(wire::Value::i32((int32_t)r.next()))));
      return wire::Value::array("{sv}", es);
    }
  }
}

// "s:text" "o:/p" "u:5" "i:-3" "b:1" "y:7" "g:ai" "x:9" "t:9" "as:a,b" "r:<seed>" (random value)
bool parse_literal(const std::string &lit, wire::Value *out) {
  size_t p = lit.find(':');
  if (p == std::string::npos) return false;
  std::string t = lit.substr(0, p), v = lit.substr(p + 1);
  if (t == "s") *out = wire::Value::string(v);
  else if (t == "o") *out = wire::Value::path(v);
  else if (t == "g") *out = wire::Value::sigval(v);
  else if (t == "u") *out = wire::Value::u32((uint32_t)strtoul(v.c_str(), nullptr, 10));
  else if (t == "i") *out = wire::Value::i32((int32_t)strtol(v.c_str(), nullptr, 10));
  else if (t == "b") *out = wire::Value::boolean(v == "1");
  else if (t == "y") *out = wire::Value::byte((uint8_t)strtoul(v.c_str(), nullptr, 10));
  else if (t == "x") *out = wire::Value::i64((int64_t)strtoll(v.c_str(), nullptr, 10));
  else if (t == "t") *out = wire::Value::u64((uint64_t)strtoull(v.c_str(), nullptr, 10));
  else if (t == "as") {
    std::vector<wire::Value> el;
    size_t i = 0;
    while (i <= v.size() && !v.empty()) {
      size_t j = v.find(',', i);
      if (j == std::string::npos) j = v.size();
      el.push_back(wire::Value::string(v.substr(i, j - i)));
      i = j + 1;
    }
    *out = wire::Value::array("s", el);
  } else if (t == "r") {
    simk::Rng r(strtoull(v.c_str(), nullptr, 10));
    *out = random_value(r, 0);
  } else return false;
  return true;
}

simk::IoProfile profile_from(const Step &s, size_t first) {
  simk::IoProfile p;
  p.short_read_pct = (unsigned)s.N(first + 0);
  p.one_byte_read_pct = (unsigned)s.N(first + 1);
  p.short_write_pct = (unsigned)s.N(first + 2);
  p.one_byte_write_pct = (unsigned)s.N(first + 3);
  p.eagain_read_pct = (unsigned)s.N(first + 4);
  p.eagain_write_pct = (unsigned)s.N(first + 5);
  p.eintr_pct = (unsigned)s.N(first + 6);
  p.poll_subset_pct = (unsigned)s.N(first + 7);
  p.accept_eagain_pct = (unsigned)s.N(first + 8);
  p.sys_err_pct = (unsigned)s.N(first + 9);
  return p;
}

// ------------------------------------------------------------------ Exec

Exec::Exec(const core::Plan &p, bool log) : plan(p), w(tr, p.seed) {
  tr.reset(log);
  // listed known findings (the driver passes the ids from known_findings.json)
  if (const char *kn = getenv("SIM_KNOWN")) {
    std::string s = kn;
    size_t i = 0;
    while (i <= s.size()) {
      size_t j = s.find(',', i);
      if (j == std::string::npos) j = s.size();
      if (j > i) md.known.insert(s.substr(i, j - i));
      i = j + 1;
    }
  }
}

int Exec::pick(int a) const {
  if (w.clients.empty()) return -1;
  int n = (int)w.clients.size();
  return ((a % n) + n) % n;
}

std::string Exec::resolve_name(const std::string &s) {
  if (s == "$bus") return bm::BUS;
  if (s.size() >= 3 && s[0] == '$' && s[1] == 'u') {
    // "$uK": the unique name of client K; "$uK+tail": that name with tail appended (a near miss: ":1.1" -> ":1.10"),
    // "$uK-": with its last character removed
    int k = pick(atoi(s.c_str() + 2));
    std::string base = (k < 0 || w.C(k).unique.empty()) ? std::string(":0.0") : w.C(k).unique;
    size_t plus = s.find('+');
    if (plus != std::string::npos) return base + s.substr(plus + 1);
    if (s.back() == '-' && base.size() > 3 && base[base.size() - 2] != '.') return base.substr(0, base.size() - 1);   // (stays a valid name)
    return base;
  }
  return s;
}

void Exec::note(const std::string &s) {
  if (hist.size() < 3000) { hist += s; hist += ' '; }
}

void Exec::on_dispatch(int ci, DBusConnection *conn, DBusMessage *msg) {
  (void)conn;
  // the previous event is complete now: read what it left open before anything else changes
  resolve_choices();
  if (ci < 0) return;
  if (dbus_message_is_signal(msg, "org.freedesktop.DBus.Local", "Disconnected")) {
    tr.ev("H2 c%d disconnected", ci);
    md.now_us = K->now_us;
    {
      // the bus drops a connection only for a reason: the client closed, or it earned it
      bw::Client &dc = w.C(ci);
      bm::Conn &dk = md.conns[(size_t)ci];
      // (a connection whose Hello was processed only after auth_timeout had run out races with the expiry of
      // unfinished connections in the same loop iteration: the bus may legitimately have closed it already)
      bool completed_late = lim_cfg.auth_timeout >= 0 && w.accept_time_us.count(ci) && hello_done_us.count(ci) &&
                            hello_done_us[ci] - w.accept_time_us[ci] >= lim_cfg.auth_timeout * 1000;
      if (!dc.closed && !dc.hostile && !dk.expect_closed && !dk.unchecked && dk.alive && dk.hello && !completed_late && !fd_surplus.count(ci) && !fd_surplus_sent.count(ci) && !tainted && plan.C("oom.k", -1) < 0 && !oom_armed)
        fail("oracle:C10:unexpected-disconnect", "the bus disconnected well-behaved client c%d", ci);
    }
    md.disconnect(ci);
    after_event();
    return;
  }
  bw::Client &c = w.C(ci);
  uint32_t serial = dbus_message_get_serial(msg);
  tr.ev("H2 c%d serial=%u", ci, serial);
  md.now_us = K->now_us;
  if (c.hostile && c.hostile_lost_sync) return;
  if (c.hostile) {
    // A byte-level client: what it really wrote is its wire stream.  The next message the bus
    // dispatches must be the next complete VALID message of that stream (independent codec).
    wire::Limits wl;
    if (lim_cfg.max_message_size >= 0) wl.max_message_size = (uint32_t)lim_cfg.max_message_size;
    wl.max_unix_fds_available = 0;
    wire::ParseResult r = wire::parse(c.wire_stream.substr(c.wire_pos), wl);
    if (r.status != wire::P_OK) {
      std::string known = known_validator_gap(c.wire_stream.substr(c.wire_pos), r.reason);
      if (!known.empty()) { counters["finding:" + known]++; c.hostile_lost_sync = true; tainted = true; return; }
      fail("oracle:C10:invalid-message-dispatched", "the bus dispatched a message (serial %u) from c%d although its byte stream at offset %zu is %s (%s)",
           serial, ci, c.wire_pos, r.status == wire::P_INVALID ? "an invalid message" : "incomplete", r.reason.c_str());
    }
    if (r.msg.serial != serial)
      fail("oracle:C10:invalid-message-dispatched", "the bus dispatched serial %u from c%d, the next message in its byte stream has serial %u", serial, ci, r.msg.serial);
    c.wire_pos += r.total_len;
    md.process(ci, r.msg);
    after_event();
    return;
  }
  size_t &cur = next_sent[(size_t)ci];
  if (oom_retry_possible && cur > 0 && c.sent[cur - 1].m.serial == serial && (cur >= c.sent.size() || c.sent[cur].m.serial != serial)) {
    // the same message again after an injected allocation failure: a retry, not a new message
    counters["h2_retry_after_oom"]++;
    return;
  }
  if (cur >= c.sent.size())
    fail("oracle:C05:phantom-message", "the bus processed a message (serial %u) from c%d that c%d never sent", serial, ci, ci);
  const bw::Sent &s = c.sent[cur];
  if (s.m.serial != serial)
    fail("oracle:C05:sender-order", "the bus processed c%d's messages out of order: got serial %u, next sent was %u", ci, serial, s.m.serial);
  cur++;
  c.wire_pos = s.end_off_stream;
  bool was_hello = md.conns[(size_t)ci].hello;
  if (fd_surplus_sent.count(ci) && fd_surplus_sent[ci] == serial && !fd_surplus.count(ci)) fd_surplus[ci] = K->now_us;   // the bus holds the surplus from now on
  md.process(ci, s.m);
  if (!was_hello && md.conns[(size_t)ci].hello) hello_done_us[ci] = K->now_us;
  after_event();
}

void Exec::after_event() {
  states.push_back(md.state_signature());
  // white-box invariant: a name never has two primary owners — structurally true of a queue;
  // what can be checked is that every open choice is resolved within the admissible set
  for (size_t i = 0; i < md.open_choices.size();) {
    bm::Choice ch = md.open_choices[i];
    pending_choices.push_back(ch);
    md.open_choices.erase(md.open_choices.begin() + (long)i);
  }
}

// Is this rejected-by-the-codec message one of the listed validator findings (ids in known_findings.json)?
std::string Exec::known_validator_gap(const std::string &bytes, const std::string &reason) {
  // the two listed validator findings, by their exact condition (see libstream.cc known_gap)
  wire::Limits lim;
  if (lim_cfg.max_message_size >= 0) lim.max_message_size = (uint32_t)lim_cfg.max_message_size;
  lim.max_unix_fds_available = 0;
  wire::ParseResult r = wire::parse(reinterpret_cast<const uint8_t *>(bytes.data()), bytes.size(), lim);
  std::string one = (r.total_len > 0 && r.total_len <= bytes.size()) ? bytes.substr(0, r.total_len) : bytes;
  if ((reason == "sig" || reason == "variant-sig" || reason == "field-sig") && md.known.count("C01-signature-nesting-or-brackets") && wire::valid_if_relaxed(one, 1, lim)) return "C01-signature-nesting-or-brackets";
  if ((reason == "field-value" || reason == "name") && md.known.count("C01-unique-name-without-period") && wire::valid_if_relaxed(one, 2, lim)) return "C01-unique-name-without-period";
  return "";
}

// C13, white-box: at every step the counters the limits speak about are within the limits
void Exec::check_limits_whitebox() {
  if (!w.bus_running()) return;
  if (md.cfg_gen != 0 && !lim_cfg_reloaded) {
    // the reloaded limits govern from here on; what connections already hold stays, so a limit that was lowered
    // can legitimately be exceeded by earlier holdings: its counting invariant is switched off (refusals of new
    // requests are still predicted by the model), raised or unchanged limits keep theirs
    lim_cfg_reloaded = true;
    auto sw = [](long &cur, long nxt) { cur = (cur >= 0 && (nxt < 0 || nxt >= cur)) ? nxt : -1; };
    sw(lim_cfg.max_completed_connections, lim2_cfg.max_completed_connections);
    sw(lim_cfg.max_names_per_connection, lim2_cfg.max_names_per_connection);
    sw(lim_cfg.max_match_rules_per_connection, lim2_cfg.max_match_rules_per_connection);
    sw(lim_cfg.max_connections_per_user, lim2_cfg.max_connections_per_user);
    counters["probe:limits_reloaded"]++;
  }
  if (lim_cfg.max_completed_connections >= 0 && w.n_active() > lim_cfg.max_completed_connections)
    fail("oracle:C13:active-connections", "%d registered connections with max_completed_connections=%ld", w.n_active(), lim_cfg.max_completed_connections);
  if (lim_cfg.max_incomplete_connections >= 0 && w.n_incomplete() > lim_cfg.max_incomplete_connections)
    fail("oracle:C13:incomplete-connections", "%d incomplete connections with max_incomplete_connections=%ld", w.n_incomplete(), lim_cfg.max_incomplete_connections);
  std::map<unsigned, long> per_uid;
  for (size_t i = 0; i < w.clients.size(); i++) {
    int names = w.names_owned((int)i), rules = w.rule_count((int)i);
    if (names >= 0 && lim_cfg.max_names_per_connection >= 0 && names > lim_cfg.max_names_per_connection)
      fail("oracle:C13:names", "c%zu holds %d names with max_names_per_connection=%ld", i, names, lim_cfg.max_names_per_connection);
    if (rules >= 0 && lim_cfg.max_match_rules_per_connection >= 0 && rules > lim_cfg.max_match_rules_per_connection)
      fail("oracle:C13:rules", "c%zu holds %d match rules with max_match_rules_per_connection=%ld", i, rules, lim_cfg.max_match_rules_per_connection);
    if (!w.bus_side_name((int)i).empty()) per_uid[w.C((int)i).creds.uid]++;
  }
  if (lim_cfg.max_connections_per_user >= 0)
    for (auto &kv : per_uid)
      if (kv.second > lim_cfg.max_connections_per_user)
        fail("oracle:C13:per-user", "uid %u has %ld registered connections with max_connections_per_user=%ld", kv.first, kv.second, lim_cfg.max_connections_per_user);
  counters["limit_invariant_checks"]++;
}

void Exec::connect_step(const Step &s) {
  simk::Creds cr;
  cr.uid = (unsigned)s.N(0, 0);
  cr.gid = (unsigned)s.N(1, 0);
  cr.pid = (int)s.N(2, 1000 + (int)w.clients.size());
  cr.groups.push_back(cr.gid);
  for (size_t i = 5; i < s.n.size(); i++) cr.groups.push_back((unsigned)s.n[i]);
  int ci = w.add_client(cr);
  if (s.N(4, 0) > 0) w.C(ci).end->rxcap = (size_t)s.N(4);
  next_sent.resize(w.clients.size(), 0);
  answered.resize(w.clients.size());
  fdpass_req.resize(w.clients.size(), false);
  fdpass_req[(size_t)ci] = s.N(3, 0) != 0;
  md.connect(ci, cr.uid, (unsigned)cr.pid, cr.groups, fdpass_req[(size_t)ci]);
  pol::Who who;
  who.uid = cr.uid;
  who.user = cr.uid == 0 ? "root" : "user" + std::to_string(cr.uid);
  who.gids = cr.groups;
  for (unsigned g : cr.groups) who.groups.push_back(g == 0 ? "root" : "group" + std::to_string(g));
  for (auto &u : K->users) if (u.uid == cr.uid) who.at_console = u.at_console;
  whos.resize(w.clients.size());
  rules_of.resize(w.clients.size());
  whos[(size_t)ci] = who;
  rules_of2.resize(w.clients.size());
  if (have_policy2) rules_of2[(size_t)ci] = pol::effective_rules(policy2, who);
  if (have_policy) rules_of[(size_t)ci] = pol::effective_rules(policy, who);
  if (md.cfg_gen != 0 ? have_policy2 : have_policy) {
    if (!pol::may_connect(md.cfg_gen != 0 ? policy2 : policy, who, K->self.uid)) {
      // not admitted: the bus must drop the connection once it has authenticated, before any message counts
      md.conns[(size_t)ci].expect_closed = true;
      md.conns[(size_t)ci].close_prop = "C06";
      md.conns[(size_t)ci].unchecked = true;
      counters["probe:connect_denied"]++;
    }
  }
  note("connect(c" + std::to_string(ci) + ",uid=" + std::to_string(cr.uid) + ")");
}

void Exec::send_msg(int ci, wire::Msg m, long deliver, std::vector<int> fds) {
  bw::Client &c = w.C(ci);
  if (c.closed) return;
  if (md.conns[(size_t)ci].expect_closed) return;   // a client the bus is about to drop says nothing more
  if (lim_cfg.max_message_size >= 0 && (long)wire::marshal(m).size() > lim_cfg.max_message_size) {
    // larger than the configured maximum: only this sender is disconnected, nothing of it is processed
    for (int fd : fds) simk::real_close(fd);
    w.queue_raw(ci, wire::marshal(m));
    w.deliver(ci, -1);
    md.conns[(size_t)ci].expect_closed = true;
    md.conns[(size_t)ci].close_prop = "C13";
    counters["probe:oversize_message_sent"]++;
    return;
  }
  w.queue_msg(ci, m, std::move(fds));
  if (deliver != 0) w.deliver(ci, deliver);
}

wire::Msg Exec::driver_call(int ci, const std::string &member, std::vector<wire::Value> body) {
  bw::Client &c = w.C(ci);
  return wire::Msg::method_call(c.next_serial++, bm::BUS, "/org/freedesktop/DBus", bm::BUS, member, std::move(body));
}

void Exec::step(const Step &s) {
  const std::string &t = s.t;
  if (skip_until_retry && t != "oomretry") {
    // still exercised, not compared: read-only requests that walk the activation tables (a half-done reload must
    // not crash them), and the bus steps that process them
    bool readonly = t == "query" && (s.S(0) == "ListActivatableNames" || (s.S(0) == "StartServiceByName" && s.S(1) == "com.example.nosuch"));
    if (!readonly && t != "bus") return;
  }
  if (t == "connect") { connect_step(s); return; }
  if (t == "uniq") { w.set_unique_counter((int)s.N(0, 1), (int)s.N(1, 0)); return; }   // unique names in a prefix relation (:1.1, :1.10) with few connections
  if (t == "check") { check_point(false); return; }
  if (t == "bus") {
    int iters = (int)s.N(0, 1);
    w.oom_at = (int)s.N(12, -1);
    oom_retry_possible = w.oom_at >= 0;
    w.bus_iterate(iters, (uint64_t)s.N(1, 1), profile_from(s, 2));
    oom_retry_possible = false;
    resolve_choices();
    check_limits_whitebox();
    if (lim_cfg.max_incomplete_connections >= 0 && w.n_incomplete() == lim_cfg.max_incomplete_connections) {
      simk::Listener *l = K->find_listener(w.listen_name);
      if (l && !l->backlog.empty()) counters["probe:listener_paused"]++;
    }
    return;
  }
  if (t == "proc") {
    // n=[k, action, arg]: the k-th process the bus has started does something.  0: exec succeeded (pid reported);
    // 1: exits with status arg (>= 256: killed by signal arg-256); 2: exec failed with errno arg
    w.quiesce();              // whatever is in flight is processed first: the order of this event against client traffic is then unambiguous
    resolve_choices();
    check_activation_starts();
    if (K->procs.empty()) return;
    simk::Process *p = K->procs[(size_t)s.N(0, 0) % K->procs.size()];
    std::string name = p->argv.size() >= 2 ? p->argv[1] : "";
    int action = (int)s.N(1, 0);
    long arg = s.N(2, 0);
    bool was_running = !p->exited;
    if (action == 0) K->proc_exec_ok(p);
    else if (action == 1) K->proc_exit(p, arg >= 256 ? (int)(arg - 256) : (int)(arg << 8));
    else K->proc_exec_failed(p, (int)(arg ? arg : 2));
    note("proc(" + name + "," + std::to_string(action) + "," + std::to_string(arg) + ")");
    w.quiesce();
    resolve_choices();
    md.now_us = K->now_us;
    // an exit with status 0 is not a failure (the program may have daemonized): the waiters go on waiting
    bool failure = was_running && (action == 2 || (action == 1 && arg != 0));
    if (failure && p->pid == activation_pid[name]) { md.event++; md.activation_failed(name, action == 2 ? "exec" : "exit"); }
    if (action == 1 && arg == 0) counters["probe:service_exit_status_0"]++;
    return;
  }
  if (t == "adv") {
    long adv_ms = s.N(0, 0);
    if (s.N(1, 0) > 0) {
      // to one of the deadlines the model knows (a reply slot's, an activation's), give or take a millisecond:
      // expiry and the competing event at the same instant
      std::vector<int64_t> dl;
      for (auto &p : md.pending) if (!p.doomed && p.deadline_us > K->now_us) dl.push_back(p.deadline_us);
      if (md.service_start_timeout_ms >= 0) for (auto &kv : md.activations) { int64_t d = kv.second.started_us + md.service_start_timeout_ms * 1000; if (d > K->now_us) dl.push_back(d); }
      if (!dl.empty()) {
        int64_t d = dl[(size_t)(s.N(1) - 1) % dl.size()];
        long t2 = (long)((d - K->now_us) / 1000) + s.N(2, 0);
        if (t2 > 0 && t2 < 3600 * 1000) { adv_ms = t2; counters["probe:clock_moved_to_a_deadline"]++; }
      }
    }
    if (!md.activatable.empty()) {
      // C19: the clock moves between quiescent points, so that what a start timeout hits is unambiguous
      w.quiesce(); resolve_choices(); check_activation_starts();
      w.advance_ms(adv_ms); md.now_us = K->now_us;
      w.quiesce(); resolve_choices();
      md.event++;
      for (auto &n : md.overdue_activations()) { md.activation_failed(n, "timeout"); counters["probe:service_start_timeout_fired"]++; }
      return;
    }
    if (plan.prop == "C15") {
      // descriptors waiting in the bus for the rest of their message are subject to pending_fd_timeout like any
      // others; a half-delivered message is finished before the clock moves (the slow sender is not this check's subject)
      for (auto &cl : w.clients) if (cl.connected && !cl.closed) w.deliver(cl.idx, -1);
      w.quiesce();
      resolve_choices();
      w.advance_ms(adv_ms); md.now_us = K->now_us;
      w.quiesce();
      resolve_choices();
      // surplus descriptors are held "within ... the pending-descriptor timeout": the clock only moves here, between
      // quiescent points, so the deadline is exact - one timeout after the bus read the surplus, however much more
      // the connection has sent since (more surplus does not buy more time)
      long tmo = lim_cfg.pending_fd_timeout >= 0 ? lim_cfg.pending_fd_timeout : 150000;
      for (auto &kv : fd_surplus) {
        bw::Client &sc = w.C(kv.first);
        if (K->now_us >= kv.second + (tmo + 1) * 1000 && !sc.closed && !sc.saw_eof && w.bus_side_connected(kv.first))
          fail("oracle:C15:surplus-held", "c%d attached more descriptors than its messages announced %lld ms ago (pending_fd_timeout %ld ms), has kept sending, and is still connected",
               kv.first, (long long)((K->now_us - kv.second) / 1000), tmo);
      }
      return;
    }
    w.advance_ms(adv_ms); md.now_us = K->now_us; return;
  }
  if (t == "oombus") {
    // process the operation just issued, with the allocation number oom.k of this step failing
    // (oom.k = -1: fault-free, count the allocations instead)
    long k = plan.C("oom.k", -1);
    md_before = md;
    cursor_before.clear();
    for (auto &c : w.clients) cursor_before.push_back(c.got_checked);
    next_sent_before = next_sent;
    oom_client = oom_op_valid ? pick(oom_op.a) : -1;
    oom_armed = true;
    config_loads_before = w.config_loads;
    if (k >= 0) { w.oom_at = (int)k; w.oom_gap = (int)plan.C("oom.gap", -1); oom_retry_possible = true; }
    else w.measure_allocs = true;
    w.bus_iterate((int)s.N(0, 4), (uint64_t)s.N(1, 1), simk::IoProfile());
    w.measure_allocs = false;
    oom_retry_possible = false;
    if (k < 0) counters["oom_n"] = (uint64_t)w.last_alloc_count;
    resolve_choices();
    return;
  }
  if (t == "oomcheck") { resolve_oom(); return; }
  if (t == "oomretry") {
    forget_unspecified_window();
    if (oom_outcome == "nomemory" && oom_op_valid) { counters["oom_retried"]++; step(oom_op); }
    return;
  }
  int ci = pick(s.a);
  if (ci < 0) return;
  bw::Client &c = w.C(ci);
  if (t == "auth") {
    if (c.begun || c.closed) return;
    w.queue_auth(ci, fdpass_req[(size_t)ci]);
    if (s.N(0, 1)) w.deliver(ci, -1);
    return;
  }
  if (t == "hello") {
    if (c.closed) return;
    wire::Msg m = w.hello_msg(ci);
    m.flags = (uint8_t)s.N(1, 0);
    send_msg(ci, m, s.N(0, -1));
    note("c" + std::to_string(ci) + ":Hello");
    return;
  }
  if (t == "deliver") { w.deliver(ci, s.N(0, -1)); return; }
  if (t == "drain") { w.drain(ci, s.N(0, -1) < 0 ? (size_t)-1 : (size_t)s.N(0)); return; }
  if (t == "close") { if ((size_t)ci < md.conns.size()) md.conns[(size_t)ci].closing = true; w.close_client(ci); note("c" + std::to_string(ci) + ":close"); return; }
  if (t == "stall") { c.stalled = s.N(0, 1) != 0; return; }
  if (c.closed) return;
  if (t == "reqname") {
    wire::Msg m = driver_call(ci, "RequestName", {wire::Value::string(s.S(0)), wire::Value::u32((uint32_t)s.N(0))});
    send_msg(ci, m, s.N(1, -1));
    note("c" + std::to_string(ci) + ":RequestName(" + s.S(0) + "," + std::to_string(s.N(0)) + ")");
    return;
  }
  if (t == "relname") {
    wire::Msg m = driver_call(ci, "ReleaseName", {wire::Value::string(s.S(0))});
    send_msg(ci, m, s.N(0, -1));
    note("c" + std::to_string(ci) + ":ReleaseName(" + s.S(0) + ")");
    return;
  }
  if (t == "query") {
    std::vector<wire::Value> body;
    // Outside the fault enumeration a reload is made a point event: everything in flight (handshakes whose
    // admission depends on the connect rules in force) settles before the request is sent, and the request is
    // processed before the next step.  A reload racing a handshake is therefore NOT explored.
    bool settle = s.S(0) == "ReloadConfig" && have_cfg2 && md.cfg_gen == 0 && plan.prop != "C14";
    if (settle) { w.quiesce(); resolve_choices(); }
    if (s.S(0) == "ReloadConfig" && have_cfg2 && md.cfg_gen == 0) {
      w.rewrite_config(cfg2_xml);
      md.has_next_cfg = true;
      md.lim_next = lim2_model;
      md.activatable_next = activatable2;
    }
    if (s.S(0) == "UpdateActivationEnvironment") body.push_back(wire::Value::array("{ss}", {wire::Value::dict_entry(wire::Value::string(s.S(1)), wire::Value::string(s.S(2)))}));
    else if (s.S(0) != "ListNames" && s.S(0) != "GetId" && s.S(0) != "ListActivatableNames" && s.S(0) != "ReloadConfig") body.push_back(wire::Value::string(resolve_name(s.S(1))));
    if (s.S(0) == "StartServiceByName") body.push_back(wire::Value::u32(0));
    wire::Msg m = driver_call(ci, s.S(0), body);
    send_msg(ci, m, s.N(0, -1));
    note("c" + std::to_string(ci) + ":" + s.S(0) + "(" + s.S(1) + ")");
    if (settle) { w.quiesce(); resolve_choices(); }
    return;
  }
  if (t == "becomemonitor") {
    // n=[flags, deliver] s=[rules...]
    std::vector<wire::Value> rules;
    for (auto r : s.s) {
      // "$uK" inside rule text: the unique name of client K
      for (size_t p = r.find("$u"); p != std::string::npos; p = r.find("$u", p + 1)) {
        size_t e = p + 2;
        while (e < r.size() && isdigit((unsigned char)r[e])) e++;
        r = r.substr(0, p) + resolve_name(r.substr(p, e - p)) + r.substr(e);
      }
      rules.push_back(wire::Value::string(r));
    }
    wire::Msg m = wire::Msg::method_call(c.next_serial++, bm::BUS, "/org/freedesktop/DBus", "org.freedesktop.DBus.Monitoring", "BecomeMonitor",
                                         {wire::Value::array("s", rules), wire::Value::u32((uint32_t)s.N(0, 0))});
    c.asked_monitor = true;
    send_msg(ci, m, s.N(1, -1));
    note("c" + std::to_string(ci) + ":BecomeMonitor(" + std::to_string(rules.size()) + " rules)");
    return;
  }
  if (t == "addmatch" || t == "rmmatch") {
    std::string rule = s.S(0);
    // "$uK" inside rule text
    for (size_t p = rule.find("$u"); p != std::string::npos; p = rule.find("$u", p + 1)) {
      size_t e = p + 2;
      while (e < rule.size() && isdigit((unsigned char)rule[e])) e++;
      rule = rule.substr(0, p) + resolve_name(rule.substr(p, e - p)) + rule.substr(e);
    }
    wire::Msg m = driver_call(ci, t == "addmatch" ? "AddMatch" : "RemoveMatch", {wire::Value::string(rule)});
    send_msg(ci, m, s.N(0, -1));
    note("c" + std::to_string(ci) + (t == "addmatch" ? ":AddMatch(" : ":RemoveMatch(") + rule + ")");
    return;
  }
  if (t == "send") {
    // n=[type, flags, deliver, reply_serial, unknown_code, container_instance, big_endian, forged]
    // s=[dest, path, iface, member, errname, forged_sender, args...]
    wire::Msg m;
    m.type = (uint8_t)s.N(0, wire::T_CALL);
    m.flags = (uint8_t)s.N(1, 0);
    m.serial = s.N(8, 0) > 0 ? (uint32_t)s.N(8) : c.next_serial++;   // explicit serial: reuse of an outstanding one
    m.big_endian = s.N(6, 0) != 0;
    if (!s.S(1).empty()) m.set_field(wire::F_PATH, wire::Value::path(s.S(1)));
    if (!s.S(2).empty()) m.set_field(wire::F_INTERFACE, wire::Value::string(s.S(2)));
    if (!s.S(3).empty()) m.set_field(wire::F_MEMBER, wire::Value::string(s.S(3)));
    if (!s.S(4).empty()) m.set_field(wire::F_ERROR_NAME, wire::Value::string(s.S(4)));
    if (s.N(3, 0) != 0) m.set_field(wire::F_REPLY_SERIAL, wire::Value::u32((uint32_t)s.N(3)));
    if (!s.S(0).empty()) m.set_field(wire::F_DESTINATION, wire::Value::string(resolve_name(s.S(0))));
    if (!s.S(5).empty()) m.set_field(wire::F_SENDER, wire::Value::string(resolve_name(s.S(5))));
    if (s.N(4, 0) > 10) {
      // 1..4 unknown header fields (distinct codes 11..255), inserted at positions of their own —
      // adjacent to each other, to known fields, first or last
      simk::Rng r((uint64_t)s.N(4) * 77);
      int n = 1 + (int)r.below(4);
      std::set<int> codes;
      codes.insert((int)s.N(4) > 255 ? 11 + (int)(s.N(4) % 245) : (int)s.N(4));
      while ((int)codes.size() < n) codes.insert((int)r.range(11, 255));
      bool together = r.pct(50);
      size_t at = r.below(m.fields.size() + 1);
      for (int code : codes) {
        if (!together) at = r.below(m.fields.size() + 1);
        m.fields.insert(m.fields.begin() + (long)at, wire::Field{(uint8_t)code, random_value(r, 1)});
      }
    }
    if (s.N(5, 0)) m.fields.push_back({wire::F_CONTAINER_INSTANCE, wire::Value::path("/org/freedesktop/DBus/Containers1/c" + std::to_string(s.N(5)))});
    std::vector<wire::Value> body;
    for (size_t i = 6; i < s.s.size(); i++) {
      wire::Value v;
      if (parse_literal(s.s[i], &v)) body.push_back(v);
    }
    body.push_back(wire::Value::string("tok" + std::to_string(++token)));
    m.set_body(body);
    if (s.N(12, -100) != -100 && lim_cfg.max_message_size >= 0) {
      // n[12]: the message is padded (a last string argument) so that its size on the wire is exactly
      // max_message_size + n[12]: the boundary itself, for every alignment of the header's end
      long target = lim_cfg.max_message_size + s.N(12);
      long base = (long)wire::marshal(m).size();
      body.push_back(wire::Value::string(""));
      m.set_body(body);
      long with_empty = (long)wire::marshal(m).size();
      if (target >= with_empty) {
        body.back() = wire::Value::string(std::string((size_t)(target - with_empty), 'z'));
        m.set_body(body);
        if ((long)wire::marshal(m).size() == target) counters["probe:message_sized_to_the_limit_boundary"]++;
      } else { body.pop_back(); m.set_body(body); (void)base; }
    }
    if (s.N(7, 0)) {
      // shuffle header field order deterministically
      simk::Rng r((uint64_t)s.N(7));
      for (size_t i = m.fields.size(); i > 1; i--) std::swap(m.fields[i - 1], m.fields[r.below(i)]);
    }
    if (s.N(13, 0) > 0) {
      // n[13]: a header field code that appears TWICE (container-instance, signature, sender, destination, ...):
      // "a header must contain ... at most one" - the message is invalid, its sender is disconnected, and nothing of it
      // (in particular not the second copy of an injected field) reaches anybody
      uint8_t code = (uint8_t)s.N(13);
      wire::Value v = code == wire::F_CONTAINER_INSTANCE ? wire::Value::path("/org/freedesktop/DBus/Containers1/c" + std::to_string(40 + s.N(13)))
                      : code == wire::F_SIGNATURE ? wire::Value::sigval("s") : wire::Value::string(c.unique.empty() ? ":1.99" : c.unique);
      bool present = false;
      for (auto &f : m.fields) if (f.code == code) { v = f.val; present = true; break; }
      if (!present) m.fields.push_back({code, v});
      // the second copy: adjacent or at the other end of the field array
      if (s.N(13) & 0x100) m.fields.insert(m.fields.begin(), wire::Field{code, v}); else m.fields.push_back({code, v});
      if (c.closed || md.conns[(size_t)ci].expect_closed) return;
      c.next_serial = m.serial + 1;
      w.queue_raw(ci, wire::marshal(m));
      w.deliver(ci, -1);
      md.conns[(size_t)ci].expect_closed = true;
      md.conns[(size_t)ci].close_prop = "C03";
      counters["probe:duplicate_header_field_sent"]++;
      note("c" + std::to_string(ci) + ":send-duplicate-field(" + std::to_string(code) + ")");
      return;
    }
    long nf = s.N(9, 0), fd_delta = s.N(10, 0), fd_at = s.N(11, 0);
    std::vector<int> fds;
    if (nf > 0 || fd_delta != 0) {
      // descriptors: nf attached (distinct anonymous files), the header announces nf + fd_delta
      if (md.conns[(size_t)ci].expect_closed || c.closed) return;
      bool more_surplus = false;
      if (fd_surplus_sent.count(ci)) {
        // a connection that already has surplus descriptors pending may go on sending complete messages with yet
        // more surplus (announcing none): its deadline stays where it was.  Only while that deadline has not passed,
        // only when the bus has read the first surplus, and not under a per-connection descriptor limit (the bus
        // would stop reading and what it then delivers is a matter of timing)
        long tmo = lim_cfg.pending_fd_timeout >= 0 ? lim_cfg.pending_fd_timeout : 150000;
        bool negotiated0 = (size_t)ci < fdpass_req.size() && fdpass_req[(size_t)ci];
        if (plan.prop != "C15" || !fd_surplus.count(ci) || K->now_us + 2000 >= fd_surplus[ci] + tmo * 1000 || lim_cfg.max_incoming_unix_fds >= 0 || nf <= 0 || !negotiated0 || c.saw_eof || !w.bus_side_connected(ci)) return;
        long max_msg0 = lim_cfg.max_message_unix_fds >= 0 ? lim_cfg.max_message_unix_fds : 16;
        if (nf > max_msg0) nf = max_msg0;
        fd_delta = -nf;
        fd_at = 0;   // (with descriptors pending the loader reads message by message and takes descriptors only with a message's first byte; attached further in they are discarded by the kernel and never pending)
        more_surplus = true;
        counters["probe:more_surplus_fds_while_pending"]++;
        // "held only for that connection, within its per-connection limit": the loader has room for
        // max_message_unix_fds descriptors in all; a write whose descriptors do not fit beside the pending ones
        // is truncated by the kernel and the connection is dropped - nothing of that message is processed
        if (fd_pending_surplus[ci] + nf > max_msg0) {
          if (!s.S(1).empty()) m.set_field(wire::F_PATH, wire::Value::path(s.S(1)));
          std::vector<int> sfds;
          for (long i = 0; i < nf; i++) { int fd = memfd_create("simfd", MFD_CLOEXEC); if (fd < 0) core::harness_error("memfd_create failed"); sfds.push_back(fd); }
          c.next_serial = m.serial + 1;
          w.queue_msg(ci, m, std::move(sfds), 0);
          w.C(ci).sent.pop_back();            // never to be processed
          w.deliver(ci, -1);
          md.conns[(size_t)ci].expect_closed = true;
          md.conns[(size_t)ci].close_prop = "C15";
          counters["probe:surplus_beyond_loader_room"]++;
          note("c" + std::to_string(ci) + ":send-surplus-beyond-room(pending=" + std::to_string(fd_pending_surplus[ci]) + ",attached=" + std::to_string(nf) + ")");
          return;
        }
        fd_pending_surplus[ci] += nf;
        tr.ev("more surplus c%d nf=%ld", ci, nf);
      }
      long hdr = nf + fd_delta < 0 ? 0 : nf + fd_delta;
      if (hdr > 0) m.set_field(wire::F_UNIX_FDS, wire::Value::u32((uint32_t)hdr));
      std::vector<FdIdent> ids;
      for (long i = 0; i < nf; i++) {
        int fd = memfd_create("simfd", MFD_CLOEXEC);
        if (fd < 0) core::harness_error("memfd_create failed");
        struct stat st;
        fstat(fd, &st);
        ids.push_back({(unsigned long)st.st_dev, (unsigned long)st.st_ino});
        fds.push_back(fd);
      }
      long max_msg = lim_cfg.max_message_unix_fds >= 0 ? lim_cfg.max_message_unix_fds : 16;
      bool negotiated = (size_t)ci < fdpass_req.size() && fdpass_req[(size_t)ci];
      // without negotiation the library reads with plain read(): the kernel discards attached descriptors, so
      // such a message is valid exactly when it announces none
      bool invalid = negotiated ? (hdr > nf || nf > max_msg || hdr > max_msg) : hdr > 0;
      if (!negotiated && !invalid) { for (int fd : fds) simk::real_close(fd); fds.clear(); ids.clear(); nf = 0; counters["probe:fds_attached_without_negotiation_dropped"]++; }
      counters["probe:fd_message_sent"]++;
      if (invalid) {
        // not negotiated, more announced than attached, or beyond the per-message maximum: only this sender is
        // disconnected, nothing of the message is processed, and every descriptor it sent is closed
        wire::Limits wl;
        wl.max_unix_fds_available = (uint32_t)(hdr > nf ? hdr : nf);
        c.next_serial = m.serial + 1;
        w.queue_msg(ci, m, std::move(fds), (size_t)fd_at);
        w.C(ci).sent.pop_back();            // never to be processed
        w.deliver(ci, -1);
        md.conns[(size_t)ci].expect_closed = true;
        md.conns[(size_t)ci].close_prop = "C15";
        counters[!negotiated ? "probe:fds_without_negotiation" : hdr > nf ? "probe:fewer_fds_than_announced" : "probe:more_fds_than_allowed"]++;
        note("c" + std::to_string(ci) + ":send-invalid-fds(attached=" + std::to_string(nf) + ",announced=" + std::to_string(hdr) + ")");
        return;
      }
      ids.resize((size_t)hdr);
      fd_idents[{ci, m.serial}] = ids;
      if (hdr < nf && !more_surplus) { fd_surplus_sent[ci] = m.serial; fd_pending_surplus[ci] = nf - hdr; counters["probe:surplus_fds_sent"]++; }   // the clock of pending_fd_timeout starts when the bus has read it (on_dispatch)
    }
    {
      wire::Limits wl;
      wl.max_unix_fds_available = (uint32_t)fds.size();
      wire::ParseResult pr = wire::parse(wire::marshal(m), wl);
      if (pr.status != wire::P_OK) { for (int fd : fds) simk::real_close(fd); return; }   // the generator asked for something invalid: not this workload's business
    }
    if (m.type == wire::T_CALL) all_calls.push_back({ci, m.serial, resolve_name(s.S(0))});
    if (!fds.empty()) {
      if (c.closed || md.conns[(size_t)ci].expect_closed) { for (int fd : fds) simk::real_close(fd); return; }
      w.queue_msg(ci, m, std::move(fds), (size_t)fd_at);
      if (s.N(2, -1) != 0) w.deliver(ci, s.N(2, -1));
    } else
      send_msg(ci, m, s.N(2, -1));
    note("c" + std::to_string(ci) + ":send(type=" + std::to_string(m.type) + ",dest=" + s.S(0) + "," + s.S(3) + s.S(4) + ")");
    return;
  }
  if (t == "reply") {
    // n=[j, mode, deliver]: answer the j-th unanswered incoming call.  modes: 0 return, 1 error,
    // 2 duplicate of an answered one, 3 wrong serial, 4 addressed to a third party
    std::vector<size_t> open, done;
    for (size_t i = 0; i < c.got.size(); i++) {
      const wire::Msg &g = c.got[i].m;
      if (g.type != wire::T_CALL || g.sender() == bm::BUS || g.sender().empty()) continue;
      if (answered[(size_t)ci].count(i)) done.push_back(i); else open.push_back(i);
    }
    int mode = (int)s.N(1, 0);
    if (mode == 5) {
      // answer a call that was addressed to somebody else: a third-party reply
      std::vector<size_t> cand;
      for (size_t i = 0; i < all_calls.size(); i++) if (all_calls[i].from != ci && !w.C(all_calls[i].from).unique.empty()) cand.push_back(i);
      if (cand.empty()) return;
      const CallRec &cr = all_calls[cand[(size_t)s.N(0, 0) % cand.size()]];
      wire::Msg m = wire::Msg::method_return(c.next_serial++, cr.serial, w.C(cr.from).unique, {wire::Value::string("tok" + std::to_string(++token))});
      send_msg(ci, m, s.N(2, -1));
      note("c" + std::to_string(ci) + ":third-party-reply(rs=" + std::to_string(cr.serial) + ")");
      return;
    }
    std::vector<size_t> &pool = (mode == 2 && !done.empty()) ? done : open;
    if (pool.empty()) return;
    size_t gi = pool[(size_t)s.N(0, 0) % pool.size()];
    const wire::Msg &call = c.got[gi].m;
    uint32_t rs = call.serial + (mode == 3 ? 7777u : 0u);
    std::string dest = call.sender();
    if (mode == 4) dest = resolve_name("$u" + std::to_string(ci + 1));
    std::vector<wire::Value> body = {wire::Value::string("tok" + std::to_string(++token))};
    wire::Msg m = (mode == 1) ? wire::Msg::error(c.next_serial++, rs, dest, "com.example.Error.Failed", body)
                              : wire::Msg::method_return(c.next_serial++, rs, dest, body);
    if (mode != 3 && mode != 4) answered[(size_t)ci].insert(gi);
    send_msg(ci, m, s.N(2, -1));
    note("c" + std::to_string(ci) + ":reply(mode=" + std::to_string(mode) + ",rs=" + std::to_string(rs) + ")");
    return;
  }
  if (t == "raw") {   // hostile bytes
    c.hostile = true;
    w.queue_raw(ci, s.S(0), (int)s.N(1, 0));
    w.deliver(ci, s.N(0, -1));
    return;
  }
  core::harness_error("unknown step kind '%s'", t.c_str());
}

std::vector<int> Exec::actual_queue(const std::string &name) {
  return w.queue_order(name);
}

// Bind the model's symbolic unique names to the text the bus chose (white-box read right after the
// Hello was processed).  What each client is *told* is compared against this binding by the oracle.
void Exec::sync_names() {
  for (size_t i = 0; i < md.conns.size(); i++) {
    if (!md.conns[i].hello || !md.uniq[i].empty()) continue;
    std::string n = w.bus_side_name((int)i);
    if (n.empty()) continue;
    if (n[0] != ':') fail("oracle:C03:unique-name-form", "c%zu was given the unique name '%s'", i, n.c_str());
    auto ins = ever_names.insert({n, (int)i});
    if (!ins.second && ins.first->second != (int)i) fail("oracle:C03:unique-name-reused", "unique name %s, once c%d's, was given to c%zu", n.c_str(), ins.first->second, i);
    md.uniq[i] = n;
  }
}

void Exec::resolve_choices() {
  if (oom_armed) return;   // which world we are in is decided first (resolve_oom)
  sync_names();
  for (auto &ch : pending_choices) {
    if (ch.conn >= 0) {
      // rules naming a vanished unique name: kept or dropped, nothing else
      int actual = w.rule_count(ch.conn);
      int have = (int)md.conns[(size_t)ch.conn].rules.size();
      int doomed = (int)ch.rule_idx.size();
      counters["choice:" + ch.id]++;
      tr.ev("choice rules c%d actual=%d have=%d doomed=%d", ch.conn, actual, have, doomed);
      if (actual < 0) continue;
      if (md.conns[(size_t)ch.conn].unchecked) continue;   // its rule list is not predicted (it added a rule text the documents leave open)
      if (actual == have - doomed) { md.resolve_rule_choice(ch.conn, ch.rule_idx, true); counters["choice:" + ch.id + ":dropped"]++; }
      else if (actual == have) counters["choice:" + ch.id + ":kept"]++;
      else fail("oracle:C07:rule-count", "c%d holds %d match rules in the bus, the model has %d (of which %d name the unique name that just vanished)", ch.conn, actual, have, doomed);
      continue;
    }
    std::vector<int> actual = actual_queue(ch.name);
    bool ok = false;
    for (auto &adm : ch.admissible) if (adm == actual) ok = true;
    counters["choice:" + ch.id]++;
    if (!ok) {
      std::string a;
      for (int x : actual) a += "c" + std::to_string(x) + " ";
      fail("oracle:C04:queue-order", "queue of %s after %s is [%s], outside the orders the specification admits", ch.name.c_str(), ch.id.c_str(), a.c_str());
    }
    if (!ch.admissible.empty() && actual == ch.admissible[0]) counters["choice:" + ch.id + ":unchanged"]++;
    else counters["choice:" + ch.id + ":moved"]++;
    md.open_choices.push_back(ch);
    md.resolve_choice(ch.name, actual);
  }
  pending_choices.clear();
}

static std::string prop_of_observed(const wire::Msg &o) {
  for (auto &f : o.fields) if (f.code >= wire::F_CONTAINER_INSTANCE) return "C03";   // something a client injected got through
  if (o.sender() == bm::BUS) {
    if (o.type == wire::T_ERROR && o.error_name() == "org.freedesktop.DBus.Error.NoReply") return "C09";
    if (o.type == wire::T_ERROR) return "C05";
    return "C04";
  }
  if (!o.has_field(wire::F_DESTINATION)) return "C07";
  return "C05";
}

bool Exec::take_floating(int ci, const wire::Msg &o) {
  std::vector<bm::Exp> &f = md.floating[(size_t)ci];
  for (size_t i = 0; i < f.size(); i++) {
    std::string why;
    if (bm::satisfies(md, f[i], o, &why)) {
      counters["oracle_items_matched"]++;
      counters["matched:" + f[i].prop]++;
      f.erase(f.begin() + (long)i);
      return true;
    }
  }
  return false;
}

void Exec::compare_client(int ci) {
  bw::Client &c = w.C(ci);
  bm::Conn &k = md.conns[(size_t)ci];
  if (c.in_corrupt)
    fail("oracle:C02:bus-emitted-invalid", "the bus sent c%d bytes the independent codec rejects (%s)", ci, c.in_corrupt_reason.c_str());
  if (k.unchecked) { c.got_checked = c.got.size(); return; }
  std::deque<bm::Group> &q = md.exp[(size_t)ci];
  size_t cur = c.got_checked;
  while (!q.empty()) {
    bm::Group &g = q.front();
    std::vector<bool> used(g.items.size(), false);
    size_t required_left = 0;
    for (auto &e : g.items) if (!e.optional) required_left++;
    while (true) {
      bool all_used = true;
      for (bool u : used) if (!u) all_used = false;
      if (all_used) break;
      if (cur >= c.got.size()) break;
      const wire::Msg &o = c.got[cur].m;
      int hit = -1;
      std::string why, firstwhy;
      bool sender_issue = false;
      // required items first, then optional ones
      for (int pass = 0; pass < 2 && hit < 0; pass++)
        for (size_t i = 0; i < g.items.size() && hit < 0; i++) {
          const bm::Exp &e = g.items[i];
          if (used[i] || e.optional != (pass == 1)) continue;
          if (e.order_key > 0) {
            // held messages are released in arrival order: an earlier one still outstanding goes first
            bool earlier_left = false;
            for (size_t j = 0; j < g.items.size(); j++) if (!used[j] && g.items[j].order_key > 0 && g.items[j].order_key < e.order_key) earlier_left = true;
            if (earlier_left) continue;
          }
          if (e.last) {
            bool pre_left = false;
            for (size_t j = 0; j < g.items.size(); j++) if (!used[j] && g.items[j].pre && !g.items[j].optional) pre_left = true;
            if (pre_left) continue;
          }
          if (bm::satisfies(md, e, o, &why)) hit = (int)i;
          else {
            if (firstwhy.empty()) firstwhy = e.what + ": " + why;
            if (why.compare(0, 4, "C03:") == 0) sender_issue = true;
          }
        }
      if (hit >= 0 && g.items[(size_t)hit].optional && (g.items[(size_t)hit].any_reply_serial || g.items[(size_t)hit].any_destination) && required_left == 0) {
        // a loosely specified optional item of this group (any reply serial / any destination) fits, but so may a REQUIRED item of a later group (e.g. an admissible
        // "refusal" copy vs. the copy a monitor must get of a later error): the required one has the better claim
        std::string w2;
        bool later_required = false;
        for (size_t gi = 1; gi < q.size() && gi < 6 && !later_required; gi++)
          for (auto &e2 : q[gi].items) if (!e2.optional && bm::satisfies(md, e2, o, &w2)) { later_required = true; break; }
        if (later_required) break;
      }
      if (hit < 0 && take_floating(ci, o)) { cur++; continue; }
      if (hit < 0) {
        if (required_left == 0) break;   // o belongs to a later group
        std::string want;
        std::string prop;
        for (size_t i = 0; i < g.items.size(); i++) if (!used[i] && !g.items[i].optional) { want += "[" + g.items[i].what + ": " + g.items[i].m.repr() + "] "; if (prop.empty()) prop = g.items[i].prop; }
        // everything but the sender / injected fields fits some expectation: that is C03's statement
        if (sender_issue) prop = "C03";
        fail("oracle:" + prop + ":wrong-message", "c%d received %s while the model expects %s(first mismatch: %s)", ci, o.repr().c_str(), want.c_str(), firstwhy.c_str());
      }
      used[(size_t)hit] = true;
      if (getenv("SIM_DEBUG_COMPARE")) fprintf(stderr, "CMP c%d ev%llu: %s <= [%s%s]\n", ci, (unsigned long long)g.event, o.repr().substr(0, 150).c_str(), g.items[(size_t)hit].what.c_str(), g.items[(size_t)hit].optional ? " (optional)" : "");
      if (!g.items[(size_t)hit].optional) required_left--;
      counters["oracle_items_matched"]++;
      counters["matched:" + g.items[(size_t)hit].prop]++;
      if (!g.items[(size_t)hit].finding.empty()) counters["finding:" + g.items[(size_t)hit].finding]++;
      cur++;
    }
    if (required_left > 0) {
      // the stream ended although required deliveries are outstanding
      std::string want, prop;
      for (size_t i = 0; i < g.items.size(); i++) if (!used[i] && !g.items[i].optional) { want += "[" + g.items[i].what + ": " + g.items[i].m.repr() + "] "; if (prop.empty()) prop = g.items[i].prop; }
      fail("oracle:" + prop + ":missing-message", "c%d never received %s(system quiescent, faults off)", ci, want.c_str());
    }
    q.pop_front();
  }
  while (cur < c.got.size() && take_floating(ci, c.got[cur].m)) cur++;
  if (!md.floating[(size_t)ci].empty() && cur >= c.got.size()) {
    const bm::Exp &e = md.floating[(size_t)ci].front();
    fail("oracle:" + e.prop + ":missing-message", "c%d never received [%s: %s] (system quiescent, faults off)", ci, e.what.c_str(), e.m.repr().c_str());
  }
  if (cur < c.got.size()) {
    const wire::Msg &o = c.got[cur].m;
    fail("oracle:" + prop_of_observed(o) + ":unexpected-message", "c%d received %s which the model does not predict", ci, o.repr().c_str());
  }
  c.got_checked = cur;
}

// C10: "A client that sends an invalid message is disconnected".  Judged by the independent codec on
// the bytes that client really delivered.
void Exec::check_hostile(int ci) {
  bw::Client &c = w.C(ci);
  if (!c.begun || !w.accepted(ci)) return;
  size_t undelivered = std::min(c.out.size(), c.wire_stream.size());
  size_t delivered = c.wire_stream.size() - undelivered;
  // only what the bus has actually READ can be held against it (it stops reading from a connection whose
  // undelivered messages exceed max_incoming_bytes); the handshake bytes come first in the socket
  if (c.end) {
    uint64_t stream_at = (uint64_t)(c.out_base + c.out.size()) - c.wire_stream.size();   // socket offset at which wire_stream starts
    delivered = c.end->peer_consumed > stream_at ? std::min<size_t>(delivered, (size_t)(c.end->peer_consumed - stream_at)) : 0;
  }
  wire::Limits wl;
  if (lim_cfg.max_message_size >= 0) wl.max_message_size = (uint32_t)lim_cfg.max_message_size;
  wl.max_unix_fds_available = 0;
  size_t pos = 0;
  bool invalid = false;
  std::string reason;
  while (pos < delivered) {
    wire::ParseResult r = wire::parse(reinterpret_cast<const uint8_t *>(c.wire_stream.data()) + pos, delivered - pos, wl);
    if (r.status == wire::P_OK) { pos += r.total_len; continue; }
    if (r.status == wire::P_INVALID) { invalid = true; reason = r.reason; }
    break;
  }
  if (!invalid) return;
  counters["probe:hostile_invalid_message"]++;
  if (c.saw_eof) { counters["probe:hostile_closed_by_bus"]++; return; }
  std::string known = known_validator_gap(c.wire_stream.substr(pos), reason);
  if (!known.empty()) { counters["finding:" + known]++; return; }
  fail("oracle:C10:invalid-sender-not-disconnected", "c%d delivered an invalid message (%s at stream offset %zu) and is still connected after the bus went idle", ci, reason.c_str(), pos);
}

// C14: after the operation ran under an injected allocation failure, exactly two worlds are
// admissible: everything it entails happened (the failed allocation was retried or optional), or
// nothing happened and the requester was told NoMemory.
void Exec::resolve_oom() {
  if (!oom_armed) return;
  oom_armed = false;
  long k = plan.C("oom.k", -1);
  bm::Model md_after = md;
  std::vector<size_t> cur_save;
  for (auto &c : w.clients) cur_save.push_back(c.got_checked);
  core::Violation first{"", ""};
  bool complete_ok = true;
  try {
    check_point(false);
  } catch (core::Violation &v) {
    if (v.cls.compare(0, 7, "oracle:") != 0) throw;   // nonquiescent etc. are never admissible
    complete_ok = false;
    first = v;
  }
  if (complete_ok) {
    oom_outcome = "complete";
    counters["oom_outcome_complete"]++;
    if (pending_choices.empty() && md.open_choices.empty()) check_state_whitebox("after completing under an allocation failure");
    return;
  }
  if (k < 0) throw first;                             // fault-free pass: no excuse
  // second world: nothing happened, requester gets NoMemory (if it is still there to be told)
  md = md_before;
  pending_choices.clear();
  if (answered_before.size() == answered.size()) answered = answered_before;
  next_sent = next_sent_before;
  for (size_t i = 0; i < w.clients.size() && i < cursor_before.size(); i++) w.clients[i].got_checked = cursor_before[i];
  if (oom_client >= 0 && oom_op_valid) {
    bw::Client &c = w.C(oom_client);
    if (oom_op.t == "close") {
      // a disconnect cannot fail: the bus must finish it once memory is back
      throw core::Violation{"oracle:C14:disconnect-not-completed", "after an allocation failure while handling a disconnect: " + first.detail};
    }
    // the message was consumed: advance the send cursor past it and expect the NoMemory error
    if (next_sent[(size_t)oom_client] < c.sent.size()) {
      const bw::Sent &sm = c.sent[next_sent[(size_t)oom_client]];
      next_sent[(size_t)oom_client]++;
      c.wire_pos = sm.end_off_stream;
      md.event++;
      if (md.conns[(size_t)oom_client].alive) {
        bm::Exp e;
        e.from_bus = true;
        e.m = wire::Msg::error(1, sm.m.serial, "", "org.freedesktop.DBus.Error.NoMemory");
        e.m.set_field(wire::F_SENDER, wire::Value::string(bm::BUS));
        e.any_destination = true;
        e.ignore_body = true;
        e.what = "NoMemory error";
        e.prop = "C14";
        e.optional = sm.m.type != wire::T_CALL;
        md.exp[(size_t)oom_client].push_back(bm::Group{md.event, {e}});
      }
    }
  }
  try {
    check_point(false);
  } catch (core::Violation &v2) {
    if (v2.cls.compare(0, 7, "oracle:") != 0) throw;
    throw core::Violation{"oracle:C14:neither-complete-nor-clean",
                          "allocation " + std::to_string(k) + " of the operation failed; the outcome is neither the complete effect (" + first.cls + ": " + first.detail.substr(0, 600) +
                              ") nor a clean NoMemory failure (" + v2.cls + ": " + v2.detail.substr(0, 600) + ")"};
  }
  oom_outcome = "nomemory";
  counters["oom_outcome_nomemory"]++;
  check_state_whitebox("after a NoMemory failure");
  if (oom_op_valid && oom_op.t == "query" && oom_op.S(0) == "ReloadConfig" && have_cfg2) {
    bool parsed = w.config_loads > config_loads_before && w.last_config_load_ok;
    counters[parsed ? "probe:reload_failed_after_parsing" : "probe:reload_failed_while_parsing"]++;
    // Listed finding (the source says so itself: process_config_every_time "can do a half reload in out-of-memory
    // situations"): once the file is parsed, a failure leaves part or all of the new configuration in force although
    // the caller is told NoMemory.  Which configuration governs is then unspecified until the retry has put the new
    // one in force; the probes in between are skipped.  A failure while parsing gets no such allowance.
    if (parsed && md.known.count("C14-reload-not-atomic")) { md.finding_hits["C14-reload-not-atomic"]++; skip_until_retry = true; md.cfg_unspecified = true; }
  }
}

// What the bus holds per connection must be what the chosen world says: match rules and names are
// also counted directly (a rule added twice or a leftover queue entry is invisible to message traffic).
void Exec::check_state_whitebox(const char *when) {
  for (size_t i = 0; i < w.clients.size() && i < md.conns.size(); i++) {
    const bm::Conn &k = md.conns[i];
    if (!k.alive || k.monitor || k.unchecked) continue;
    int rules = w.rule_count((int)i), names = w.names_owned((int)i);
    if (rules >= 0 && rules != (int)k.rules.size())
      fail("oracle:C14:rule-count", "%s c%zu holds %d match rules in the bus, %zu in the admissible state", when, i, rules, k.rules.size());
    long held = k.hello ? 1 : 0;
    for (auto &kv : md.names) for (auto &q : kv.second) if (q.c == (int)i) held++;
    if (names >= 0 && k.hello && names != held)
      fail("oracle:C14:names-held", "%s c%zu is recorded by the bus as holding %d names, %ld in the admissible state", when, i, names, held);
  }
}

// C19: the bus has started exactly the service programs the model says were needed, with the right argument
void Exec::check_activation_starts() {
  if (md.activatable.empty()) return;
  if (K->procs.size() > md.activation_starts)
    fail("oracle:C19:started-twice", "the bus has started %zu service processes, only %llu activations needed one (last: %s)", K->procs.size(), (unsigned long long)md.activation_starts,
         K->procs.back()->argv.size() >= 2 ? K->procs.back()->argv[1].c_str() : "?");
  if (K->procs.size() < md.activation_starts)
    fail("oracle:C19:not-started", "%llu activations were needed, the bus has started %zu service processes", (unsigned long long)md.activation_starts, K->procs.size());
  for (size_t i = procs_seen; i < K->procs.size(); i++) {
    simk::Process *p = K->procs[i];
    if (p->argv.size() != 2 || p->argv[0] != "/usr/libexec/simsvc" || !md.activatable.count(p->argv[1]))
      fail("oracle:C19:wrong-program", "the bus started a program that no service file names");
    // the started program is told which bus started it - whatever clients stored in the activation environment -
    // and is handed the variables clients did store there
    std::map<std::string, std::string> env;
    for (auto &kv : p->env) { size_t eq = kv.find('='); if (eq != std::string::npos) env[kv.substr(0, eq)] = kv.substr(eq + 1); }
    if (!env.count("DBUS_STARTER_ADDRESS") || env["DBUS_STARTER_ADDRESS"].compare(0, 20, "unix:abstract=simbus") != 0)
      fail("oracle:C19:starter-address", "the program started for %s was given DBUS_STARTER_ADDRESS=%s, the bus that started it listens on unix:abstract=simbus", p->argv[1].c_str(),
           env.count("DBUS_STARTER_ADDRESS") ? env["DBUS_STARTER_ADDRESS"].c_str() : "(unset)");
    for (auto &kv : md.act_env) {
      if (kv.first == "DBUS_STARTER_ADDRESS") continue;
      // a request still in flight when the program was started may or may not have been applied: any value the
      // variable was ever given is admissible, its absence only before the first request was answered
      if (env.count(kv.first)) {
        if (!kv.second.count(env[kv.first])) fail("oracle:C19:activation-environment", "the program started for %s was given %s=%s, which no client ever stored", p->argv[1].c_str(), kv.first.c_str(), env[kv.first].c_str());
        else counters["activation_env_seen"]++;
      }
    }
    activation_pid[p->argv[1]] = p->pid;
    counters["service_processes_started"]++;
  }
  procs_seen = K->procs.size();
}

// C15: what arrived with each message is what was attached to it
void Exec::check_fds(int ci) {
  bw::Client &c = w.C(ci);
  if (fd_checked.size() < w.clients.size()) fd_checked.resize(w.clients.size(), 0);
  bool negotiated = (size_t)ci < fdpass_req.size() && fdpass_req[(size_t)ci];
  for (size_t i = fd_checked[(size_t)ci]; i < c.got.size(); i++) {
    const bw::Got &g = c.got[i];
    uint32_t announced = g.m.unix_fds();
    if (!negotiated && (announced > 0 || !g.fds.empty()))
      fail("oracle:C15:fds-without-negotiation", "c%d did not negotiate descriptor passing and received a message announcing %u descriptors (%zu attached)", ci, announced, g.fds.size());
    if (g.fds.size() != announced)
      fail("oracle:C15:fd-count", "c%d received a message (%s) announcing %u descriptors with %zu attached", ci, g.m.repr().c_str(), announced, g.fds.size());
    if (announced == 0) continue;
    counters["probe:fd_message_received"]++;
    // whose message is it?
    int from = -1;
    for (auto &o : w.clients) if (!o.unique.empty() && o.unique == g.m.sender()) from = o.idx;
    if (from < 0) continue;
    auto it = fd_idents.find({from, g.m.serial});
    if (it == fd_idents.end()) fail("oracle:C15:fd-count", "c%d received %u descriptors with a message (serial %u of c%d) that was sent without any", ci, announced, g.m.serial, from);
    if (it->second.size() != g.fds.size()) fail("oracle:C15:fd-count", "c%d received %zu descriptors, c%d attached %zu to serial %u", ci, g.fds.size(), from, it->second.size(), g.m.serial);
    for (size_t k = 0; k < g.fds.size(); k++) {
      struct stat st;
      if (fstat(g.fds[k], &st) != 0) fail("oracle:C15:fd-identity", "descriptor %zu received by c%d is not open", k, ci);
      if ((unsigned long)st.st_dev != it->second[k].dev || (unsigned long)st.st_ino != it->second[k].ino)
        fail("oracle:C15:fd-identity", "descriptor %zu of serial %u as received by c%d is not the open file c%d attached in that position", k, g.m.serial, ci, from);
    }
    counters["fds_compared"] += g.fds.size();
  }
  fd_checked[(size_t)ci] = c.got.size();
  if (!c.in_fds.empty() && c.in.empty())
    fail("oracle:C15:surplus-fds-delivered", "c%d holds %zu descriptors that came with no message announcing them", ci, c.in_fds.size());
}

void Exec::check_point(bool final) {
  (void)final;
  w.quiesce();
  resolve_choices();
  if (tainted) { for (auto &c : w.clients) c.got_checked = c.got.size(); return; }
  // Bounded liveness for reply_timeout: slots overdue now must be expired (NoReply sent) within one
  // more timeout of simulated time once the system is left alone.
  for (auto &p : md.pending)
    if (p.doomed)
      fail("oracle:C09:not-expired", "c%d's call %u was addressed to a connection that has gone away, the bus is idle, and no NoReply has been sent", p.caller, p.serial);
  if (lim_cfg.reply_timeout >= 0 && !md.overdue().empty()) {
    w.advance_ms(lim_cfg.reply_timeout + 1);
    md.now_us = K->now_us;
    w.quiesce();
    resolve_choices();
    for (auto &p : md.pending)
      if (p.deadline_us >= 0 && p.deadline_us + (lim_cfg.reply_timeout + 1) * 1000 <= K->now_us)
        fail("oracle:C09:not-expired", "c%d's call %u to c%d is %lld ms past reply_timeout and the bus has not sent NoReply", p.caller, p.serial, p.callee, (long long)((K->now_us - p.deadline_us) / 1000));
  }
  // Bounded liveness for auth_timeout: a connection overdue now must be gone within one more
  // timeout of simulated time once the system is left alone (the timer may legitimately have been
  // armed late if the loop was not scheduled around the clock jump).
  if (lim_cfg.auth_timeout >= 0) {
    bool overdue = false;
    for (auto &c : w.clients)
      if (c.connected && !c.closed && !c.saw_eof && w.accepted(c.idx) && !md.conns[(size_t)c.idx].hello && w.accept_time_us.count(c.idx) &&
          K->now_us - w.accept_time_us[c.idx] > (lim_cfg.auth_timeout + 1) * 1000) overdue = true;
    if (overdue) { w.advance_ms(lim_cfg.auth_timeout + 1); md.now_us = K->now_us; w.quiesce(); resolve_choices(); }
  }
  {
    // Bounded liveness for the listen backlog: with the bus idle, a client still waiting to be accepted is
    // legitimate only while the bus holds max_incomplete_connections unfinished connections
    simk::Listener *l = K->find_listener(w.listen_name);
    long cap = lim_cfg.max_incomplete_connections >= 0 ? lim_cfg.max_incomplete_connections : 64;
    if (l && l->open && !l->backlog.empty() && w.bus_running() && w.n_incomplete() < cap && plan.C("oom.k", -1) < 0)
      fail("oracle:C10:not-accepted", "%zu clients are waiting in the listen backlog, the bus is idle and holds only %d unfinished connections (max_incomplete_connections %ld): it has stopped accepting",
           l->backlog.size(), w.n_incomplete(), cap);
  }
  check_activation_starts();
  // Bounded liveness for service_start_timeout: an activation that is overdue ends in errors for its waiters
  if (!md.activatable.empty() && final && !md.activations.empty()) {
    w.advance_ms(md.service_start_timeout_ms + 1); md.now_us = K->now_us;
    w.quiesce(); resolve_choices();
    md.event++;
    for (auto &n : md.overdue_activations()) { md.activation_failed(n, "timeout"); counters["probe:service_start_timeout_fired"]++; }
    for (auto &cl : w.clients) if (cl.connected && !cl.closed && !cl.stalled) w.drain(cl.idx);
  }
  // Bounded liveness for pending_fd_timeout: a connection that sent descriptors beyond what its messages
  // announced keeps them only that long; left alone it must be gone one timeout later.
  if (!fd_surplus.empty()) {
    long t = lim_cfg.pending_fd_timeout >= 0 ? lim_cfg.pending_fd_timeout : 150000;
    bool waiting = false;
    for (auto &kv : fd_surplus) { bw::Client &c = w.C(kv.first); if (!c.closed && !c.saw_eof && w.bus_side_connected(kv.first)) waiting = true; }
    if (waiting) {
      for (auto &cl : w.clients) if (cl.connected && !cl.closed) w.deliver(cl.idx, -1);
      w.quiesce(); resolve_choices();
      w.advance_ms(t + 1); md.now_us = K->now_us; w.quiesce(); resolve_choices();
      w.advance_ms(t + 1); md.now_us = K->now_us; w.quiesce(); resolve_choices();
      for (auto &kv : fd_surplus) {
        bw::Client &c = w.C(kv.first);
        w.drain(kv.first);
        // (a client that does not read cannot see the EOF: ask the bus whether it still holds the connection)
        if (!c.closed && !c.saw_eof && w.bus_side_connected(kv.first))
          fail("oracle:C15:surplus-held", "c%d attached more descriptors than its message announced %lld ms ago (pending_fd_timeout %ld ms) and is still connected, the surplus still held", kv.first,
               (long long)((K->now_us - kv.second) / 1000), t);
        counters["probe:pending_fd_timeout_fired"]++;
      }
    }
  }
  // what each client was told must be what the bus holds, and pairwise distinct
  std::set<std::string> seen;
  for (auto &c : w.clients) {
    if (c.unique.empty()) continue;
    if (c.unique[0] != ':') fail("oracle:C03:unique-name-form", "c%d was given the unique name '%s'", c.idx, c.unique.c_str());
    if (!seen.insert(c.unique).second) fail("oracle:C03:unique-name-reused", "unique name %s was given to two connections", c.unique.c_str());
  }
  for (auto &c : w.clients) {
    if (!c.connected) continue;
    bm::Conn &k = md.conns[(size_t)c.idx];
    if (c.closed) continue;
    if (c.stalled) continue;
    if (c.saw_eof && k.alive && !k.unchecked && !c.hostile)
      fail("oracle:C10:unexpected-disconnect", "the bus closed well-behaved client c%d", c.idx);
    if (c.hostile) check_hostile(c.idx);
    // a connection that has not completed Hello within auth_timeout is dropped (C10: slow authenticators)
    if (lim_cfg.auth_timeout >= 0 && w.accepted(c.idx) && !k.hello && !c.saw_eof && w.accept_time_us.count(c.idx) &&
        K->now_us - w.accept_time_us[c.idx] > (2 * lim_cfg.auth_timeout + 2) * 1000)
      fail("oracle:C10:auth-timeout", "c%d has been connected without completing Hello for %lld ms, auth_timeout is %ld ms, and it is still connected",
           c.idx, (long long)((K->now_us - w.accept_time_us[c.idx]) / 1000), lim_cfg.auth_timeout);
    if (c.saw_eof && !k.hello && lim_cfg.auth_timeout >= 0) counters["probe:auth_timeout_fired"]++;
    if (c.saw_eof) continue;
    if (k.expect_closed && !k.alive) continue;
    if (k.expect_closed && !w.accepted(c.idx)) continue;   // still in the listen backlog (incomplete-connection cap): nothing to close yet
    if (k.expect_closed) fail("oracle:" + k.close_prop + ":not-disconnected", "c%d should have been disconnected by the bus", c.idx);
    if (c.hostile) { c.got_checked = c.got.size(); continue; }
    check_fds(c.idx);
    compare_client(c.idx);
  }
  counters["checkpoints"]++;
}

core::RunResult Exec::run() {
  core::RunResult res;
  try {
    w.on_dispatch = [this](int ci, DBusConnection *conn, DBusMessage *msg) { on_dispatch(ci, conn, msg); };
    w.on_reply_expired = [this](int caller, int callee, uint32_t serial) {
      resolve_choices();
      md.now_us = K->now_us;
      tr.ev("H2c expired caller=c%d callee=c%d serial=%u", caller, callee, serial);
      for (auto &p : md.pending)
        if (p.caller == caller && p.callee == callee && p.serial == serial && !p.doomed && p.deadline_us >= 0 && K->now_us < p.deadline_us && callee >= 0 && md.conns[(size_t)callee].alive)
          fail("oracle:C09:expired-early", "the reply slot of c%d's call %u to c%d was expired %lld ms before reply_timeout elapsed", caller, serial, callee, (long long)((p.deadline_us - K->now_us) / 1000));
      md.reply_expired(caller, callee, serial);
      after_event();
    };
    setup();
    for (auto &s : plan.steps) {
      tr.ev("step %s %d", s.t.c_str(), s.a);
      if (s.t == "oombus") oom_op_locked = true;       // the operation under test stays the one to retry until oomretry
      if (s.t == "oomretry") oom_op_locked = false;
      if (!oom_op_locked && s.t != "oombus" && s.t != "oomcheck" && s.t != "oomretry" && s.t != "check" && s.t != "bus" && s.t != "drain" && s.t != "deliver") { oom_op = s; oom_op_valid = true; answered_before = answered; }
      step(s);
    }
    forget_unspecified_window();
    check_point(true);
    finish();
    w.stop_bus(true);
  } catch (core::Violation &v) {
    res.ok = false;
    res.cls = v.cls;
    res.detail = v.detail;
    // in a fault-injected execution every later disagreement is a consequence of the injected
    // allocation failure: it is C14's statement (state unchanged / retry succeeds / nothing leaks) that is broken
    if (plan.C("oom.k", -1) >= 0 && !oom_outcome.empty() && v.cls.compare(0, 7, "oracle:") == 0 && v.cls.compare(0, 11, "oracle:C14:") != 0) {
      res.cls = "oracle:C14:after-" + oom_outcome + ":" + v.cls.substr(7);
    }
    if (plan.C("oom.k", -1) >= 0 && v.cls.compare(0, 5, "leak:") == 0) res.cls = "oracle:C14:" + v.cls;
  }
  res.hash = tr.h;
  res.sim_us = K ? 0 : 0;
  res.counters = counters;
  for (auto &kv : w.counters) res.counters[kv.first] += kv.second;
  for (auto &kv : md.probes) res.counters["probe:" + kv.first] += kv.second;
  for (auto &kv : md.finding_hits) if (kv.second) res.counters["finding:" + kv.first] += kv.second;
  uint64_t faults = 0;
  for (auto &kv : K->stats.faults) { res.counters["fault:" + kv.first] += kv.second; faults += kv.second; }
  res.counters["sut_bytes_read"] = K->stats.bytes_sut_read;
  res.counters["sut_bytes_written"] = K->stats.bytes_sut_written;
  res.sim_us = K->now_us - 1600000000ll * 1000000ll;
  res.nontrivial = faults > 0 && counters["oracle_items_matched"] > 0;
  res.states = states;
  res.sample = hist;
  if (tr.keep_text) res.sample = tr.text + "HISTORY " + hist + "\n";
  return res;
}

void Exec::setup() {
  bw::BusLimits lim;
  lim.max_names_per_connection = plan.C("lim.names", -1);
  lim.max_match_rules_per_connection = plan.C("lim.rules", -1);
  lim.max_replies_per_connection = plan.C("lim.replies", -1);
  lim.max_completed_connections = plan.C("lim.completed", -1);
  lim.max_incomplete_connections = plan.C("lim.incomplete", -1);
  lim.max_connections_per_user = plan.C("lim.per_user", -1);
  lim.max_message_size = plan.C("lim.msgsize", -1);
  lim.reply_timeout = plan.C("lim.reply_timeout", -1);
  lim.auth_timeout = plan.C("lim.auth_timeout", -1);
  lim.max_outgoing_bytes = plan.C("lim.out_bytes", -1);
  lim.max_incoming_bytes = plan.C("lim.in_bytes", -1);   // the bus stops reading from a connection whose undelivered messages exceed it
  long out_fds_limit = plan.C("lim.out_fds", -1);
  if (lim.max_outgoing_bytes >= 0 || out_fds_limit >= 0) {
    long limit = lim.max_outgoing_bytes;
    md.queue_full = [this, limit, out_fds_limit](int r) {
      // white-box read of the very numbers the bus compares (outgoing bytes / descriptors of the bus-side connection)
      for (DBusConnection *conn : w.live_conns) {
        auto it = w.conn_to_client.find(conn);
        if (it != w.conn_to_client.end() && it->second == r)
          return (limit >= 0 && dbus_connection_get_outgoing_size(conn) > limit) || (out_fds_limit >= 0 && dbus_connection_get_outgoing_unix_fds(conn) > out_fds_limit);
      }
      return false;
    };
  }
  lim.max_message_unix_fds = plan.C("lim.msg_fds", -1);
  lim.max_incoming_unix_fds = plan.C("lim.in_fds", -1);
  lim.max_outgoing_unix_fds = plan.C("lim.out_fds", -1);
  lim.pending_fd_timeout = plan.C("lim.pending_fd_timeout", -1);
  if (lim.max_names_per_connection >= 0) md.lim.max_names_per_connection = lim.max_names_per_connection;
  if (lim.max_match_rules_per_connection >= 0) md.lim.max_match_rules_per_connection = lim.max_match_rules_per_connection;
  if (lim.max_replies_per_connection >= 0) md.lim.max_replies_per_connection = lim.max_replies_per_connection;
  md.lim.reply_timeout_ms = lim.reply_timeout;
  if (lim.max_completed_connections >= 0) md.lim.max_completed_connections = lim.max_completed_connections;
  if (lim.max_connections_per_user >= 0) md.lim.max_connections_per_user = lim.max_connections_per_user;
  lim_cfg = lim;
  lim.max_incomplete_connections = plan.C("lim.incomplete", -1);
  lim_cfg = lim;
  for (unsigned u = 1000; u < 1008; u++) { K->add_user("user" + std::to_string(u), u, u); K->add_group("group" + std::to_string(u), u); }
  std::string policy_xml = plan.CS("policy", bw::kAllowAllPolicy);
  if (!plan.CS("policy.spec").empty()) {
    if (!pol::decode(plan.CS("policy.spec"), &policy)) core::harness_error("bad policy.spec in plan");
    have_policy = true;
    policy_xml = policy.xml();
    install_policy_hooks();
  }
  for (unsigned u = 1000; u < 1008; u++) if (plan.C("console." + std::to_string(u), 0)) for (auto &usr : K->users) if (usr.uid == u) usr.at_console = true;
  K->sut_read_limit = (int)plan.C("knob.read_limit", 0);
  std::string extra;
  if (!plan.CS("activatable").empty()) {
    // C19: service files in a scratch <servicedir>; the program each names is never run - the simulated kernel's
    // fork() hands the harness a scripted process instead
    std::string dir = bw::scratch_dir() + "/services";
    std::string cmd = "rm -rf '" + dir + "'";
    if (system(cmd.c_str())) {}
    mkdir(dir.c_str(), 0755);
    std::string act = plan.CS("activatable");
    size_t i = 0;
    while (i <= act.size()) {
      size_t j = act.find(',', i);
      if (j == std::string::npos) j = act.size();
      if (j > i) {
        std::string name = act.substr(i, j - i);
        FILE *f = fopen((dir + "/" + name + ".service").c_str(), "w");
        if (!f) core::harness_error("cannot write a service file");
        fprintf(f, "[D-BUS Service]\nName=%s\nExec=/usr/libexec/simsvc %s\n", name.c_str(), name.c_str());
        fclose(f);
        md.activatable.insert(name);
      }
      i = j + 1;
    }
    extra = "  <servicedir>" + dir + "</servicedir>\n";
    lim.service_start_timeout = plan.C("lim.start_timeout", -1);
    if (lim.service_start_timeout >= 0) md.service_start_timeout_ms = lim.service_start_timeout;
    lim_cfg = lim;
  }
  if (plan.C("reload", 0)) {
    // C14: a second configuration that ReloadConfig will read: other limits, another policy, a service directory
    have_cfg2 = true;
    bw::BusLimits l2 = lim;
    lim2_model = md.lim;
    if (plan.C("reload.lim.replies", -2) != -2) { l2.max_replies_per_connection = plan.C("reload.lim.replies", -1); lim2_model.max_replies_per_connection = l2.max_replies_per_connection >= 0 ? l2.max_replies_per_connection : bm::Limits().max_replies_per_connection; }
    if (plan.C("reload.lim.completed", -2) != -2) { l2.max_completed_connections = plan.C("reload.lim.completed", -1); lim2_model.max_completed_connections = l2.max_completed_connections >= 0 ? l2.max_completed_connections : bm::Limits().max_completed_connections; }
    if (plan.C("reload.lim.per_user", -2) != -2) { l2.max_connections_per_user = plan.C("reload.lim.per_user", -1); lim2_model.max_connections_per_user = l2.max_connections_per_user >= 0 ? l2.max_connections_per_user : bm::Limits().max_connections_per_user; }
    lim2_cfg = l2;
    if (plan.C("reload.lim.rules", -2) != -2) { l2.max_match_rules_per_connection = plan.C("reload.lim.rules", -1); lim2_model.max_match_rules_per_connection = l2.max_match_rules_per_connection >= 0 ? l2.max_match_rules_per_connection : bm::Limits().max_match_rules_per_connection; }
    if (plan.C("reload.lim.names", -2) != -2) { l2.max_names_per_connection = plan.C("reload.lim.names", -1); lim2_model.max_names_per_connection = l2.max_names_per_connection >= 0 ? l2.max_names_per_connection : bm::Limits().max_names_per_connection; }
    lim2_cfg = l2;
    std::string p2 = bw::kAllowAllPolicy;
    if (!plan.CS("reload.policy.spec").empty()) {
      if (!pol::decode(plan.CS("reload.policy.spec"), &policy2)) core::harness_error("bad reload.policy.spec in plan");
      have_policy2 = true;
      p2 = policy2.xml();
      if (!have_policy) install_policy_hooks();
    }
    std::string extra2;
    if (!plan.CS("reload.activatable").empty()) {
      std::string dir = bw::scratch_dir() + "/services2";
      std::string cmd = "rm -rf '" + dir + "'";
      if (system(cmd.c_str())) {}
      mkdir(dir.c_str(), 0755);
      std::string act = plan.CS("reload.activatable");
      size_t i = 0;
      while (i <= act.size()) {
        size_t j = act.find(',', i);
        if (j == std::string::npos) j = act.size();
        if (j > i) {
          std::string name = act.substr(i, j - i);
          FILE *f = fopen((dir + "/" + name + ".service").c_str(), "w");
          if (!f) core::harness_error("cannot write a service file");
          fprintf(f, "[D-BUS Service]\nName=%s\nExec=/usr/libexec/simsvc %s\n", name.c_str(), name.c_str());
          fclose(f);
          activatable2.insert(name);
        }
        i = j + 1;
      }
      extra2 = "  <servicedir>" + dir + "</servicedir>\n";
    }
    long inc = plan.C("reload.include", 0);
    if (inc == 0) cfg2_xml = bw::make_bus_config(p2, l2, extra2);
    else {
      // the limits and the service directory come from an included file (<include>, or a file in an <includedir>):
      // the parser merges a second parser into the first
      std::string incdir = bw::scratch_dir() + "/inc.d", incfile = inc == 1 ? bw::scratch_dir() + "/inc.conf" : incdir + "/10-limits.conf";
      std::string cmd = "rm -rf '" + incdir + "' '" + bw::scratch_dir() + "/inc.conf'";
      if (system(cmd.c_str())) {}
      if (inc != 1) mkdir(incdir.c_str(), 0755);
      FILE *f = fopen(incfile.c_str(), "w");
      if (!f) core::harness_error("cannot write an included configuration file");
      std::string frag = bw::make_bus_config("", l2, extra2, true);
      fwrite(frag.data(), 1, frag.size(), f);
      fclose(f);
      std::string ref = inc == 1 ? "  <include>" + incfile + "</include>\n" : "  <includedir>" + incdir + "</includedir>\n";
      cfg2_xml = bw::make_bus_config(p2, bw::BusLimits(), ref);
    }
  }
  w.start_bus(bw::make_bus_config(policy_xml, lim, extra), (int)plan.C("uniq.major", 0), (int)plan.C("uniq.minor", 0), (int)plan.C("stamp.start", 0));
}

std::vector<std::string> Exec::names_of(int c) {
  std::vector<std::string> v;
  if (c < 0) { v.push_back(bm::BUS); return v; }
  for (auto &kv : md.names)
    for (auto &q : kv.second)
      if (q.c == c) v.push_back(kv.first);
  std::string u = md.resolve(bm::U(c));
  if (!u.empty() && u[0] == ':') v.push_back(u);
  return v;
}

const std::vector<const pol::Rule *> *Exec::active_rules(int c) {
  bool second = md.cfg_gen != 0;
  if (second ? !have_policy2 : !have_policy) return nullptr;
  auto &v = second ? rules_of2 : rules_of;
  if (c < 0 || (size_t)c >= v.size()) return nullptr;
  return &v[(size_t)c];
}

void Exec::install_policy_hooks() {
  md.can_send = [this](int sender, const wire::Msg &m, int recipient, int addressed, bool requested) {
    pol::MsgFacts f;
    f.m = &m;
    f.nfds = m.unix_fds();
    f.requested_reply = requested;
    f.eavesdropping = recipient >= 0 && addressed != recipient && m.has_field(wire::F_DESTINATION);
    f.peer_names = names_of(recipient);
    pol::Opts o;
    o.send_eavesdrop_ignored = md.known.count("C06-send-rule-eavesdrop-ignored") != 0;
    o.hits = &md.finding_hits["C06-send-rule-eavesdrop-ignored"];
    const auto *rs = active_rules(sender);
    if (!rs) return true;
    bool ok = pol::may_send(*rs, f, o);
    counters[ok ? "policy_send_allowed" : "policy_send_denied"]++;
    return ok;
  };
  md.can_receive = [this](int sender, const wire::Msg &m, int recipient, int addressed, bool requested) {
    pol::MsgFacts f;
    f.m = &m;
    f.nfds = m.unix_fds();
    f.requested_reply = requested;
    f.eavesdropping = addressed != recipient && m.has_field(wire::F_DESTINATION);
    f.peer_names = names_of(sender);
    const auto *rs = active_rules(recipient);
    if (!rs) return true;
    bool ok = pol::may_receive(*rs, f);
    counters[ok ? "policy_receive_allowed" : "policy_receive_denied"]++;
    return ok;
  };
  md.can_own = [this](int c, const std::string &name) {
    const auto *rs = active_rules(c);
    if (!rs) return true;
    bool ok = pol::may_own(*rs, name);
    counters[ok ? "policy_own_allowed" : "policy_own_denied"]++;
    return ok;
  };
}

void Exec::finish() {}

// Listed finding C14-reload-not-atomic: nothing that happened while the configuration in force was unspecified is
// compared (not the probes' replies, not the copies an eavesdropper may or may not have been entitled to):
// settle and forget it.
void Exec::forget_unspecified_window() {
  if (skip_until_retry) {
    w.quiesce();
    for (size_t i = 0; i < w.clients.size(); i++) {
      if (!w.clients[i].closed && w.clients[i].connected) w.drain((int)i);
      w.clients[i].got_checked = w.clients[i].got.size();
      if (i < md.exp.size()) md.exp[i].clear();
      if (i < md.floating.size()) md.floating[i].clear();
    }
    pending_choices.clear();
  }
  skip_until_retry = false;
  md.cfg_unspecified = false;
}

core::RunResult execute(const core::Plan &plan, bool log) {
  if (plan.C("oom.enumerate", 0) == 0) {
    Exec ex(plan, log);
    return ex.run();
  }
  // C14 fault enumeration: fault-free pass counts the allocations n of the operation, then the plan
  // is re-executed n times with allocation k = 0..n-1 of that operation failing
  core::Plan p = plan;
  p.cfg["oom.enumerate"] = "0";
  p.cfg["oom.k"] = "-1";
  core::RunResult base;
  {
    Exec ex(p, log);
    base = ex.run();
  }
  if (!base.ok) { base.detail = "[oom.k=-1] " + base.detail; return base; }
  long n = (long)base.counters["oom_n"];
  base.counters["oom_points"] = (uint64_t)n;
  base.counters["oom_runs"] = 0;
  std::set<uint64_t> hashes;
  // "... and additionally every pair of failing allocations for the short operations": for operations of at most
  // PAIR_MAX allocations every (k, gap) - a second failure gap allocations after the first (hook H5)
  const long PAIR_MAX = 14, GAP_MAX = 10;
  long pinned_gap = plan.C("oom.gap", -2);       // a replay / minimisation pins the pair
  std::vector<std::pair<long, long>> points;
  for (long k = 0; k < n; k++) points.push_back({k, -1});
  if (n <= PAIR_MAX && plan.C("oom.pairs", 1) != 0)
    for (long k = 0; k < n; k++) for (long g = 0; g <= GAP_MAX; g++) points.push_back({k, g});
  else if (n <= 120 && plan.C("oom.pairs", 1) != 0)
    // longer operations: a sample of pairs (every other first failure; the next allocation, and two further ones)
    for (long k = 0; k < n; k += 2) for (long g : {0L, 3L, 9L}) points.push_back({k, g});
  if (n > 400 && plan.C("oom.all", 0) == 0) {
    // long operations (a configuration reload parses a whole file): the last 150 allocations - where state changes
    // hands - and a seeded sample of 250 of the others
    points.clear();
    simk::Rng pr(plan.seed ^ 0x5eedc0ffeeULL);
    std::set<long> ks;
    for (long k = n - 150; k < n; k++) ks.insert(k);
    while ((long)ks.size() < 400) ks.insert((long)pr.below((uint64_t)(n - 150)));
    for (long k : ks) points.push_back({k, -1});
    base.counters["oom_sampled_operations"] = 1;
  }
  if (pinned_gap >= -1) { points.clear(); for (long k = 0; k < n; k++) points.push_back({k, pinned_gap}); }
  // oom.skip: continue an enumeration behind a fault point that has already been reported (the driver asks for
  // this so that one known finding does not shadow what the later fault points of the same operation do)
  long skip = plan.C("oom.skip", 0);
  long idx = -1;
  for (auto &pt : points) {
    long k = pt.first;
    idx++;
    if (idx < skip) continue;
    if (getenv("SIM_OOMK_TRACE")) { printf("OOMK %ld %ld %ld\n", k, pt.second, idx); fflush(stdout); }
    p.cfg["oom.k"] = std::to_string(k);
    p.cfg["oom.gap"] = std::to_string(pt.second);
    Exec ex(p, false);
    core::RunResult r = ex.run();
    base.counters["oom_runs"]++;
    if (pt.second >= 0) base.counters["oom_pair_runs"]++;
    hashes.insert(r.hash);
    for (auto &kv : r.counters)
      if (kv.first.compare(0, 4, "oom_") == 0 && kv.first != "oom_n") base.counters[kv.first] += kv.second;
    if (!r.ok) {
      r.detail = "[oom.k=" + std::to_string(k) + (pt.second >= 0 ? ",gap=" + std::to_string(pt.second) : std::string("")) + ",idx=" + std::to_string(idx) + "] " + r.detail;
      r.counters = base.counters;
      if (log) {   // show the failing execution, not the fault-free one
        Exec again(p, true);
        core::RunResult lr = again.run();
        r.sample = lr.sample;
      } else r.sample = "HISTORY " + r.sample + "\n";
      return r;
    }
  }
  base.counters["oom_distinct_traces"] = hashes.size();
  base.nontrivial = n > 0;
  return base;
}

}  // namespace checks
