// sim/harness/simhelper.cc — C19, helper clause: bus/activation-helper.c
// (run_launch_helper) over generated name arguments, configurations and
// service-file contents, with an allocation failure at a chosen allocation.
// "The activation helper executes a program only for a syntactically valid bus
// name whose service file, found in the configured service directories,
// declares exactly that name together with an Exec line and a User."
// execv() is a link-time seam: reaching it is the observation.
#include <dirent.h>
#include <errno.h>
#include <stdio.h>
#include <stdlib.h>
#include <string.h>
#include <sys/stat.h>
#include <unistd.h>

#include <algorithm>

#include "codec/wire.h"
#include "core/core.h"
#include "kernel/kernel.h"

extern "C" {
#include <dbus/dbus.h>
int _dbus_get_fail_alloc_counter(void);
void _dbus_set_fail_alloc_counter(int until_next_fail);
int _dbus_get_malloc_blocks_outstanding(void);
dbus_bool_t run_launch_helper(const char *bus_name, DBusError *error);
}

extern "C" __attribute__((used, visibility("default"))) const char *__asan_default_options() {
  return "exitcode=77:detect_leaks=0:abort_on_error=0:allocator_may_return_null=1:handle_abort=1";
}
extern "C" __attribute__((used, visibility("default"))) const char *__ubsan_default_options() { return "print_stacktrace=1:halt_on_error=1:exitcode=77"; }

using core::fail;
using core::Plan;
using core::Step;

// ---- the seam: what would have been executed
static std::vector<std::vector<std::string>> g_execs;
extern "C" int __wrap_execv(const char *path, char *const argv[]) {
  if (!path || !*path) { errno = ENOENT; return -1; }   // nothing there to execute: the real call fails the same way
  std::vector<std::string> a;
  a.push_back(path ? path : "");
  for (int i = 0; argv && argv[i]; i++) a.push_back(argv[i]);
  g_execs.push_back(a);
  return 0;   // "succeeds": the caller returns TRUE
}

namespace {

std::string scratch() {
  static std::string dir;
  if (dir.empty()) {
    mkdir("/verif/build/scratch", 0755);
    std::string t = "/verif/build/scratch/hXXXXXX";
    std::vector<char> b(t.begin(), t.end());
    b.push_back(0);
    if (!mkdtemp(b.data())) core::harness_error("mkdtemp failed");
    dir = b.data();
    static struct Cleaner { ~Cleaner() { std::string c = "rm -rf '" + dir + "'"; if (system(c.c_str())) {} } } cleaner;
  }
  return dir;
}

void remove_tree(const std::string &path) {
  DIR *d = opendir(path.c_str());
  if (d) {
    while (struct dirent *e = readdir(d)) {
      std::string n = e->d_name;
      if (n == "." || n == "..") continue;
      std::string p = path + "/" + n;
      struct stat st;
      if (lstat(p.c_str(), &st) == 0 && S_ISDIR(st.st_mode)) remove_tree(p); else unlink(p.c_str());
    }
    closedir(d);
  }
  rmdir(path.c_str());
}

// argv of an Exec line, for the quoting shapes the generator produces (sh-like: single quotes literal, double
// quotes with \" and \\, backslash escapes outside quotes).  false: not parseable (unterminated quote, nothing there)
bool split_exec(const std::string &s, std::vector<std::string> *out) {
  std::vector<std::string> v;
  std::string cur;
  bool have = false;
  size_t i = 0;
  while (i < s.size()) {
    char c = s[i];
    if (c == ' ' || c == '\t') { if (have) { v.push_back(cur); cur.clear(); have = false; } i++; continue; }
    if (c == '\'') {
      size_t e = s.find('\'', i + 1);
      if (e == std::string::npos) return false;
      cur += s.substr(i + 1, e - i - 1); have = true; i = e + 1; continue;
    }
    if (c == '"') {
      i++;
      bool closed = false;
      while (i < s.size()) {
        if (s[i] == '"') { closed = true; i++; break; }
        if (s[i] == '\\' && i + 1 < s.size() && (s[i + 1] == '"' || s[i + 1] == '\\' || s[i + 1] == '$' || s[i + 1] == '`')) { cur += s[i + 1]; i += 2; continue; }
        cur += s[i++];
      }
      if (!closed) return false;
      have = true;
      continue;
    }
    if (c == '\\') { if (i + 1 >= s.size()) return false; cur += s[i + 1]; have = true; i += 2; continue; }
    cur += c; have = true; i++;
  }
  if (have) v.push_back(cur);
  if (v.empty()) return false;
  *out = v;
  return true;
}

struct FileSpec { int dir; std::string name; int kind; std::string decl_name, exec, user; };
// kinds: 0 complete, 1 no Name, 2 no Exec, 3 no User, 4 other section name, 5 garbage

std::string render(const FileSpec &f) {
  if (f.kind == 5) return "this is not a service description\n";
  std::string s = f.kind == 4 ? "[Desktop Entry]\n" : "[D-BUS Service]\n";
  if (f.kind != 1) s += "Name=" + f.decl_name + "\n";
  if (f.kind != 2) s += "Exec=" + f.exec + "\n";
  if (f.kind != 3) s += "User=" + f.user + "\n";
  return s;
}

core::RunResult run(const Plan &plan, bool log) {
  core::RunResult res;
  core::Trace tr;
  tr.reset(log);
  std::map<std::string, uint64_t> counters;
  std::string hist;
  try {
    std::string base = scratch();
    remove_tree(base + "/d0");
    remove_tree(base + "/d1");
    mkdir((base + "/d0").c_str(), 0755);
    mkdir((base + "/d1").c_str(), 0755);
    std::vector<FileSpec> files;
    std::string arg;
    int oom = -1;
    for (auto &s : plan.steps) {
      if (s.t == "file") {
        FileSpec f;
        f.dir = (int)s.N(0, 0) & 1; f.kind = (int)s.N(1, 0);
        f.name = s.S(0); f.decl_name = s.S(1); f.exec = s.S(2); f.user = s.S(3);
        if (f.name.find('/') != std::string::npos || f.name.empty()) continue;
        std::string path = base + "/d" + std::to_string(f.dir) + "/" + f.name + ".service";
        FILE *fp = fopen(path.c_str(), "w");
        if (!fp) continue;    // (an over-long file name)
        std::string body = render(f);
        fwrite(body.data(), 1, body.size(), fp);
        fclose(fp);
        files.erase(std::remove_if(files.begin(), files.end(), [&](const FileSpec &o) { return o.dir == f.dir && o.name == f.name; }), files.end());   // overwritten
        files.push_back(f);
        tr.ev("file d%d kind=%d name=%s decl=%s exec=%s", f.dir, f.kind, wire::hex_encode(f.name.substr(0, 24)).c_str(), wire::hex_encode(f.decl_name.substr(0, 24)).c_str(), wire::hex_encode(f.exec.substr(0, 24)).c_str());
      } else if (s.t == "run") { arg = s.S(0); oom = (int)s.N(0, -1); }
    }
    std::string conf = base + "/system.conf";
    {
      FILE *fp = fopen(conf.c_str(), "w");
      if (!fp) core::harness_error("cannot write config");
      fprintf(fp, "<!DOCTYPE busconfig PUBLIC \"-//freedesktop//DTD D-Bus Bus Configuration 1.0//EN\" \"http://www.freedesktop.org/standards/dbus/1.0/busconfig.dtd\">\n"
                  "<busconfig>\n  <user>root</user>\n  <type>system</type>\n  <servicedir>%s/d0</servicedir>\n  <servicedir>%s/d1</servicedir>\n</busconfig>\n", base.c_str(), base.c_str());
      fclose(fp);
    }
    setenv("TEST_LAUNCH_HELPER_CONFIG", conf.c_str(), 1);

    // ---- the model: which file is "the service file found", and does it qualify
    bool valid_name = wire::valid_bus_name(arg);
    const FileSpec *found = nullptr;
    bool ambiguous = false;        // an unloadable file shadows a later one: the documents do not say whether the search goes on
    for (int d = 0; d < 2 && !found; d++)
      for (auto &f : files)
        if (f.dir == d && f.name == arg) {
          // a file that is not a service description at all (or describes something else): whether the search
          // goes on to the next directory is not stated
          if (f.kind == 5 || f.kind == 4) { ambiguous = true; continue; }
          found = &f;
          break;
        }
    std::vector<std::string> want_argv;
    bool should_exec = valid_name && found && found->kind == 0 && found->decl_name == arg && split_exec(found->exec, &want_argv);
    if (ambiguous && found) { counters["choice:garbage_file_shadows_valid_one"]++; }

    // ---- run the real helper
    g_execs.clear();
    int base_blocks = _dbus_get_malloc_blocks_outstanding();
    DBusError err;
    dbus_error_init(&err);
    if (oom >= 0) _dbus_set_fail_alloc_counter(oom);
    dbus_bool_t ok = run_launch_helper(arg.c_str(), &err);
    bool oom_fired = oom >= 0 && _dbus_get_fail_alloc_counter() > oom;
    _dbus_set_fail_alloc_counter(0x7fffffff);
    std::string en = dbus_error_is_set(&err) ? err.name : "";
    tr.ev("helper '%s' -> %d %s execs=%zu", wire::hex_encode(arg.substr(0, 40)).c_str(), (int)ok, en.c_str(), g_execs.size());
    hist = "helper(name=" + (arg.size() > 50 ? arg.substr(0, 50) + "..." : arg) + ") files=" + std::to_string(files.size()) + (oom >= 0 ? " oom@" + std::to_string(oom) : "");
    dbus_error_free(&err);
    counters["helper_runs"]++;
    if (oom_fired) counters["fault:alloc_failure"]++;

    if (g_execs.size() > 1) fail("oracle:C19:helper-exec", "the helper executed %zu programs in one invocation", g_execs.size());
    if (!g_execs.empty()) {
      counters["probe:helper_executed"]++;
      if (!valid_name) fail("oracle:C19:helper-exec", "the helper executed %s for the argument '%s', which is not a valid bus name", g_execs[0][0].c_str(), arg.c_str());
      if (!found) fail("oracle:C19:helper-exec", "the helper executed %s for '%s' although no service directory has a file for that name", g_execs[0][0].c_str(), arg.c_str());
      if (!should_exec)
        fail("oracle:C19:helper-exec", "the helper executed %s for '%s' although its service file does not declare exactly that name with Exec and User (kind %d, Name=%s)", g_execs[0][0].c_str(), arg.c_str(),
             found->kind, found->decl_name.c_str());
      // argv: path, then the words of Exec
      std::vector<std::string> got(g_execs[0].begin() + 1, g_execs[0].end());
      // the program must be the one the Exec line names; the exact argument vector is beyond the statement
      // (observed: trailing blanks in Exec yield an extra empty argument) and only counted
      if (g_execs[0][0] != want_argv[0] || got.empty() || got[0] != want_argv[0])
        fail("oracle:C19:helper-argv", "Exec=%s: the helper executed '%s', the line names '%s'", found->exec.c_str(), g_execs[0][0].c_str(), want_argv[0].c_str());
      if (got != want_argv) counters["probe:argv_differs_from_shell_split"]++;
      if (!ok) fail("oracle:C19:helper-exec", "the helper executed the program and reported failure");
    } else {
      if (ok) fail("oracle:C19:helper-exec", "the helper reported success without executing anything");
      if (should_exec && !ambiguous) {
        if (!oom_fired) fail("oracle:C19:helper-refused", "the helper refused (%s) a valid name whose service file declares it with Exec and User", en.c_str());
        if (en != "org.freedesktop.DBus.Error.NoMemory") fail("oracle:C19:helper-refused", "under an allocation failure the helper refused a valid request with %s instead of NoMemory", en.c_str());
        counters["probe:helper_nomemory"]++;
      } else counters[valid_name ? (found ? "probe:helper_refused_file" : "probe:helper_refused_no_file") : "probe:helper_refused_name"]++;
      if (en.empty()) fail("oracle:C19:helper-exec", "the helper failed without setting an error");
    }
    if (_dbus_get_malloc_blocks_outstanding() != base_blocks) {
      // (dbus_shutdown would release library globals; the helper is a one-shot process, but a growing count is still a leak per call)
      dbus_shutdown();
      if (_dbus_get_malloc_blocks_outstanding() != base_blocks)
        fail("leak:blocks", "%d blocks outstanding after run_launch_helper returned (baseline %d)", _dbus_get_malloc_blocks_outstanding(), base_blocks);
    }
  } catch (core::Violation &v) {
    res.ok = false;
    res.cls = v.cls;
    res.detail = v.detail;
  }
  res.hash = tr.h;
  res.counters = counters;
  res.nontrivial = true;
  res.sample = hist;
  if (tr.keep_text) res.sample = tr.text + "HISTORY " + hist + "\n";
  return res;
}

Plan gen(uint64_t seed, bool th) {
  (void)th;
  simk::Rng r(seed * 0x9e3779b1u + 19);
  Plan p;
  p.prop = "C19H";
  p.seed = seed;
  static const char *good[] = {"com.example.a", "com.example.a.b", "org.test.Svc", "com.example.ab", "x.y", "com.example.A_1"};
  static const char *bad[] = {"", "noperiod", ".a.b", "a..b", "a.b.", "com.example.7x", "../../etc/passwd", "com/example.x", "com.example.a b", "com.example.\xc3\xa4", "-a.b", "com.example.a\n"};
  // (no backslashes: the desktop-file format has its own escape rules, which would decide before the shell-style split does)
  static const char *execs[] = {"/usr/libexec/svc", "/usr/libexec/svc --session --name x", "'/opt/my svc/run' x", "\"/opt/a b/run\" \"c d\" e", "/usr/bin/env 'x y' z", "'/bin/unterminated", "\"/bin/unterminated x", "",
                                "   /usr/libexec/svc   spaced   ", "/usr/libexec/svc ''"};
  std::string target = r.pct(75) ? good[r.below(6)] : (r.pct(80) ? bad[r.below(12)] : std::string(300, 'a') + ".b");
  auto add = [&](const std::string &t, std::vector<int64_t> n, std::vector<std::string> s) { Step st; st.t = t; st.n = std::move(n); st.s = std::move(s); p.steps.push_back(st); };
  int nfiles = (int)r.range(0, 4);
  bool placed = false;
  for (int i = 0; i < nfiles; i++) {
    bool for_target = !placed && r.pct(70);
    std::string fname = for_target ? target : good[r.below(6)];
    int kind = r.pct(55) ? 0 : (int)r.range(1, 5);
    std::string decl = r.pct(kind == 0 ? 75 : 50) ? fname : good[r.below(6)];
    if (r.pct(5)) decl = fname + ".x";
    if (for_target) placed = true;
    add("file", {(int64_t)r.below(2), kind}, {fname, decl, execs[r.below(10)], r.pct(80) ? "root" : "nobody"});
  }
  // occasionally a file whose NAME is an invalid argument spelled as a file name
  if (r.pct(15) && target.find('/') == std::string::npos && !target.empty() && target.size() < 100) add("file", {(int64_t)r.below(2), 0}, {target, target, execs[0], "root"});
  add("run", {r.pct(45) ? (int64_t)r.below(90) : -1}, {target});
  return p;
}

}  // namespace

int main(int argc, char **argv) {
  setvbuf(stdout, nullptr, _IOLBF, 0);
  simk::kernel_init();
  core::Harness h;
  h.gen = [](const std::string &prop, uint64_t seed, bool thorough) { (void)prop; return gen(seed, thorough); };
  h.run = [](const core::Plan &p, bool log) { return run(p, log); };
  return core::worker_main(argc, argv, h);
}
