// sim/harness/libpending.cc — C17: every call awaiting a reply completes exactly
// once.  A real client DBusConnection against a scripted peer; the application
// (harness) issues calls with timeouts, observes them by notify callback,
// polling or blocking, cancels, dispatches; the peer answers in any order,
// twice, with unknown serials, not at all, or closes.
#include <stdio.h>
#include <stdlib.h>
#include <string.h>

#include <algorithm>
#include <deque>
#include <memory>
#include <set>

#include "codec/wire.h"
#include "core/core.h"
#include "harness/libchecks.h"
#include "harness/libworld.h"
#include "kernel/kernel.h"
#include "sched/sched.h"

extern "C" {
#include <dbus/dbus.h>
void _dbus_verif_connection_set_next_serial(DBusConnection *connection, dbus_uint32_t serial);
}

using core::fail;
using core::Plan;
using core::Step;
using simk::K;

namespace libchecks {

namespace {

static thread_local int tl_me = -1;   // index of the application thread running this code (thread mode), -1 otherwise

struct Call {                       // model + observation of one call
  DBusPendingCall *pc = nullptr;
  uint32_t serial = 0;
  int64_t sent_us = 0;
  int64_t deadline_us = -1;         // -1: infinite
  bool cancelled = false;
  bool cancel_started = false;      // a thread is inside dbus_pending_call_cancel() for it (or was)
  bool unreffed = false;
  int notified = 0;                 // times the notify callback ran
  bool has_notify = false;
  int64_t completed_seen_us = -1;   // virtual time at which the harness first saw it completed
  bool checked = false;             // its reply has been stolen and judged
  int owner_thread = -1;
  int users = 0;                    // harness threads currently inside an operation on it (thread mode)
};

struct PeerRec {                    // what the peer did about one call serial (kept by serial: in thread mode the peer can
                                    // answer a call before the sending thread has returned from the library)
  int replies_written = 0;
  int64_t first_reply_us = -1;
  uint64_t first_reply_end = 0;     // peer stream offset at which that reply ends
  int64_t consumed_us = -1;         // when the harness first saw that the library had read that reply completely
  uint64_t consumed_seq = 0;
  uint64_t first_reply_seq = 0;     // scenario event number of that write (orders it against peer:close)
  std::string first_reply_token;
  bool first_reply_is_error = false;
};

struct Scenario {
  const Plan &plan;
  core::Trace tr;
  lw::LibWorld *w = nullptr;
  DBusConnection *c = nullptr;
  simk::End *peer = nullptr;
  std::string peer_in;              // bytes the library wrote, not yet parsed
  bool peer_binary = false;
  bool peer_closed = false;
  int64_t peer_closed_us = -1;
  uint64_t peer_closed_seq = 0;
  uint64_t evseq = 0;               // global event sequence number of peer actions
  std::vector<wire::Msg> peer_calls;   // method calls seen by the peer, in order
  std::set<size_t> peer_answered;
  std::map<uint32_t, PeerRec> prec;
  PeerRec &P(const Call &k) { return prec[k.serial]; }
  std::deque<Call> calls;           // stable addresses: threads hold pointers across scheduling points
  int nthreads = 0;                 // > 0: thread mode (several application threads, blocking API, no main loop)
  std::map<std::string, uint64_t> counters;
  std::string hist;
  size_t step_idx = 0;
  uint64_t token = 0;
  bool in_block = false;
  std::set<std::string> known;

  explicit Scenario(const Plan &p) : plan(p) {}

  void note(const std::string &s) { if (hist.size() < 2500) hist += s + " "; }

  // ---- the scripted peer
  void peer_pump() {
    if (!peer) return;
    std::vector<int> fds;
    std::string d = K->actor_read(peer, (size_t)-1, &fds);
    for (int fd : fds) simk::real_close(fd);
    peer_in += d;
    while (!peer_binary) {
      if (!peer_in.empty() && peer_in[0] == '\0') peer_in.erase(0, 1);
      size_t p = peer_in.find("\r\n");
      if (p == std::string::npos) return;
      std::string line = peer_in.substr(0, p);
      peer_in.erase(0, p + 2);
      if (line.compare(0, 4, "AUTH") == 0) K->actor_write(peer, "OK 0123456789abcdef0123456789abcdef\r\n");
      else if (line == "NEGOTIATE_UNIX_FD") K->actor_write(peer, "AGREE_UNIX_FD\r\n");
      else if (line == "BEGIN") peer_binary = true;
      else K->actor_write(peer, "ERROR\r\n");
    }
    while (!peer_in.empty()) {
      wire::ParseResult r = wire::parse(peer_in);
      if (r.status == wire::P_NEED_MORE) break;
      if (r.status == wire::P_INVALID) fail("oracle:C02:library-emitted-invalid", "the library wrote bytes the independent codec rejects (%s)", r.reason.c_str());
      peer_in.erase(0, r.total_len);
      if (r.msg.type == wire::T_CALL) peer_calls.push_back(r.msg);
      tr.ev("peer got type=%d serial=%u", r.msg.type, r.msg.serial);
    }
  }

  // note, as early as the harness can see it, that the library has read a call's reply completely
  void stamp_consumed() {
    if (!peer) return;
    for (auto &kv : prec) {
      PeerRec &k = kv.second;
      if (k.first_reply_end > 0 && k.consumed_seq == 0 && peer->peer_consumed >= k.first_reply_end) { k.consumed_us = K->now_us; k.consumed_seq = ++evseq; }
    }
  }

  Call *call_by_serial(uint32_t s) { for (auto &k : calls) if (k.serial == s) return &k; return nullptr; }

  // n=[which, kind, split] kind: 0 return 1 error 2 duplicate of an answered one 3 unknown serial 4 reply to nothing (serial never used)
  void peer_reply(const Step &s) {
    stamp_consumed();
    peer_pump();
    if (peer_closed || !peer_binary) return;
    std::vector<size_t> open, done;
    for (size_t i = 0; i < peer_calls.size(); i++) (peer_answered.count(i) ? done : open).push_back(i);
    int kind = (int)s.N(1, 0);
    uint32_t rs = 0;
    if (kind == 3) rs = 0x7fff0000u + (uint32_t)s.N(0, 0);
    else if (kind == 2) { if (done.empty()) return; rs = peer_calls[done[(size_t)s.N(0, 0) % done.size()]].serial; }
    else { if (open.empty()) return; size_t i = open[(size_t)s.N(0, 0) % open.size()]; rs = peer_calls[i].serial; peer_answered.insert(i); }
    std::string tok = "r" + std::to_string(++token);
    wire::Msg m = (kind == 1) ? wire::Msg::error((uint32_t)(1000 + token), rs, "", "com.example.Error.Peer", {wire::Value::string(tok)})
                              : wire::Msg::method_return((uint32_t)(1000 + token), rs, "", {wire::Value::string(tok)});
    m.remove_field(wire::F_DESTINATION);
    std::string bytes = wire::marshal(m);
    long split = s.N(2, 0);
    if (split > 0 && (size_t)split < bytes.size()) {
      // first part now, the rest with the next peer action (or at settle)
      K->actor_write(peer, bytes.substr(0, (size_t)split));
      peer_held += bytes.substr((size_t)split);
    } else {
      K->actor_write(peer, peer_held + bytes);
      peer_held.clear();
    }
    if (kind != 3) {
      if (peer_held.empty() || split <= 0) {
        PeerRec &k = prec[rs];
        k.replies_written++;
        if (k.first_reply_us < 0) { k.first_reply_us = K->now_us; k.first_reply_seq = ++evseq; k.first_reply_end = peer->bytes_out; k.first_reply_token = tok; k.first_reply_is_error = kind == 1; }
      } else {
        held_for = rs; held_token = tok; held_is_error = kind == 1;
      }
    }
    note("peer:reply(rs=" + std::to_string(rs) + ",kind=" + std::to_string(kind) + ")");
  }
  std::string peer_held;
  uint32_t held_for = 0;
  std::string held_token;
  bool held_is_error = false;

  void peer_flush_held() {
    if (peer_held.empty() || peer_closed) return;
    K->actor_write(peer, peer_held);
    peer_held.clear();
    if (held_for) {
      PeerRec &k = prec[held_for];
      k.replies_written++;
      if (k.first_reply_us < 0) { k.first_reply_us = K->now_us; k.first_reply_seq = ++evseq; k.first_reply_end = peer->bytes_out; k.first_reply_token = held_token; k.first_reply_is_error = held_is_error; }
    }
    held_for = 0;
  }

  void peer_close() {
    if (peer_closed || !peer) return;
    stamp_consumed();
    peer_closed = true;
    peer_closed_us = K->now_us;
    peer_closed_seq = ++evseq;
    peer_held.clear();
    K->actor_close(peer);
    note("peer:close");
  }

  // ---- application side
  static void notify_cb(DBusPendingCall *pc, void *data) {
    Scenario *sc = (Scenario *)data;
    for (auto &k : sc->calls)
      if (k.pc == pc) {
        k.notified++;
        sc->tr.ev("notify serial=%u", k.serial);
        if (k.cancelled) fail("oracle:C17:cancelled-call-notified", "the notify function of call %u ran although the call had been cancelled", k.serial);
        if (k.notified > 1) fail("oracle:C17:completed-twice", "the notify function of call %u ran %d times", k.serial, k.notified);
        if (!dbus_pending_call_get_completed(pc)) fail("oracle:C17:notify-before-completion", "notify for call %u while dbus_pending_call_get_completed() is false", k.serial);
      }
  }

  void do_call(const Step &s) {
    if (!c || !dbus_connection_get_is_connected(c)) return;
    DBusMessage *m = dbus_message_new_method_call(nullptr, "/obj", "com.example.Iface", "Call");
    if (!m) core::harness_error("oom");
    int timeout = (int)s.N(0, -1);
    DBusPendingCall *pc = nullptr;
    if (!dbus_connection_send_with_reply(c, m, &pc, timeout)) core::harness_error("send_with_reply oom");
    uint32_t serial = dbus_message_get_serial(m);
    dbus_message_unref(m);
    if (!pc) { counters["call_on_disconnected"]++; return; }
    Call k;
    k.pc = pc;
    k.serial = serial;
    k.sent_us = K->now_us;
    k.owner_thread = tl_me;
    long eff = timeout == -1 ? 25000 : timeout;
    k.deadline_us = timeout == 0x7fffffff ? -1 : K->now_us + (int64_t)eff * 1000;
    if (serial == 0) fail("oracle:C17:zero-serial", "a message was sent with serial 0");
    for (auto &o : calls) if (o.serial == serial && !wrapped) fail("oracle:C17:serial-reused", "serial %u was assigned to two messages", serial);
    calls.push_back(k);
    if (s.N(1, 0) == 0) set_notify(calls.size() - 1);
    note("call(serial=" + std::to_string(serial) + ",timeout=" + std::to_string(timeout) + ")");
  }
  bool wrapped = false;

  struct Use { Call *k; explicit Use(Call *c) : k(c) { k->users++; } ~Use() { k->users--; } };

  void set_notify(size_t i) {
    Call &k = calls[i];
    if (k.has_notify || k.unreffed || k.cancelled) return;
    Use u(&k);
    k.has_notify = true;
    bool was_completed = dbus_pending_call_get_completed(k.pc);
    if (!dbus_pending_call_set_notify(k.pc, notify_cb, this, nullptr)) core::harness_error("set_notify oom");
    // setting a notify on an already completed call does not call it: the application looks itself
    if (was_completed) k.has_notify = false;
  }

  Call *pick_call(long j, bool only_live) {
    std::vector<Call *> v;
    for (auto &k : calls) if (!k.unreffed && (!only_live || (!k.cancelled))) v.push_back(&k);
    if (v.empty()) return nullptr;
    return v[(size_t)j % v.size()];
  }

  void judge(Call &k) {
    // called once the call is seen completed; steals the reply and checks it
    if (k.checked || k.cancelled || k.unreffed) return;
    k.checked = true;     // before the first library call: in thread mode another thread may run at any lock
    if (!dbus_pending_call_get_completed(k.pc)) { k.checked = false; return; }
    stamp_consumed();
    if (k.completed_seen_us < 0) k.completed_seen_us = K->now_us;
    DBusMessage *r = dbus_pending_call_steal_reply(k.pc);
    if (!r) fail("oracle:C17:no-reply-object", "call %u is completed but has no reply message", k.serial);
    uint32_t rs = dbus_message_get_reply_serial(r);
    int type = dbus_message_get_type(r);
    const char *en = dbus_message_get_error_name(r);
    std::string errname = en ? en : "";
    std::string tok;
    {
      DBusMessageIter it;
      if (dbus_message_iter_init(r, &it) && dbus_message_iter_get_arg_type(&it) == DBUS_TYPE_STRING) { const char *s = nullptr; dbus_message_iter_get_basic(&it, &s); tok = s ? s : ""; }
    }
    dbus_message_unref(r);
    counters["completions_judged"]++;
    if (rs != k.serial) fail("oracle:C17:wrong-reply", "call %u completed with a reply whose reply-serial is %u", k.serial, rs);
    bool local_error = type == DBUS_MESSAGE_TYPE_ERROR && (errname == "org.freedesktop.DBus.Error.NoReply" || errname == "org.freedesktop.DBus.Error.Disconnected" ||
                                                             errname == "org.freedesktop.DBus.Error.Timeout" || errname == "org.freedesktop.DBus.Error.TimedOut");
    bool is_peer_reply = !local_error;
    if (is_peer_reply) {
      counters["completed_with_reply"]++;
      if (P(k).first_reply_us < 0) fail("oracle:C17:wrong-reply", "call %u completed with a reply (%s) the peer never wrote for it", k.serial, tok.c_str());
      if (tok != P(k).first_reply_token) fail("oracle:C17:wrong-reply", "call %u completed with reply '%s', the first reply written for it was '%s'", k.serial, tok.c_str(), P(k).first_reply_token.c_str());
    } else {
      counters["completed_with_local_error"]++;
      // a locally generated error is legitimate only once the deadline has passed or the connection is gone
      bool deadline_passed = k.deadline_us >= 0 && K->now_us >= k.deadline_us;
      bool closed = peer_closed;
      if (!deadline_passed && !closed)
        fail("oracle:C17:early-timeout", "call %u completed with %s %lld ms before its timeout and with the connection open", k.serial, errname.c_str(), (long long)((k.deadline_us - K->now_us) / 1000));
      // never when the library had already read the genuine reply while the call could still complete normally
      if (P(k).consumed_seq && !wrapped && (!closed || P(k).consumed_seq < peer_closed_seq) && (k.deadline_us < 0 || P(k).consumed_us < k.deadline_us))
        fail("oracle:C17:reply-lost", "call %u completed with %s although the library had read its reply %s", k.serial, errname.c_str(),
             closed ? "before the peer closed" : "and the connection is open");
      // and not when the genuine reply had been fully written before any of that could happen AND was seen first... (either is accepted when both were possible)
      if (P(k).first_reply_us >= 0 && !closed && k.deadline_us >= 0 && P(k).first_reply_us < k.deadline_us && k.completed_seen_us < k.deadline_us)
        fail("oracle:C17:reply-lost", "call %u completed with %s although its reply was written %lld ms before the deadline", k.serial, errname.c_str(), (long long)((k.deadline_us - P(k).first_reply_us) / 1000));
    }
  }

  void observe_all() {
    for (auto &k : calls) {
      if (k.unreffed || k.cancelled) continue;
      Use u(&k);
      if (dbus_pending_call_get_completed(k.pc) && k.completed_seen_us < 0) k.completed_seen_us = K->now_us;
    }
  }

  bool world_step(int64_t deadline_us) {
    // the application is blocked inside the library: let the plan's next peer actions happen
    while (step_idx + 1 < plan.steps.size()) {
      const Step &n = plan.steps[step_idx + 1];
      if (n.t != "preply" && n.t != "pclose" && n.t != "adv") break;
      step_idx++;
      tr.ev("(while blocked) step %s", n.t.c_str());
      counters["peer_action_during_block"]++;
      if (n.t == "preply") { peer_flush_held(); peer_reply(n); }
      else if (n.t == "pclose") peer_close();
      else { int64_t t = K->now_us + n.N(0, 0) * 1000; if (deadline_us >= 0 && t > deadline_us) t = deadline_us; K->now_us = t; }
      return true;
    }
    if (deadline_us >= 0) { if (K->now_us < deadline_us) K->now_us = deadline_us; return true; }
    // blocked forever with nothing scheduled: the peer goes away (a legal event) rather than deadlocking the run
    if (!peer_closed) { counters["forced_peer_close"]++; peer_close(); return true; }
    return false;
  }

  // one application / peer action (both modes)
  void exec_step(lw::LibWorld &world, const Step &s) {
    if (s.t == "call") do_call(s);
    else if (s.t == "notify") { if (!calls.empty()) set_notify((size_t)s.N(0, 0) % calls.size()); }
    else if (s.t == "cancel") {
      if (Call *k = pick_call(s.N(0, 0), true)) {
        Use u(k);
        if (!k->checked) {
          // cancel, then look: a call that had completed (or was being completed by another thread) is over, not cancelled
          k->cancel_started = true;
          dbus_pending_call_cancel(k->pc);
          if (dbus_pending_call_get_completed(k->pc)) counters["probe:cancel_after_completion"]++;
          else { k->cancelled = true; counters["probe:cancelled"]++; note("cancel(" + std::to_string(k->serial) + ")"); }
        }
      }
    } else if (s.t == "block") {
      if (Call *k = pick_call(s.N(0, 0), true)) {
        Use u(k);
        if (!k->checked) {
          note("block(" + std::to_string(k->serial) + ")");
          counters["probe:blocked"]++;
          if (nthreads > 0 && k->owner_thread != tl_me) counters["probe:blocked_on_another_threads_call"]++;
          in_block = true;
          if (tl_me >= 0) blocking_on[tl_me] = k;
          dbus_pending_call_block(k->pc);
          if (tl_me >= 0) blocking_on.erase(tl_me);
          in_block = false;
          if (!k->cancelled && !k->cancel_started && !dbus_pending_call_get_completed(k->pc)) fail("oracle:C17:block-returned-incomplete", "dbus_pending_call_block returned for call %u which is not completed", k->serial);
          judge(*k);
        }
      }
    } else if (s.t == "poll") {
      if (Call *k = pick_call(s.N(0, 0), true)) { Use u(k); judge(*k); }
    } else if (s.t == "unref") {
      if (Call *k = pick_call(s.N(0, 0), false)) {
        if (k->users == 0 && (!k->has_notify || k->notified || k->cancelled)) { k->unreffed = true; dbus_pending_call_unref(k->pc); }
      }
    } else if (s.t == "loop" && nthreads == 0) {
      simk::IoProfile pr;
      pr.short_read_pct = (unsigned)s.N(2); pr.one_byte_read_pct = (unsigned)s.N(3); pr.short_write_pct = (unsigned)s.N(4); pr.eintr_pct = (unsigned)s.N(5); pr.eagain_read_pct = (unsigned)s.N(6);
      world.iterate((int)s.N(0, 1), (uint64_t)s.N(1, 1), pr);
      peer_pump();
      observe_all();
    } else if (s.t == "dispatch") {
      dbus_connection_dispatch(c);
      observe_all();
    } else if (s.t == "rwd" || s.t == "loop") {
      if (nthreads > 0) {
        // the dispatching thread of a loop-less application: read, write and dispatch, sleeping up to the given time
        dbus_connection_read_write_dispatch(c, (int)s.N(0, 0) % 200);
      } else {
        // read_write_dispatch with timeout 0 == one non-blocking turn of the library's own loop
        dbus_connection_read_write_dispatch(c, 0);
        // read_write_dispatch() does not announce a dispatch-status change; an application that mixes it
        // with a main loop has to look for itself
        world.poke_dispatch(c);
        peer_pump();
      }
      observe_all();
    } else if (s.t == "preply") { peer_flush_held(); peer_reply(s); }
    else if (s.t == "pclose") peer_close();
    else if (s.t == "adv") {
      int64_t ms = s.N(0, 0);
      if (s.N(1, 0) > 0) {
        // to the deadline of one outstanding call, give or take a millisecond: expiry and arrival at the same instant
        std::vector<const Call *> fin;
        for (auto &k : calls) if (k.deadline_us >= 0 && k.deadline_us > K->now_us && k.deadline_us - K->now_us < 3600ll * 1000000) fin.push_back(&k);
        if (!fin.empty()) {
          const Call *k = fin[(size_t)(s.N(1) - 1) % fin.size()];
          int64_t t = (k->deadline_us - K->now_us) / 1000 + s.N(2, 0);
          if (t > 0) { ms = t; counters["probe:clock_moved_to_a_deadline"]++; }
        }
      }
      world.advance_ms(ms);
    }
    else core::harness_error("unknown step %s", s.t.c_str());
  }

  // ---- thread mode: 2-3 application threads use the blocking API on one connection (no main loop), the peer is
  // one more scheduled actor; the serialising scheduler decides every interleaving from the plan's seed
  void run_threads(lw::LibWorld &world) {
    world.detach_from_loop(c);
    simsched::Sched sched((uint64_t)plan.C("sched.seed", 1));
    sched.spurious_wakeup_pct = (unsigned)plan.C("sched.spurious_pct", 0);
    simk::IoProfile pr;
    pr.short_read_pct = (unsigned)plan.C("io.short_read", 0); pr.one_byte_read_pct = (unsigned)plan.C("io.one_byte_read", 0);
    pr.short_write_pct = (unsigned)plan.C("io.short_write", 0); pr.eintr_pct = (unsigned)plan.C("io.eintr", 0); pr.eagain_read_pct = (unsigned)plan.C("io.eagain_read", 0);
    K->io = pr;
    K->io_rng = simk::Rng((uint64_t)plan.C("sched.seed", 1) ^ 0x5151);
    for (int i = 0; i < nthreads; i++)
      sched.spawn([this, &world, &sched, i] {
        tl_me = i;
        for (auto &st : plan.steps) {
          if (st.a != i) continue;
          sched.yield();
          tr.ev("t%d: step %s", i, st.t.c_str());
          exec_step(world, st);
        }
        tr.ev("t%d: done", i);
      });
    // the peer (and the clock steps of the plan): touches only the simulated kernel
    sched.spawn([this, &world, &sched] {
      for (auto &st : plan.steps) {
        if (st.a >= 0) continue;
        sched.yield();
        if (st.t == "preply" && st.N(1, 0) < 2) {
          // an answer needs a call to answer: give the application threads a few turns to send one
          for (int tries = 0; tries < 40; tries++) {
            peer_pump();
            bool open = false;
            for (size_t i = 0; i < peer_calls.size(); i++) if (!peer_answered.count(i)) open = true;
            if (open) break;
            sched.yield();
          }
        }
        tr.ev("world: step %s", st.t.c_str());
        exec_step(world, st);
      }
    });
    bool ok = false;
    try {
    ok = sched.run(
        [this, &sched](int64_t min_deadline) {
          stamp_consumed();
          // nobody can run.  A thread asleep in poll() inside dbus_pending_call_block() although the library has
          // already read the reply to the call it waits for has missed it: only the thread that owns the I/O path
          // reads, and it looks at what it read before it sleeps again
          for (auto &kv : blocking_on) {
            Call *k = kv.second;
            simsched::Thread *t = sched.threads[(size_t)kv.first];
            if (t->st == simsched::Thread::BLOCKED_POLL && !k->cancelled && !k->cancel_started && P(*k).consumed_seq != 0)
              fail("oracle:C17:asleep-although-reply-read", "thread %d sleeps in poll (%s) inside dbus_pending_call_block() for call %u although the library has already read that call's reply",
                   kv.first, t->deadline_us < 0 ? "no timeout" : "until its timeout", k->serial);
          }
          if (min_deadline >= 0) { if (K->now_us < min_deadline) K->now_us = min_deadline; tr.ev("world: clock to next deadline"); return true; }
          // everybody sleeps without a deadline and the plan has nothing more for the peer to do: the peer goes away (a legal event)
          if (!peer_closed) { counters["forced_peer_close"]++; tr.ev("world: forced close"); peer_close(); return true; }
          return false;
        },
        [this] { stamp_consumed(); });
    } catch (core::Violation &) {
      // an oracle evaluated by the scheduler itself (on the main thread) failed: the application threads stay parked
      threads_stuck = true;
      K->on_block = nullptr;
      throw;
    }
    K->io = simk::IoProfile();
    counters["sched:switches"] += sched.stats.switches;
    counters["sched:preemptions"] += sched.stats.preemptions;
    counters["sched:mutex_waits"] += sched.stats.mutex_waits;
    counters["sched:cond_waits"] += sched.stats.cond_waits;
    counters["sched:cond_timeouts"] += sched.stats.cond_timeouts;
    counters["sched:poll_parks"] += sched.stats.poll_parks;
    counters["sched:world_steps"] += sched.stats.world_steps;
    counters["fault:spurious_cond_wakeup"] += sched.stats.spurious_wakeups;
    if (sched.stats.spins) counters["probe:thread_spun_on_expired_wait"]++;
    if (sched.stats.mutex_waits) counters["probe:thread_waited_for_lock"]++;
    if (sched.stats.cond_waits) counters["probe:thread_waited_on_condition"]++;
    counters["probe:thread_mode_runs"]++;
    for (auto *t : sched.threads) if (t->st != simsched::Thread::DONE) threads_stuck = true;
    for (auto *t : sched.threads) if (t->failed) throw core::Violation{t->failure_cls, t->failure_detail};
    if (!ok) fail("oracle:C17:deadlock", "application threads are blocked for ever although the peer has closed and no timeout is pending: %s", sched.deadlock_report.c_str());
  }
  std::map<int, Call *> blocking_on;   // thread -> the call it is inside dbus_pending_call_block() for
  bool threads_stuck = false;

  core::RunResult run(bool log) {
    core::RunResult res;
    tr.reset(log);
    if (const char *kn = getenv("SIM_KNOWN")) {
      std::string s = kn;
      size_t i = 0;
      while (i <= s.size()) { size_t j = s.find(',', i); if (j == std::string::npos) j = s.size(); if (j > i) known.insert(s.substr(i, j - i)); i = j + 1; }
    }
    std::unique_ptr<lw::LibWorld> wp;
    try {
      wp.reset(new lw::LibWorld(tr, plan.seed));
      lw::LibWorld &world = *wp;
      w = &world;
      K->on_block = [this](int64_t dl) { peer_pump(); return world_step(dl); };
      c = world.client_open("simpeer");
      if (!c) core::harness_error("client_open failed");
      if (plan.C("serial.start", 0)) { _dbus_verif_connection_set_next_serial(c, (dbus_uint32_t)plan.C("serial.start")); wrapped = false; }
      if (!world.scripted->accepted_by_actor.empty()) { peer = world.scripted->accepted_by_actor.front(); world.scripted->accepted_by_actor.pop_front(); }
      if (!peer) core::harness_error("no peer end");
      // authenticate
      for (int i = 0; i < 12 && !dbus_connection_get_is_authenticated(c); i++) { world.iterate(1, 1, simk::IoProfile()); peer_pump(); }
      if (!dbus_connection_get_is_authenticated(c)) core::harness_error("client did not authenticate against the scripted peer");
      nthreads = (int)plan.C("threads", 0);
      if (nthreads > 0) {
        run_threads(world);
      } else {
        for (step_idx = 0; step_idx < plan.steps.size(); step_idx++) {
          const Step &s = plan.steps[step_idx];
          tr.ev("step %s", s.t.c_str());
          exec_step(world, s);
          stamp_consumed();
        }
      }
      // bounded liveness: faults off, everything delivered, time moved past every finite deadline:
      // each call that was not cancelled must now be complete
      peer_flush_held();
      if (nthreads > 0) {
        // the threads are gone; the application (one thread now) waits for whatever is still outstanding
        step_idx = plan.steps.size();
        for (auto &k : calls) {
          if (k.unreffed || k.cancelled || k.checked) continue;
          dbus_pending_call_block(k.pc);
        }
        for (int i = 0; i < 20; i++) dbus_connection_read_write_dispatch(c, 0);
        while (dbus_connection_dispatch(c) == DBUS_DISPATCH_DATA_REMAINS) {}
        stamp_consumed();
      } else {
        world.settle();
        peer_pump();
        int64_t far = K->now_us;
        for (auto &k : calls) if (k.deadline_us > far) far = k.deadline_us;
        K->now_us = far + 1000;
        world.settle();
      }
      for (auto &k : calls) {
        if (k.unreffed || k.cancelled) continue;
        bool must = k.deadline_us >= 0 || P(k).first_reply_us >= 0 || peer_closed;
        if (must && !dbus_pending_call_get_completed(k.pc) && peer_closed && known.count("C17-outstanding-calls-not-completed-on-disconnect") &&
            !(P(k).first_reply_us >= 0 && peer->peer_consumed >= P(k).first_reply_end)) {
          // listed known finding: calls outstanding when the connection goes away are dropped, not completed
          // (outstanding: the library had not read the call's reply by then - a reply still in the socket
          // when a failed write makes the library disconnect is legitimately lost)
          counters["finding:C17-outstanding-calls-not-completed-on-disconnect"]++;
          continue;
        }
        if (must && !dbus_pending_call_get_completed(k.pc))
          fail("oracle:C17:never-completed", "call %u (timeout %s) is still pending after its deadline passed, faults stopped and the loop ran to idle", k.serial, k.deadline_us < 0 ? "infinite" : "finite");
        // (thread mode: a notify function set while another thread completes the call may legitimately never run)
        if (k.has_notify && dbus_pending_call_get_completed(k.pc) && k.notified != 1 && !(nthreads > 0 && k.notified == 0))
          fail("oracle:C17:not-notified-once", "call %u is completed and its notify function ran %d times", k.serial, k.notified);
        judge(k);
      }
      for (auto &k : calls) if (k.cancelled && k.notified) fail("oracle:C17:cancelled-call-notified", "cancelled call %u was notified", k.serial);
      if (calls.size() >= 2) counters["probe:several_calls"]++;
      if (peer_closed) { size_t live = 0; for (auto &k : calls) if (!k.cancelled) live++; if (live >= 2) counters["probe:close_with_several_outstanding"]++; }
      for (auto &k : calls) if (!k.unreffed) { dbus_pending_call_unref(k.pc); k.unreffed = true; }
      counters["calls"] += calls.size();
      K->on_block = nullptr;
      world.stop();
      w = nullptr;
      wp.reset();
    } catch (core::Violation &v) {
      res.ok = false;
      res.cls = v.cls;
      res.detail = v.detail;
      // thread mode: threads that never finished stay parked inside the library (holding its locks in the
      // scheduler's books); tearing the world down under them would only produce secondary failures
      if (threads_stuck) (void)wp.release();
      else wp.reset();
      // the world object is gone; pending calls die with dbus_shutdown in its destructor
    }
    res.hash = tr.h;
    res.counters = counters;
    uint64_t faults = 0;
    for (auto &kv : lw::last_stats.faults) { res.counters["fault:" + kv.first] += kv.second; faults += kv.second; }
    res.nontrivial = counters["completions_judged"] > 0 && (faults > 0 || plan.steps.size() > 4);
    res.sample = hist;
    if (tr.keep_text) res.sample = tr.text + "HISTORY " + hist + "\n";
    return res;
  }
};

}  // namespace

core::RunResult run_pending(const Plan &plan, bool log) {
  Scenario sc(plan);
  return sc.run(log);
}

Plan gen_pending(uint64_t seed, bool th) {
  simk::Rng r(seed * 0x9e3779b1u + 5);
  Plan p;
  p.prop = "C17";
  p.seed = seed;
  if (r.pct(25)) p.cfg["serial.start"] = std::to_string(0xffffffffu - r.below(6));
  int nthreads = r.pct(35) ? (int)r.range(2, 3) : 0;
  if (nthreads) {
    p.cfg["threads"] = std::to_string(nthreads);
    p.cfg["sched.seed"] = std::to_string(r.next() & 0x7fffffff);
    if (r.pct(30)) p.cfg["sched.spurious_pct"] = std::to_string(r.range(1, 10));
    if (r.pct(40)) p.cfg["io.short_read"] = std::to_string(r.below(40));
    if (r.pct(20)) p.cfg["io.one_byte_read"] = std::to_string(r.below(20));
    if (r.pct(25)) p.cfg["io.eintr"] = std::to_string(r.below(10));
    if (r.pct(25)) p.cfg["io.short_write"] = std::to_string(r.below(30));
  }
  auto add = [&](const std::string &t, std::vector<int64_t> n = {}) {
    Step s; s.t = t; s.n = std::move(n);
    bool world = t == "preply" || t == "pclose" || t == "adv";
    s.a = (nthreads && !world) ? (int)r.below((uint64_t)nthreads) : -1;
    p.steps.push_back(s);
  };
  auto loop = [&]() {
    if (nthreads) { add("rwd", {r.pct(50) ? 0 : (int64_t)r.range(1, 120)}); return; }
    add("loop", {(int64_t)r.range(1, 3), (int64_t)(r.next() & 0x7fffffff), r.pct(40) ? (int64_t)r.below(40) : 0, r.pct(30) ? (int64_t)r.below(30) : 0,
                 r.pct(40) ? (int64_t)r.below(40) : 0, r.pct(25) ? (int64_t)r.below(10) : 0, r.pct(25) ? (int64_t)r.below(15) : 0});
  };
  int nops = (int)r.range(5, th ? 60 : 28);
  int ncalls = 0;
  for (int i = 0; i < nops; i++) {
    int x = (int)r.below(100);
    if (x < 24 && ncalls < 8) {
      int tk = (int)r.below(100);
      int64_t timeout = tk < 35 ? (int64_t)r.range(1, 400) : tk < 55 ? (int64_t)r.range(400, 30000) : tk < 70 ? -1 : tk < 85 ? 0x7fffffff : (int64_t)r.range(0, 2);
      add("call", {timeout, (int64_t)r.below(3)});
      ncalls++;
    } else if (x < 44) add("preply", {(int64_t)r.below(8), r.pct(65) ? (int64_t)r.below(2) : (int64_t)r.range(2, 3), r.pct(25) ? (int64_t)r.range(1, 30) : 0});
    else if (x < 60) loop();
    else if (x < 66) add("dispatch");
    else if (x < 71) add("rwd", {nthreads && r.pct(50) ? (int64_t)r.range(1, 120) : 0});
    else if (x < 79) add("adv", {r.pct(60) ? (int64_t)r.range(1, 300) : (int64_t)r.range(300, 40000), r.pct(30) ? (int64_t)r.range(1, 8) : 0, (int64_t)r.range(0, 2) - 1});
    else if (x < 84) { if (nthreads && r.pct(60)) add("block", {(int64_t)r.below(8)}); else add("cancel", {(int64_t)r.below(8)}); }
    else if (x < 90) add("block", {(int64_t)r.below(8)});
    else if (x < 94) add("poll", {(int64_t)r.below(8)});
    else if (x < 96) add("notify", {(int64_t)r.below(8)});
    else if (x < 98) add("unref", {(int64_t)r.below(8)});
    else add("pclose");
  }
  return p;
}

}  // namespace libchecks
