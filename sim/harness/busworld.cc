// sim/harness/busworld.cc
#include "harness/busworld.h"

#include <fcntl.h>
#include <stdio.h>
#include <stdlib.h>
#include <string.h>
#include <sys/stat.h>
#include <unistd.h>

extern "C" {
void _dbus_verif_set_second_alloc_failure(int gap);
#include <config.h>
#include <dbus/dbus.h>
#include <dbus/dbus-internals.h>
#include <dbus/dbus-mainloop.h>
#include <dbus/dbus-string.h>
#include "bus/bus.h"
#include "bus/connection.h"
#include "bus/services.h"
#include <dbus/dbus-list.h>
void _bus_verif_set_unique_name_counter(int major, int minor);
void _bus_verif_set_stamp(int value);   // hook H7
extern void (*_bus_verif_probe)(const char *what, DBusConnection *connection, DBusMessage *message);
extern void (*_bus_verif_probe_reply_expired)(DBusConnection *will_get_reply, DBusConnection *will_send_reply, dbus_uint32_t reply_serial);
}

using core::fail;
using core::harness_error;
using simk::K;

namespace bw {

const char *kAllowAllPolicy =
    "<policy context=\"default\">\n"
    "  <allow send_destination=\"*\" eavesdrop=\"true\"/>\n"
    "  <allow eavesdrop=\"true\"/>\n"
    "  <allow own=\"*\"/>\n"
    "  <allow user=\"*\"/>\n"
    "</policy>\n";

std::string scratch_dir() {
  static std::string dir;
  if (dir.empty()) {
    const char *base = getenv("SIM_SCRATCH");
    std::string b = base ? base : "/verif/build/scratch";
    mkdir(b.c_str(), 0755);
    std::string tmpl = b + "/wXXXXXX";
    std::vector<char> buf(tmpl.begin(), tmpl.end());
    buf.push_back(0);
    if (!mkdtemp(buf.data())) harness_error("mkdtemp %s failed", tmpl.c_str());
    dir = buf.data();
    static struct Cleaner {
      ~Cleaner() {
        std::string cmd = "rm -rf '" + dir + "'";
        if (system(cmd.c_str())) {}
      }
    } cleaner;
  }
  return dir;
}

static void add_limit(std::string &o, const char *name, long v) {
  if (v >= 0) o += std::string("  <limit name=\"") + name + "\">" + std::to_string(v) + "</limit>\n";
}

std::string make_bus_config(const std::string &policy_xml, const BusLimits &l, const std::string &extra, bool fragment) {
  std::string o =
      "<!DOCTYPE busconfig PUBLIC \"-//freedesktop//DTD D-Bus Bus Configuration 1.0//EN\"\n"
      " \"http://www.freedesktop.org/standards/dbus/1.0/busconfig.dtd\">\n<busconfig>\n";
  if (!fragment) o += "  <listen>unix:abstract=simbus</listen>\n";   // an included file brings limits, directories, policy - no listener
  o += extra;
  o += policy_xml;
  add_limit(o, "max_completed_connections", l.max_completed_connections);
  add_limit(o, "max_incomplete_connections", l.max_incomplete_connections);
  add_limit(o, "max_connections_per_user", l.max_connections_per_user);
  add_limit(o, "max_names_per_connection", l.max_names_per_connection);
  add_limit(o, "max_match_rules_per_connection", l.max_match_rules_per_connection);
  add_limit(o, "max_replies_per_connection", l.max_replies_per_connection);
  add_limit(o, "max_message_size", l.max_message_size);
  add_limit(o, "max_message_unix_fds", l.max_message_unix_fds);
  add_limit(o, "max_incoming_bytes", l.max_incoming_bytes);
  add_limit(o, "max_outgoing_bytes", l.max_outgoing_bytes);
  add_limit(o, "max_incoming_unix_fds", l.max_incoming_unix_fds);
  add_limit(o, "max_outgoing_unix_fds", l.max_outgoing_unix_fds);
  add_limit(o, "auth_timeout", l.auth_timeout);
  add_limit(o, "reply_timeout", l.reply_timeout);
  add_limit(o, "pending_fd_timeout", l.pending_fd_timeout);
  add_limit(o, "service_start_timeout", l.service_start_timeout);
  add_limit(o, "max_pending_service_starts", l.max_pending_service_starts);
  o += "</busconfig>\n";
  return o;
}

static World *g_world = nullptr;

// Link-time seam (no source change): bus_config_load() is called across object files (bus.c, config-parser.c), so
// --wrap sees every load.  The harness only notes whether the outermost load of a ReloadConfig returned a parser:
// an allocation failure before that point happened while the file was being parsed, one after it while the parsed
// configuration was being put in force.
extern "C" {
struct BusConfigParser;
BusConfigParser *__real_bus_config_load(const DBusString *file, dbus_bool_t is_toplevel, const BusConfigParser *parent, DBusError *error);
static int g_config_load_depth = 0;
BusConfigParser *__wrap_bus_config_load(const DBusString *file, dbus_bool_t is_toplevel, const BusConfigParser *parent, DBusError *error) {
  g_config_load_depth++;
  BusConfigParser *r = __real_bus_config_load(file, is_toplevel, parent, error);
  g_config_load_depth--;
  if (g_config_load_depth == 0 && g_world) { g_world->config_loads++; g_world->last_config_load_ok = r != nullptr; }
  return r;
}
}

static void probe_cb(const char *what, DBusConnection *conn, DBusMessage *msg) {
  if (!g_world) return;
  if (strcmp(what, "setup") == 0) {
    // the bus adopts a freshly accepted connection: its socket is still valid here
    int fd = -1;
    int ci = -1;
    if (dbus_connection_get_socket(conn, &fd)) {
      simk::End *e = K->end_of_fd(fd);
      auto it = g_world->srv_to_client.find(e);
      if (it != g_world->srv_to_client.end()) ci = it->second;
    }
    g_world->conn_to_client[conn] = ci;
    g_world->live_conns.insert(conn);
    if (ci >= 0) g_world->accept_time_us[ci] = K->now_us;
    return;
  }
  if (strcmp(what, "dispatch") != 0) return;
  int c = g_world->client_of_connection(conn);
  if (g_world->on_dispatch) g_world->on_dispatch(c, conn, msg);
  if (dbus_message_is_signal(msg, "org.freedesktop.DBus.Local", "Disconnected")) g_world->live_conns.erase(conn);
}

static void expired_cb(DBusConnection *caller, DBusConnection *callee, dbus_uint32_t serial) {
  if (!g_world || !g_world->on_reply_expired) return;
  g_world->on_reply_expired(g_world->client_of_connection(caller), g_world->client_of_connection(callee), serial);
}

World::World(core::Trace &t, uint64_t s) : tr(t), seed(s) {
  simk::kernel_init();
  K->reset(s);
  K->trace = [this](const char *what, int64_t a, int64_t b) { tr.ev("k %s %lld %lld", what, (long long)a, (long long)b); };
  g_world = this;
  // the bus blocks (e.g. waiting for a babysitter to report its pid before killing it): what the real world
  // would do meanwhile is that a freshly forked babysitter reports in
  K->on_block = [](int64_t) {
    for (simk::Process *p : K->procs) if (!p->exited && !p->reported) { K->proc_exec_ok(p); return true; }
    return false;
  };
  _bus_verif_probe = probe_cb;
  _bus_verif_probe_reply_expired = expired_cb;
  scratch = scratch_dir();
}

World::~World() {
  if (ctx) {
    // abnormal end of a run (a Violation was thrown): tear down without checks
    _dbus_set_fail_alloc_counter(_DBUS_INT_MAX);
    K->faults_enabled = false;
    bus_context_shutdown(ctx);
    bus_context_unref(ctx);
    ctx = nullptr;
    dbus_shutdown();
  }
  for (auto &c : clients) {
    for (auto &g : c.got) for (int fd : g.fds) simk::real_close(fd);
    for (int fd : c.in_fds) simk::real_close(fd);
    for (auto &kv : c.out_fds) for (int fd : kv.second) simk::real_close(fd);
  }
  _bus_verif_probe = nullptr;
  _bus_verif_probe_reply_expired = nullptr;
  g_world = nullptr;
  K->trace = nullptr;
  K->reset(1);
}

void World::start_bus(const std::string &config_xml, int uniq_major, int uniq_minor, int stamp_start) {
  std::string path = scratch + "/bus.conf";
  FILE *f = fopen(path.c_str(), "w");
  if (!f) harness_error("cannot write %s", path.c_str());
  fwrite(config_xml.data(), 1, config_xml.size(), f);
  fclose(f);
  _bus_verif_set_unique_name_counter(uniq_major, uniq_minor);
  _bus_verif_set_stamp(stamp_start);   // as if the bus had routed that many messages already
  base_blocks = _dbus_get_malloc_blocks_outstanding();
  DBusString cfg;
  _dbus_string_init_const(&cfg, path.c_str());
  DBusError err;
  dbus_error_init(&err);
  ctx = bus_context_new(&cfg, BUS_CONTEXT_FLAG_NONE, nullptr, nullptr, nullptr, &err);
  if (!ctx) {
    std::string m = err.message ? err.message : "?";
    dbus_error_free(&err);
    throw core::Violation{"bus-start-failed", m};
  }
  tr.ev("bus started");
}

void World::set_unique_counter(int major, int minor) { _bus_verif_set_unique_name_counter(major, minor); }

void World::rewrite_config(const std::string &config_xml) {
  std::string path = scratch + "/bus.conf";
  FILE *f = fopen(path.c_str(), "w");
  if (!f) harness_error("cannot write %s", path.c_str());
  fwrite(config_xml.data(), 1, config_xml.size(), f);
  fclose(f);
}

int World::client_of_connection(DBusConnection *c) {
  auto it = conn_to_client.find(c);
  return it == conn_to_client.end() ? -1 : it->second;
}

std::vector<int> World::queue_order(const std::string &name) {
  std::vector<int> out;
  if (!ctx) return out;
  DBusString str;
  _dbus_string_init_const(&str, name.c_str());
  BusService *svc = bus_registry_lookup(bus_context_get_registry(ctx), &str);
  if (!svc) return out;
  DBusList *list = nullptr;
  if (!bus_service_list_queued_owners(svc, &list)) return out;
  for (DBusList *l = _dbus_list_get_first_link(&list); l; l = _dbus_list_get_next_link(&list, l)) {
    const char *uname = (const char *)l->data;
    int ci = -1;
    for (auto &kv : conn_to_client) {
      // only connections the bus still knows can own anything; stale pointers are never dereferenced
      if (!live_conns.count(kv.first)) continue;
      const char *n = bus_connection_get_name(kv.first);
      if (n && strcmp(n, uname) == 0) ci = kv.second;
    }
    out.push_back(ci);
  }
  _dbus_list_clear(&list);
  return out;
}

std::string World::bus_side_name(int client) {
  for (auto &kv : conn_to_client) {
    if (kv.second != client || !live_conns.count(kv.first)) continue;
    if (!bus_connection_is_active(kv.first)) return "";
    const char *n = bus_connection_get_name(kv.first);
    return n ? n : "";
  }
  return "";
}

bool World::accepted(int client) {
  for (auto &kv : conn_to_client) if (kv.second == client) return true;
  return false;
}

int World::rule_count(int client) {
  for (auto &kv : conn_to_client)
    if (kv.second == client && live_conns.count(kv.first)) return bus_connection_get_n_match_rules(kv.first);
  return -1;
}

int World::names_owned(int client) {
  for (auto &kv : conn_to_client)
    if (kv.second == client && live_conns.count(kv.first)) return bus_connection_get_n_services_owned(kv.first);
  return -1;
}

int World::n_active() { return bus_connections_get_n_active(bus_context_get_connections(ctx)); }
bool World::bus_side_connected(int ci) const {
  for (DBusConnection *conn : live_conns) { auto it = conn_to_client.find(conn); if (it != conn_to_client.end() && it->second == ci) return true; }
  return false;
}

int World::n_incomplete() { return bus_connections_get_n_incomplete(bus_context_get_connections(ctx)); }

int World::add_client(const simk::Creds &creds) {
  Client c;
  c.idx = (int)clients.size();
  c.creds = creds;
  c.end = K->actor_connect(listen_name, creds);
  if (!c.end) harness_error("listener %s not found", listen_name.c_str());
  c.srv_end = c.end->peer;
  c.connected = true;
  srv_to_client[c.srv_end] = c.idx;
  clients.push_back(c);
  tr.ev("connect c%d uid=%u", c.idx, creds.uid);
  return c.idx;
}

void World::queue_raw(int ci, const std::string &bytes, int lines) {
  Client &c = C(ci);
  if (c.closed) return;
  if (c.begun) c.wire_stream += bytes;
  else {
    // a hand-written handshake: whatever follows the first BEGIN line is what the loader will see
    c.raw_handshake += bytes;
    size_t p = c.raw_handshake.find("BEGIN\r\n");
    // a command is a whole line: BEGIN counts only at the start of a line ended by CR LF
    while (p != std::string::npos && !(p == 1 && c.raw_handshake[0] == '\0') && !(p >= 2 && c.raw_handshake[p - 1] == '\n' && c.raw_handshake[p - 2] == '\r'))
      p = c.raw_handshake.find("BEGIN\r\n", p + 1);
    if (p != std::string::npos) {
      c.begun = true;
      c.wire_stream = c.raw_handshake.substr(p + 7);
    }
  }
  c.out += bytes;
  c.expect_lines += lines;
}

void World::queue_auth(int ci, bool negotiate_fd, const std::string &authz) {
  Client &c = C(ci);
  std::string id = authz == "\x01" ? std::to_string(c.creds.uid) : authz;
  std::string s(1, '\0');
  s += "AUTH EXTERNAL " + wire::hex_encode(id) + "\r\n";
  int lines = 1;
  if (negotiate_fd) { s += "NEGOTIATE_UNIX_FD\r\n"; lines++; }
  s += "BEGIN\r\n";
  queue_raw(ci, s, lines);
  c.begun = true;
}

wire::Msg World::hello_msg(int ci) {
  Client &c = C(ci);
  wire::Msg m = wire::Msg::method_call(c.next_serial++, "org.freedesktop.DBus", "/org/freedesktop/DBus",
                                       "org.freedesktop.DBus", "Hello");
  c.hello_serial = m.serial;
  return m;
}

size_t World::queue_msg(int ci, const wire::Msg &m, std::vector<int> fds, size_t fd_at) {
  Client &c = C(ci);
  Sent s;
  s.seq = ++seq;
  s.m = m;
  s.nfds = (int)fds.size();
  std::string bytes = wire::marshal(m);
  if (c.closed) {
    for (int fd : fds) simk::real_close(fd);
    s.end_off = c.out_base + c.out.size();
    c.sent.push_back(s);
    return c.sent.size() - 1;
  }
  if (!fds.empty()) c.out_fds[c.out_base + c.out.size() + (fd_at < bytes.size() ? fd_at : 0)] = std::move(fds);
  c.wire_stream += bytes;
  c.out += bytes;
  s.end_off = c.out_base + c.out.size();
  s.end_off_stream = c.wire_stream.size();
  c.sent.push_back(s);
  tr.ev("queue c%d serial=%u type=%d len=%zu", ci, m.serial, m.type, bytes.size());
  return c.sent.size() - 1;
}

void World::deliver(int ci, long n) {
  Client &c = C(ci);
  if (c.closed || !c.connected) return;
  size_t k = (n < 0 || (size_t)n > c.out.size()) ? c.out.size() : (size_t)n;
  size_t done = 0;
  while (done < k) {
    // a write carrying descriptors starts exactly at the byte they ride on
    size_t off = c.out_base;
    size_t chunk = k - done;
    auto it = c.out_fds.upper_bound(off);
    if (it != c.out_fds.end() && it->first < off + chunk) chunk = it->first - off;
    std::vector<int> fds;
    auto here = c.out_fds.find(off);
    if (here != c.out_fds.end()) { fds = std::move(here->second); c.out_fds.erase(here); }
    K->actor_write(c.end, c.out.substr(0, chunk), std::move(fds));
    c.out.erase(0, chunk);
    c.out_base += chunk;
    done += chunk;
  }
  if (k) tr.ev("deliver c%d %zu", ci, k);
}

void World::close_client(int ci) {
  Client &c = C(ci);
  if (c.closed || !c.connected) return;
  c.closed = true;
  for (auto &kv : c.out_fds) for (int fd : kv.second) simk::real_close(fd);
  c.out_fds.clear();
  c.out.clear();
  K->actor_close(c.end);
  tr.ev("close c%d", ci);
}

void World::drain(int ci, size_t max) {
  Client &c = C(ci);
  if (c.closed || !c.connected) return;
  std::vector<int> fds;
  std::string data = K->actor_read(c.end, max, &fds);
  c.in += data;
  c.bytes_in += data.size();
  c.in_fds.insert(c.in_fds.end(), fds.begin(), fds.end());
  if (K->actor_eof(c.end) && !c.saw_eof) { c.saw_eof = true; tr.ev("eof c%d", ci); }
  // handshake lines first
  while (!c.in_binary) {
    if (c.expect_lines == 0 && c.begun) { c.in_binary = true; break; }
    size_t p = c.in.find("\r\n");
    if (p == std::string::npos) break;
    std::string line = c.in.substr(0, p);
    c.in.erase(0, p + 2);
    c.auth_lines.push_back(line);
    if (c.expect_lines > 0) c.expect_lines--;
    if (line.compare(0, 13, "AGREE_UNIX_FD") == 0) c.fd_agreed = true;
    tr.ev("authline c%d %.20s", ci, line.c_str());
  }
  if (!c.in_binary || c.in_corrupt) return;
  while (!c.in.empty()) {
    wire::ParseResult r = wire::parse(c.in);
    if (r.status == wire::P_NEED_MORE) break;
    if (r.status == wire::P_INVALID) {
      c.in_corrupt = true;
      c.in_corrupt_reason = r.reason;
      tr.ev("corrupt-from-bus c%d %s", ci, r.reason.c_str());
      break;
    }
    Got g;
    g.seq = ++seq;
    g.m = r.msg;
    g.wire_len = r.total_len;
    uint32_t nf = r.msg.unix_fds();
    for (uint32_t i = 0; i < nf && !c.in_fds.empty(); i++) {
      g.fds.push_back(c.in_fds.front());
      c.in_fds.erase(c.in_fds.begin());
    }
    c.in.erase(0, r.total_len);
    tr.ev("recv c%d type=%d serial=%u rs=%u member=%s err=%s sender=%s sig=%s", ci, g.m.type, g.m.serial, g.m.reply_serial(),
          g.m.member().c_str(), g.m.error_name().c_str(), g.m.sender().c_str(), g.m.body_sig.c_str());
    if (c.unique.empty() && !c.asked_monitor && g.m.type == wire::T_RETURN && c.hello_serial && g.m.reply_serial() == c.hello_serial &&
        g.m.body.size() == 1 && g.m.body[0].type == 's' && g.m.sender() == "org.freedesktop.DBus")
      c.unique = g.m.body[0].str;
    c.got.push_back(std::move(g));
  }
}

int World::bus_iterate(int iters, uint64_t io_seed, const simk::IoProfile &prof) {
  if (!ctx) return 0;
  K->io = prof;
  K->io_rng = simk::Rng(io_seed);
  DBusLoop *loop = bus_context_get_loop(ctx);
  int worked = 0;
  const int big = 1 << 30;
  if (oom_at >= 0) {
    _dbus_set_fail_alloc_failures(oom_failures);
    _dbus_verif_set_second_alloc_failure(oom_gap);
    _dbus_set_fail_alloc_counter(oom_at);
  } else if (measure_allocs) {
    _dbus_set_fail_alloc_counter(big);
  }
  for (int i = 0; i < iters; i++) {
    tr.ev("iter");
    if (_dbus_loop_iterate(loop, FALSE)) worked++;
  }
  if (oom_at >= 0) {
    int left = _dbus_get_fail_alloc_counter();
    if (left == _DBUS_INT_MAX || left > oom_at) counters["oom_fired"]++;
    if (oom_gap >= 0 && left == _DBUS_INT_MAX) counters["oom_second_fired"]++;
    _dbus_verif_set_second_alloc_failure(-1);
    oom_gap = -1;
    _dbus_set_fail_alloc_counter(_DBUS_INT_MAX);
    _dbus_set_fail_alloc_failures(1);
    oom_at = -1;
  } else if (measure_allocs) {
    last_alloc_count = big - _dbus_get_fail_alloc_counter();
    _dbus_set_fail_alloc_counter(_DBUS_INT_MAX);
  }
  K->io = simk::IoProfile();
  return worked;
}

void World::advance_ms(int64_t ms) {
  K->advance_ms(ms);
  tr.ev("adv %lld", (long long)ms);
}

void World::quiesce() {
  simk::IoProfile none;
  bool saved = K->faults_enabled;
  K->faults_enabled = false;
  int rounds = 0;
  for (;;) {
    // every round that continues has moved bytes; a client with a 16-byte socket buffer legitimately
    // needs one round per 16 bytes, so the bound is on sheer volume, not on a few hundred rounds
    if (++rounds > 200000) fail("nonquiescent", "system did not settle within 200000 delivery rounds after faults stopped");
    bool progress = false;
    for (auto &c : clients) {
      if (c.closed || !c.connected || c.hostile) continue;
      if (!c.out.empty()) { deliver(c.idx, -1); progress = true; }
    }
    int idle = 0, guard = 0;
    while (idle < 2) {
      if (++guard > 20000) fail("nonquiescent", "bus main loop keeps reporting work (spin) with no input");
      if (bus_iterate(1, 1, none)) { idle = 0; progress = progress || guard < 3; }
      else idle++;
    }
    for (auto &c : clients) {
      if (c.closed || !c.connected || c.stalled) continue;
      uint64_t before = c.bytes_in;
      bool eof_before = c.saw_eof;
      drain(c.idx);
      if (c.bytes_in != before || eof_before != c.saw_eof) progress = true;
    }
    if (!progress) break;
  }
  K->faults_enabled = saved;
  tr.ev("quiesced");
}

void World::stop_bus(bool check_leaks) {
  if (!ctx) return;
  K->faults_enabled = false;
  _dbus_set_fail_alloc_counter(_DBUS_INT_MAX);
  for (auto &c : clients) close_client(c.idx);
  simk::IoProfile none;
  int idle = 0, guard = 0;
  while (idle < 2) {
    if (++guard > 20000) fail("nonquiescent", "bus does not settle after all clients closed");
    if (bus_iterate(1, 1, none)) idle = 0; else idle++;
  }
  int act = n_active(), inc = n_incomplete();
  int simfds = K->sut_open_sim_fds();
  bus_context_shutdown(ctx);
  bus_context_unref(ctx);
  ctx = nullptr;
  dbus_shutdown();
  tr.ev("bus stopped");
  if (!check_leaks) return;
  if (act != 0 || inc != 0) fail("leak:connections", "after all clients closed the bus still counts %d active, %d incomplete connections", act, inc);
  int extra = 0;
  for (simk::Process *p : K->procs) extra += 0 * p->pid;
  if (simfds != 1 + extra && K->procs.empty())
    fail("leak:fd", "after all clients closed the bus holds %d simulated descriptors (expected 1: the listener)", simfds);
  int blocks = _dbus_get_malloc_blocks_outstanding();
  if (blocks != base_blocks) fail("leak:blocks", "%d dbus_malloc blocks outstanding after shutdown (baseline %d)", blocks, base_blocks);
  if (K->sut_open_sim_fds() != 0) fail("leak:fd", "%d simulated descriptors still open after bus shutdown", K->sut_open_sim_fds());
  if (K->passed_fd_double_closes) fail("oracle:C15:double-close", "a descriptor received over SCM_RIGHTS was closed %llu times more than once", (unsigned long long)K->passed_fd_double_closes);
  for (auto &in : K->installed)
    if (in.open) fail("leak:passed-fd", "a descriptor received over SCM_RIGHTS (tag %llu) was never closed", (unsigned long long)in.tag);
}

}  // namespace bw
