// sim/harness/libchecks.cc — dispatch to the per-scenario generators / executors.
#include "harness/libchecks.h"

namespace libchecks {

core::Plan generate(const std::string &prop, uint64_t seed, bool thorough) {
  if (prop == "C01" || prop == "C11") return gen_stream(prop, seed, thorough);
  if (prop == "C17") return gen_pending(seed, thorough);
  if (prop == "C20") return gen_tree(seed, thorough);
  if (prop == "C08") return gen_auth(seed, thorough);
  if (prop == "C14L") return gen_oomlib(seed, thorough);
  core::harness_error("simlib has no generator for %s", prop.c_str());
}

core::RunResult execute(const core::Plan &plan, bool log) {
  if (plan.prop == "C01" || plan.prop == "C11") return run_stream(plan, log);
  if (plan.prop == "C17") return run_pending(plan, log);
  if (plan.prop == "C20") return run_tree(plan, log);
  if (plan.prop == "C08") return run_auth(plan, log);
  if (plan.prop == "C14L") return run_oomlib(plan, log);
  core::harness_error("simlib cannot execute plans of %s", plan.prop.c_str());
}

}  // namespace libchecks
