// sim/harness/busworld.h — the simulated world around one real dbus-daemon:
// the in-process bus, raw clients on the independent codec, step primitives.
#pragma once
#include <functional>
#include <map>
#include <set>
#include <string>
#include <vector>

#include "codec/wire.h"
#include "core/core.h"
#include "kernel/kernel.h"

struct BusContext;
struct DBusConnection;
struct DBusMessage;

namespace bw {

struct Got {               // a message a client received, with the global event number
  uint64_t seq = 0;
  wire::Msg m;
  std::vector<int> fds;    // real descriptors received with it (owned by the client)
  size_t wire_len = 0;
};

struct Sent {              // a message a client put on the wire
  uint64_t seq = 0;        // event number when it was queued
  wire::Msg m;
  size_t end_off = 0;      // stream offset (client -> bus) of its last byte + 1
  size_t end_off_stream = 0;   // offset in wire_stream (bytes after BEGIN) of its last byte + 1
  bool valid = true;       // codec verdict for the bytes actually written
  int nfds = 0;
  uint64_t token = 0;
};

struct Client {
  int idx = -1;
  simk::End *end = nullptr;        // our end
  simk::End *srv_end = nullptr;    // the bus's end (identity only; never dereferenced after close)
  simk::Creds creds;
  bool connected = false;          // connect() done
  bool closed = false;             // we closed
  bool saw_eof = false;            // bus closed us
  // outgoing: bytes queued by ops, delivered to the bus by deliver()
  std::string out;
  size_t out_base = 0;             // stream offset of out[0]
  std::map<size_t, std::vector<int>> out_fds;   // stream offset -> fds to attach when that byte is written
  // incoming
  std::string in;
  std::vector<int> in_fds;         // descriptors received, not yet attributed to a message
  int expect_lines = 0;            // handshake response lines still expected
  std::vector<std::string> auth_lines;   // handshake lines received
  bool begun = false;              // BEGIN queued: afterwards we speak binary
  bool in_binary = false;          // all expected handshake lines seen: incoming is binary
  bool fd_agreed = false;
  bool in_corrupt = false;         // bus sent something the codec rejects
  std::string in_corrupt_reason;
  std::vector<Got> got;
  size_t got_checked = 0;          // oracle cursor
  std::vector<Sent> sent;
  uint32_t next_serial = 1;
  std::string unique;              // from the Hello reply (observed)
  uint32_t hello_serial = 0;
  bool asked_monitor = false;      // sent BecomeMonitor: from now on replies in its stream may be other people's
  bool stalled = false;            // does not drain at check points
  bool hostile = false;            // raw-bytes client: not flushed at check points
  std::string raw_handshake;       // bytes a hostile client wrote before its BEGIN
  std::string wire_stream;         // every byte queued after BEGIN (what the bus's loader will see)
  size_t wire_pos = 0;             // start of the next message the bus has not dispatched yet
  bool hostile_lost_sync = false;  // a listed validator finding made the bus accept bytes the codec rejects: stream position unknown
  size_t wire_delivered = 0;       // how many bytes of wire_stream have been handed to the bus's socket
  uint64_t bytes_in = 0;
};

struct BusLimits {
  // -1 = leave the daemon default
  long max_completed_connections = -1, max_incomplete_connections = -1, max_connections_per_user = -1;
  long max_names_per_connection = -1, max_match_rules_per_connection = -1, max_replies_per_connection = -1;
  long max_message_size = -1, max_message_unix_fds = -1, max_incoming_bytes = -1, max_outgoing_bytes = -1;
  long max_incoming_unix_fds = -1, max_outgoing_unix_fds = -1;
  long auth_timeout = -1, reply_timeout = -1, pending_fd_timeout = -1, service_start_timeout = -1;
  long max_pending_service_starts = -1;
};

std::string make_bus_config(const std::string &policy_xml, const BusLimits &l, const std::string &extra = "", bool fragment = false);
extern const char *kAllowAllPolicy;

class World {
 public:
  World(core::Trace &tr, uint64_t seed);
  ~World();

  core::Trace &tr;
  uint64_t seed;
  uint64_t seq = 0;                     // global event sequence number
  std::vector<Client> clients;
  std::map<std::string, uint64_t> counters;
  std::string bus_guid;
  std::string listen_name = "@simbus";
  int base_blocks = 0;

  // ---- bus lifecycle
  bool bus_side_connected(int ci) const;   // white-box: the bus still holds a live connection for this client
  int config_loads = 0;                 // completed top-level bus_config_load() calls (start-up is the first)
  bool last_config_load_ok = false;     // ... and whether the last one produced a parser
  void set_unique_counter(int major, int minor);      // hook H1: the next unique name the bus hands out
  void rewrite_config(const std::string &config_xml);   // what a later ReloadConfig will read
  void start_bus(const std::string &config_xml, int uniq_major = 0, int uniq_minor = 0, int stamp_start = 0);
  bool bus_running() const { return ctx != nullptr; }
  // close all clients, quiesce, shut the bus down; checks block/fd baselines (fails with leak:* classes)
  void stop_bus(bool check_leaks = true);
  BusContext *ctx = nullptr;

  // ---- clients
  int add_client(const simk::Creds &creds);        // connect(); returns index
  Client &C(int i) { return clients[(size_t)i]; }
  // queue the standard handshake: NUL, AUTH EXTERNAL <uid>, [NEGOTIATE_UNIX_FD], BEGIN
  void queue_auth(int c, bool negotiate_fd, const std::string &authz_id_override = "\x01");
  void queue_raw(int c, const std::string &bytes, int expect_lines_delta = 0);
  // queue a message; returns index into sent[].  fds: real fds (ownership moves)
  // fd_at: offset inside the message of the byte the descriptors ride on (0 = the first byte)
  size_t queue_msg(int c, const wire::Msg &m, std::vector<int> fds = {}, size_t fd_at = 0);
  wire::Msg hello_msg(int c);
  // move n bytes (or all if n<0) of the client's queue to the bus's socket
  void deliver(int c, long n = -1);
  void close_client(int c);
  // read what the bus sent (up to max bytes), parse handshake lines / messages
  void drain(int c, size_t max = (size_t)-1);

  // ---- bus execution
  // run `iters` main-loop iterations with the given fault profile; returns how many did work
  int bus_iterate(int iters, uint64_t io_seed, const simk::IoProfile &prof);
  void advance_ms(int64_t ms);
  // faults off; deliver everything queued (non-hostile clients); iterate to a fixpoint; drain
  // everyone not stalled.  Fails with class "nonquiescent" if it does not settle.
  void quiesce();

  // H2: called for every message at the top of bus_dispatch, in processing order
  std::function<void(int client, DBusConnection *conn, DBusMessage *msg)> on_dispatch;
  // H2c: a reply slot was expired by the bus (caller, callee as client indices, -1 unknown)
  std::function<void(int caller, int callee, uint32_t serial)> on_reply_expired;
  int client_of_connection(DBusConnection *c);
  std::map<simk::End *, int> srv_to_client;
  std::set<DBusConnection *> live_conns;            // adopted and not yet disconnected
  std::map<int, int64_t> accept_time_us;            // client -> virtual time the bus adopted its connection
  std::map<DBusConnection *, int> conn_to_client;   // filled by the "setup" probe

  // white-box accessors for additional invariants
  std::vector<int> queue_order(const std::string &name);   // client indices queued for a name, head first
  std::string bus_side_name(int client);                    // unique name the bus holds for that client's connection ("" if none)
  bool accepted(int client);                                // has the bus accept()ed this client's connection yet
  int rule_count(int client);                               // match rules the bus holds for that client (-1 unknown)
  int names_owned(int client);
  int n_active();
  int n_incomplete();

  // OOM injection for the next bus_iterate: fail allocation number k (counted from step start); -1 off
  int oom_at = -1;
  int oom_gap = -1;                // hook H5: a second failure this many allocations after the first (-1: none)
  int oom_failures = 1;
  int last_alloc_count = 0;             // allocations made during the last bus_iterate (when measured)
  bool measure_allocs = false;

 private:
  std::string scratch;
};

// shared, per-process scratch directory (config files)
std::string scratch_dir();

}  // namespace bw
