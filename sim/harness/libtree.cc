// sim/harness/libtree.cc — C20: object-path handlers are chosen by exact path,
// then nearest fallback.  A real DBusConnection (accepted by a real DBusServer)
// whose application registers / unregisters handlers and fallbacks while a
// scripted peer sends method calls and signals through the simulated socket;
// handlers may decline, handle, ask for more memory, or change the tree while a
// message is being offered.  The reference model is a map path -> registration.
#include <stdio.h>
#include <stdlib.h>
#include <string.h>

#include <algorithm>
#include <deque>
#include <set>

#include "codec/wire.h"
#include "core/core.h"
#include "harness/libchecks.h"
#include "harness/libworld.h"
#include "kernel/kernel.h"

extern "C" {
#include <dbus/dbus.h>
int _dbus_get_fail_alloc_counter(void);
void _dbus_set_fail_alloc_counter(int until_next_fail);
}

#ifndef _DBUS_INT_MAX
#define _DBUS_INT_MAX 2147483647
#endif
using core::fail;
using core::Plan;
using core::Step;
using simk::K;

namespace libchecks {

namespace {

typedef std::vector<std::string> Path;   // elements; empty = "/"

Path split_path(const std::string &s) {
  Path p;
  size_t i = 1;
  while (i < s.size()) {
    size_t j = s.find('/', i);
    if (j == std::string::npos) j = s.size();
    p.push_back(s.substr(i, j - i));
    i = j + 1;
  }
  return p;
}
std::string join_path(const Path &p) {
  if (p.empty()) return "/";
  std::string s;
  for (auto &e : p) s += "/" + e;
  return s;
}
bool is_prefix(const Path &a, const Path &b) {   // a is a (not necessarily proper) prefix of b
  if (a.size() > b.size()) return false;
  for (size_t i = 0; i < a.size(); i++) if (a[i] != b[i]) return false;
  return true;
}

enum Behaviour { B_DECLINE = 0, B_REPLY = 1, B_SILENT = 2, B_DECLINE_UNREG_OTHER = 3, B_REPLY_UNREG_SELF = 4, B_DECLINE_REG_NEW = 5, B_OOM_ONCE_THEN_REPLY = 6, B_COUNT = 7 };

struct Scenario;
struct Reg {
  int id = 0;
  Scenario *sc = nullptr;
  Path path;
  bool fallback = false;
  int behaviour = 0;
  int64_t arg = 0;
  bool alive = false;          // currently registered (model)
  int unreg_calls = 0;         // times the unregister function ran
  std::set<uint32_t> oomed;    // serials for which B_OOM_ONCE already said NEED_MEMORY
};

struct Expect {                // what the peer must receive for one of its messages
  uint32_t serial = 0;
  int kind = 0;                // 0 nothing, 1 token reply, 2 error, 3 introspection, 4 ping reply
  std::string text;            // token / error name
  std::vector<std::string> children;
  bool residual_flag = false;  // (for the listed UnknownObject finding: see Scenario::node_flag)
};

struct Scenario {
  const Plan &plan;
  core::Trace tr;
  std::deque<Reg> regs;                       // stable addresses: user_data of the registrations
  std::map<Path, Reg *> model;                // path -> live registration
  // Listed finding C20-unknown-object-reported-as-unknown-method, exact condition: the library answers
  // UnknownMethod instead of UnknownObject when an EXISTING node on the way to the path still carries a set
  // "invoke as fallback" flag without a fallback handler being registered there - the root as created (flag set),
  // or a node whose fallback registration was removed while it stays as an interior node.  The flag of every
  // node the library's tree holds is tracked here: set by the last successful registration at the node, false for
  // nodes created on the way to a deeper path, gone when the node is pruned (the root is never pruned).
  std::map<Path, bool> node_flag{{Path(), true}};
  bool residual_fallback_flag(const Path &p) const {
    if (node_flag.count(p)) return true;           // the node itself exists in the library's tree (the root always does)
    for (size_t n = 0; n < p.size(); n++) {        // proper ancestors
      Path a(p.begin(), p.begin() + (long)n);
      auto it = node_flag.find(a);
      if (it == node_flag.end()) return false;     // the library's walk stops where the tree ends
      if (it->second) return true;
    }
    return false;
  }
  lw::LibWorld *w = nullptr;
  DBusConnection *conn = nullptr;
  int p0 = -1;
  std::map<std::string, uint64_t> counters;
  std::string hist;
  std::vector<std::string> pool;              // path strings new registrations made by handlers draw from
  bool oom_possible = false;                  // an allocation failure was armed in the current loop step

  // the offer in progress
  struct Attempt {
    bool active = false;
    uint32_t serial = 0;
    int mtype = 0;
    Path path;
    std::string iface, member;
    std::vector<Reg *> cand;
    size_t next = 0;
    bool handled = false, need_memory = false, found = false;
    bool judged = false;       // finish_attempt() has looked at it
    bool oom_suspect = false;  // an allocation failure was armed while it ran: it may have been cut short and be retried
    Reg *handled_by = nullptr;
    bool builtin_peer = false;
  } cur;
  std::map<uint32_t, Expect> expect;           // by serial of the peer's message
  std::vector<uint32_t> sent_order;            // serials of the peer's messages that expect an answer, in order
  std::set<uint32_t> sent_serials;
  uint32_t next_serial = 1;

  std::set<std::string> known;

  explicit Scenario(const Plan &p) : plan(p) {
    if (const char *kn = getenv("SIM_KNOWN")) {
      std::string s = kn;
      size_t i = 0;
      while (i <= s.size()) { size_t j = s.find(',', i); if (j == std::string::npos) j = s.size(); if (j > i) known.insert(s.substr(i, j - i)); i = j + 1; }
    }
  }
  void note(const std::string &s) { if (hist.size() < 3000) hist += s + " "; }

  // ------------------------------------------------------------------ model
  std::vector<std::string> model_children(const Path &p) const {
    std::set<std::string> c;
    for (auto &kv : model) if (kv.first.size() > p.size() && is_prefix(p, kv.first)) c.insert(kv.first[p.size()]);
    return std::vector<std::string>(c.begin(), c.end());
  }
  bool model_is_node(const Path &p) const {     // registered, or an ancestor of a registered path
    for (auto &kv : model) if (is_prefix(p, kv.first)) return true;
    return false;
  }
  std::vector<Reg *> model_candidates(const Path &p, bool *found) const {
    std::vector<Reg *> v;
    auto it = model.find(p);
    if (it != model.end()) v.push_back(it->second);
    bool below_fallback = false;
    for (size_t n = p.size(); n-- > 0;) {      // proper ancestors, deepest first, down to the root (n == 0)
      Path a(p.begin(), p.begin() + (long)n);
      auto ia = model.find(a);
      if (ia != model.end() && ia->second->fallback) { v.push_back(ia->second); below_fallback = true; }
    }
    *found = model_is_node(p) || below_fallback;
    return v;
  }

  // ------------------------------------------------------------------ application callbacks
  static void unregister_cb(DBusConnection *, void *data) {
    Reg *r = (Reg *)data;
    r->unreg_calls++;
    r->sc->tr.ev("unregister function of reg %d", r->id);
    if (r->unreg_calls > 1) fail("oracle:C20:unregister-function-twice", "the unregister function of registration %d (%s) ran %d times", r->id, join_path(r->path).c_str(), r->unreg_calls);
  }

  static DBusHandlerResult message_cb(DBusConnection *c, DBusMessage *m, void *data) {
    Reg *r = (Reg *)data;
    return r->sc->on_handler(c, m, r);
  }

  DBusHandlerResult on_handler(DBusConnection *c, DBusMessage *m, Reg *r) {
    int saved = _dbus_get_fail_alloc_counter();
    _dbus_set_fail_alloc_counter(_DBUS_INT_MAX);
    DBusHandlerResult res = handler_body(c, m, r);
    _dbus_set_fail_alloc_counter(saved);
    return res;
  }

  DBusHandlerResult handler_body(DBusConnection *c, DBusMessage *m, Reg *r) {
    uint32_t serial = dbus_message_get_serial(m);
    tr.ev("handler reg=%d path=%s serial=%u", r->id, join_path(r->path).c_str(), serial);
    counters["handler_invocations"]++;
    if (!cur.active || cur.serial != serial)
      fail("oracle:C20:handler-outside-offer", "handler of %s invoked for message %u which is not the message being dispatched", join_path(r->path).c_str(), serial);
    if (cur.handled || cur.need_memory)
      fail("oracle:C20:offered-after-handled", "message %u to %s was offered to the handler at %s after %s had already %s", serial, join_path(cur.path).c_str(), join_path(r->path).c_str(),
           cur.handled_by ? join_path(cur.handled_by->path).c_str() : "?", cur.handled ? "declared it handled" : "asked for more memory");
    if (!r->alive) fail("oracle:C20:dead-handler-invoked", "handler of %s (registration %d) invoked after it was unregistered", join_path(r->path).c_str(), r->id);
    // candidates removed while this message is being offered are skipped (pinned: DESIGN.md C20)
    while (cur.next < cur.cand.size() && !cur.cand[cur.next]->alive) { cur.next++; counters["probe:candidate_removed_during_offer"]++; }
    if (cur.next >= cur.cand.size())
      fail("oracle:C20:unexpected-handler", "message %u to %s offered to the handler at %s%s, which the model does not list (expected no further handler)", serial, join_path(cur.path).c_str(),
           join_path(r->path).c_str(), r->fallback ? " (fallback)" : "");
    if (cur.cand[cur.next] != r)
      fail("oracle:C20:wrong-handler-order", "message %u to %s offered to the handler at %s%s; the model expects %s%s next", serial, join_path(cur.path).c_str(), join_path(r->path).c_str(),
           r->fallback ? " (fallback)" : "", join_path(cur.cand[cur.next]->path).c_str(), cur.cand[cur.next]->fallback ? " (fallback)" : "");
    cur.next++;
    bool is_call = dbus_message_get_type(m) == DBUS_MESSAGE_TYPE_METHOD_CALL;
    auto reply = [&]() {
      if (!is_call) return;
      DBusMessage *rep = dbus_message_new_method_return(m);
      std::string tok = "reg" + std::to_string(r->id);
      const char *s = tok.c_str();
      if (!rep || !dbus_message_append_args(rep, DBUS_TYPE_STRING, &s, DBUS_TYPE_INVALID) || !dbus_connection_send(c, rep, nullptr)) core::harness_error("reply oom");
      dbus_message_unref(rep);
    };
    switch (r->behaviour) {
      case B_DECLINE: return DBUS_HANDLER_RESULT_NOT_YET_HANDLED;
      case B_REPLY: reply(); cur.handled = true; cur.handled_by = r; return DBUS_HANDLER_RESULT_HANDLED;
      case B_SILENT: cur.handled = true; cur.handled_by = r; return DBUS_HANDLER_RESULT_HANDLED;
      case B_DECLINE_UNREG_OTHER: {
        std::vector<Reg *> live;
        if (r->arg & 1)      // prefer a handler this very message would be offered to next
          for (size_t i = cur.next; i < cur.cand.size(); i++) if (cur.cand[i]->alive && cur.cand[i] != r) live.push_back(cur.cand[i]);
        if (live.empty())
          for (auto &kv : model) if (kv.second != r) live.push_back(kv.second);
        if (!live.empty()) { counters["probe:handler_unregisters_other"]++; do_unregister(live[(size_t)r->arg % live.size()], -1); }
        return DBUS_HANDLER_RESULT_NOT_YET_HANDLED;
      }
      case B_REPLY_UNREG_SELF:
        reply();
        cur.handled = true; cur.handled_by = r;
        counters["probe:handler_unregisters_self"]++;
        do_unregister(r, -1);
        return DBUS_HANDLER_RESULT_HANDLED;
      case B_DECLINE_REG_NEW: {
        if (!pool.empty()) {
          Path np = split_path(pool[(size_t)r->arg % pool.size()]);
          bool in_list = false;
          for (auto *cnd : cur.cand) if (cnd->path == np) in_list = true;
          // (a path on the current offer's list is left alone: whether a re-registration there is offered is unspecified)
          if (!in_list && np != cur.path && !is_prefix(np, cur.path)) { counters["probe:handler_registers_new"]++; do_register(np, r->arg & 1, B_REPLY, 0, -1); }
        }
        return DBUS_HANDLER_RESULT_NOT_YET_HANDLED;
      }
      case B_OOM_ONCE_THEN_REPLY:
        if (!r->oomed.count(serial)) { r->oomed.insert(serial); cur.need_memory = true; cur.handled_by = r; counters["probe:handler_need_memory"]++; return DBUS_HANDLER_RESULT_NEED_MEMORY; }
        reply(); cur.handled = true; cur.handled_by = r; return DBUS_HANDLER_RESULT_HANDLED;
    }
    return DBUS_HANDLER_RESULT_NOT_YET_HANDLED;
  }

  // filter: runs at the start of every dispatch attempt of a message
  void on_message(DBusConnection *, DBusMessage *m) {
    int t = dbus_message_get_type(m);
    if (t != DBUS_MESSAGE_TYPE_METHOD_CALL && t != DBUS_MESSAGE_TYPE_SIGNAL) return;
    const char *p = dbus_message_get_path(m);
    if (!p) return;
    uint32_t serial = dbus_message_get_serial(m);
    if (cur.active && cur.serial == serial) {
      // the same message again: the previous attempt must have ended for want of memory
      if (!cur.need_memory && !cur.oom_suspect)
        fail("oracle:C20:offered-twice", "message %u to %s is dispatched a second time although no handler asked for memory and no allocation failed", serial, p);
      counters["probe:redispatch_after_need_memory"]++;
    } else {
      finish_attempt(true);    // a put-back message is retried before any other is dispatched: nothing more can come for the old one
    }
    cur = Attempt();
    cur.active = true;
    cur.serial = serial;
    cur.mtype = t;
    cur.path = split_path(p);
    cur.iface = dbus_message_get_interface(m) ? dbus_message_get_interface(m) : "";
    cur.member = dbus_message_get_member(m) ? dbus_message_get_member(m) : "";
    cur.cand = model_candidates(cur.path, &cur.found);
    cur.oom_suspect = oom_possible;
    tr.ev("offer serial=%u path=%s candidates=%zu found=%d", serial, p, cur.cand.size(), (int)cur.found);
  }

  // the offer of cur is over (the application got control back): judge it and predict the peer's answer
  void finish_attempt(bool strict = false) {
    if (!cur.active || cur.judged) return;
    if (cur.need_memory && !strict) return;      // the retry is still to come
    if (!cur.handled && cur.oom_suspect && !strict) {
      // possibly cut short by the injected allocation failure: the retry (same serial) supersedes it; if none
      // comes the call stays unanswered and judge_replies() reports it
      bool incomplete = false;
      for (size_t i = cur.next; i < cur.cand.size(); i++) if (cur.cand[i]->alive) incomplete = true;
      if (incomplete) { counters["probe:offer_cut_short_by_oom"]++; return; }
    }
    cur.judged = true;
    Attempt a = cur;
    if (a.need_memory) fail("oracle:C20:not-redispatched", "message %u to %s: a handler asked for more memory but the message was not offered again", a.serial, join_path(a.path).c_str());
    if (!a.handled) {
      for (size_t i = a.next; i < a.cand.size(); i++)
        if (!a.cand[i]->alive) counters["probe:candidate_removed_during_offer"]++;
        else
          fail("oracle:C20:handler-skipped", "message %u to %s was never offered to the handler at %s%s although every earlier handler declined", a.serial, join_path(a.path).c_str(),
               join_path(a.cand[i]->path).c_str(), a.cand[i]->fallback ? " (fallback)" : "");
    }
    counters["offers_judged"]++;
    if (a.cand.size() >= 2) counters["probe:offer_with_several_candidates"]++;
    Expect e;
    e.serial = a.serial;
    if (a.mtype != DBUS_MESSAGE_TYPE_METHOD_CALL) e.kind = 0;
    else if (a.handled) {
      if (a.handled_by->behaviour == B_SILENT) e.kind = 0;
      else { e.kind = 1; e.text = "reg" + std::to_string(a.handled_by->id); }
    } else if (a.iface == "org.freedesktop.DBus.Introspectable" && a.member == "Introspect") {
      e.kind = 3;
      e.children = model_children(a.path);
      counters["probe:default_introspect"]++;
    } else {
      e.kind = 2;
      e.text = a.found ? "org.freedesktop.DBus.Error.UnknownMethod" : "org.freedesktop.DBus.Error.UnknownObject";
      e.residual_flag = !a.found && residual_fallback_flag(a.path);
      counters[a.found ? "probe:unknown_method" : "probe:unknown_object"]++;
    }
    expect[a.serial] = e;
  }

  // ------------------------------------------------------------------ application API steps (real tree + model together)
  static const DBusObjectPathVTable *vtable() {
    static DBusObjectPathVTable vt = {unregister_cb, message_cb, nullptr, nullptr, nullptr, nullptr};
    return &vt;
  }

  void do_register(const Path &p, bool fallback, int behaviour, int64_t arg, int oom) {
    regs.emplace_back();
    Reg *r = &regs.back();
    r->id = (int)regs.size();
    r->sc = this;
    r->path = p;
    r->fallback = fallback;
    r->behaviour = behaviour;
    r->arg = arg;
    std::string ps = join_path(p);
    DBusError err;
    dbus_error_init(&err);
    if (oom >= 0) _dbus_set_fail_alloc_counter(oom);
    dbus_bool_t ok = fallback ? dbus_connection_try_register_fallback(conn, ps.c_str(), vtable(), r, &err) : dbus_connection_try_register_object_path(conn, ps.c_str(), vtable(), r, &err);
    int left = _dbus_get_fail_alloc_counter();
    _dbus_set_fail_alloc_counter(_DBUS_INT_MAX);
    bool failed_alloc = oom >= 0 && left > oom;   // the counter wrapped back up: the failure fired
    (void)failed_alloc;
    bool occupied = model.count(p) != 0;
    tr.ev("register %s fallback=%d -> %d %s", ps.c_str(), (int)fallback, (int)ok, ok ? "" : err.name);
    note(std::string(fallback ? "fallback(" : "register(") + ps + ")" + (ok ? "" : std::string("=") + (err.name ? strrchr(err.name, '.') + 1 : "?")));
    if (ok) {
      if (occupied) fail("oracle:C20:occupied-path-registered", "registering %s succeeded although a handler is registered there", ps.c_str());
      r->alive = true;
      model[p] = r;
      for (size_t n = 0; n < p.size(); n++) { Path a(p.begin(), p.begin() + (long)n); if (!node_flag.count(a)) node_flag[a] = false; }
      node_flag[p] = fallback;
      counters["registrations"]++;
    } else {
      std::string en = err.name ? err.name : "";
      if (en == "org.freedesktop.DBus.Error.NoMemory") {
        if (oom < 0) fail("oracle:C20:spurious-nomemory", "registering %s failed with NoMemory although no allocation failure was injected", ps.c_str());
        counters["probe:register_nomemory"]++;
      } else if (en == "org.freedesktop.DBus.Error.ObjectPathInUse") {
        if (!occupied) fail("oracle:C20:free-path-refused", "registering %s failed with ObjectPathInUse although nothing is registered there", ps.c_str());
        counters["probe:register_occupied"]++;
      } else
        fail("oracle:C20:register-error", "registering %s failed with unexpected error %s", ps.c_str(), en.c_str());
      dbus_error_free(&err);
      r->unreg_calls = 1;   // never registered: nothing to be told about (counts as settled)
    }
  }

  void do_unregister(Reg *r, int oom) {
    std::string ps = join_path(r->path);
    if (oom >= 0) _dbus_set_fail_alloc_counter(oom);
    dbus_bool_t ok = dbus_connection_unregister_object_path(conn, ps.c_str());
    _dbus_set_fail_alloc_counter(_DBUS_INT_MAX);
    tr.ev("unregister %s -> %d", ps.c_str(), (int)ok);
    note("unregister(" + ps + ")" + (ok ? "" : "=fail"));
    if (ok) {
      r->alive = false;
      model.erase(r->path);
      for (Path q = r->path; !q.empty(); q.pop_back()) {
        // a node without handler and without children is removed, then its parent is looked at
        bool has_child = false;
        for (auto &kv : node_flag) if (kv.first.size() > q.size() && is_prefix(q, kv.first)) has_child = true;
        if (model.count(q) || has_child) break;
        node_flag.erase(q);
      }
      if (r->unreg_calls != 1) fail("oracle:C20:unregister-function-not-run", "unregistering %s returned success but its unregister function ran %d times", ps.c_str(), r->unreg_calls);
      counters["unregistrations"]++;
    } else {
      if (oom < 0) fail("oracle:C20:unregister-failed", "unregistering the registered path %s failed although no allocation failure was injected", ps.c_str());
      counters["probe:unregister_nomemory"]++;
      if (r->unreg_calls != 0) fail("oracle:C20:unregister-half-done", "unregistering %s reported failure but its unregister function ran", ps.c_str());
    }
  }

  // the whole tree as the API shows it == the model
  void list_into(const Path &p, std::set<Path> *nodes, int depth) {
    char **kids = nullptr;
    if (!dbus_connection_list_registered(conn, join_path(p).c_str(), &kids)) core::harness_error("list_registered oom");
    std::vector<std::string> got;
    for (int i = 0; kids[i]; i++) got.push_back(kids[i]);
    dbus_free_string_array(kids);
    std::vector<std::string> sorted = got;
    std::sort(sorted.begin(), sorted.end());
    if (std::adjacent_find(sorted.begin(), sorted.end()) != sorted.end()) fail("oracle:C20:child-listing", "the child listing of %s names a child twice", join_path(p).c_str());
    std::vector<std::string> want = model_children(p);
    if (sorted != want) {
      std::string g, wn;
      for (auto &s : sorted) g += s + " ";
      for (auto &s : want) wn += s + " ";
      fail("oracle:C20:child-listing", "children of %s as listed by the connection: [ %s]; registered tree: [ %s]", join_path(p).c_str(), g.c_str(), wn.c_str());
    }
    if (depth > 8) return;
    for (auto &k : got) { Path c = p; c.push_back(k); nodes->insert(c); list_into(c, nodes, depth + 1); }
  }

  void check_tree() {
    std::set<Path> nodes;
    list_into(Path(), &nodes, 0);
    for (auto &kv : model) {
      void *data = nullptr;
      if (!dbus_connection_get_object_path_data(conn, join_path(kv.first).c_str(), &data)) core::harness_error("get_object_path_data oom");
      if (data != kv.second) fail("oracle:C20:user-data", "the data registered at %s is not what the connection returns for that path", join_path(kv.first).c_str());
    }
    // ... and nothing for a path where nothing is registered: beside, above and below the registrations (also
    // below fallbacks - the data belongs to the exact path, it is not inherited)
    std::set<Path> others;
    for (auto &kv : model) {
      Path q = kv.first;
      q.push_back("zz9"); others.insert(q);                                   // below
      q.push_back("deeper"); others.insert(q);
      q = kv.first;
      if (!q.empty()) { q.pop_back(); others.insert(q); q.push_back("zz9"); others.insert(q); }   // parent, sibling
    }
    others.insert(Path());
    for (auto &q : others) {
      if (model.count(q)) continue;
      void *data = (void *)this;
      if (!dbus_connection_get_object_path_data(conn, join_path(q).c_str(), &data)) core::harness_error("get_object_path_data oom");
      if (data != nullptr) fail("oracle:C20:user-data", "nothing is registered at %s, yet the connection returns user data for that path", join_path(q).c_str());
      counters["probe:user_data_of_unregistered_path"]++;
    }
    counters["tree_comparisons"]++;
  }

  // ------------------------------------------------------------------ the peer
  std::string peer_in;
  bool peer_binary = false;
  std::vector<wire::Msg> peer_got;
  void peer_pump() {
    peer_in += w->peer_read(p0);
    if (!peer_binary) {
      size_t p = peer_in.find("\r\n");
      if (p == std::string::npos) return;
      if (peer_in.compare(0, 3, "OK ") != 0) core::harness_error("handshake refused: %s", peer_in.substr(0, p).c_str());
      peer_in.erase(0, p + 2);
      peer_binary = true;
    }
    while (!peer_in.empty()) {
      wire::ParseResult r = wire::parse(peer_in);
      if (r.status == wire::P_NEED_MORE) break;
      if (r.status == wire::P_INVALID) fail("oracle:C02:library-emitted-invalid", "the library wrote bytes the independent codec rejects (%s)", r.reason.c_str());
      peer_in.erase(0, r.total_len);
      tr.ev("peer got type=%d reply_serial=%u", r.msg.type, r.msg.reply_serial());
      peer_got.push_back(r.msg);
    }
  }

  void peer_send(const Step &s) {
    std::string path = s.S(0);
    int kind = (int)s.N(0, 0);
    uint32_t serial = next_serial++;
    wire::Msg m;
    if (kind == 1) m = wire::Msg::method_call(serial, "", path, "org.freedesktop.DBus.Introspectable", "Introspect");
    else if (kind == 2) m = wire::Msg::method_call(serial, "", path, "org.freedesktop.DBus.Peer", "Ping");
    else if (kind == 3) m = wire::Msg::signal(serial, path, "com.example.Iface", "Changed");
    else if (kind == 4) { m = wire::Msg::method_call(serial, "", path, "", "Frob"); m.remove_field(wire::F_INTERFACE); }
    else m = wire::Msg::method_call(serial, "", path, "com.example.Iface", "Frob", {wire::Value::u32(serial)});
    m.remove_field(wire::F_DESTINATION);
    w->peer_write(p0, wire::marshal(m));
    sent_serials.insert(serial);
    if (m.type == wire::T_CALL) sent_order.push_back(serial);
    if (kind == 2) { Expect e; e.serial = serial; e.kind = 4; expect[serial] = e; counters["probe:builtin_peer_ping"]++; }
    note(std::string(kind == 3 ? "signal(" : kind == 1 ? "introspect(" : kind == 2 ? "ping(" : "call(") + path + ")");
  }

  static std::vector<std::string> xml_children(const std::string &xml) {
    std::vector<std::string> v;
    size_t i = 0;
    while ((i = xml.find("<node name=\"", i)) != std::string::npos) {
      i += 12;
      size_t j = xml.find('"', i);
      if (j == std::string::npos) break;
      v.push_back(xml.substr(i, j - i));
      i = j;
    }
    std::sort(v.begin(), v.end());
    return v;
  }

  void judge_replies() {
    // every call gets exactly the predicted answer, answers in the order of the calls
    size_t gi = 0;
    for (uint32_t serial : sent_order) {
      auto it = expect.find(serial);
      if (it == expect.end()) fail("oracle:C20:not-dispatched", "the peer's call %u was never dispatched although the connection ran to idle", serial);
      const Expect &e = it->second;
      if (e.kind == 0) continue;
      if (gi >= peer_got.size()) fail("oracle:C20:missing-reply", "call %u: the peer received no answer (expected %s)", serial, e.kind == 2 ? e.text.c_str() : e.kind == 1 ? "a reply from the handler" : "a built-in reply");
      const wire::Msg &g = peer_got[gi++];
      if (g.reply_serial() != serial) fail("oracle:C20:wrong-reply", "the peer's next answer is for serial %u, expected the answer to call %u", g.reply_serial(), serial);
      if (e.kind == 1) {
        if (g.type != wire::T_RETURN || g.body.size() != 1 || g.body[0].str != e.text)
          fail("oracle:C20:wrong-reply", "call %u: expected the reply of handler %s, got %s", serial, e.text.c_str(), g.repr().c_str());
      } else if (e.kind == 2) {
        if (g.type == wire::T_ERROR && e.text == "org.freedesktop.DBus.Error.UnknownObject" && g.error_name() == "org.freedesktop.DBus.Error.UnknownMethod" &&
            e.residual_flag && known.count("C20-unknown-object-reported-as-unknown-method")) {
          // listed known finding: exactly this substitution, nothing else
          counters["finding:C20-unknown-object-reported-as-unknown-method"]++;
        } else if (g.type != wire::T_ERROR || g.error_name() != e.text)
          fail("oracle:C20:wrong-error", "call %u: expected error %s, the peer received %s", serial, e.text.c_str(), g.type == wire::T_ERROR ? g.error_name().c_str() : g.repr().c_str());
      } else if (e.kind == 3) {
        if (g.type != wire::T_RETURN || g.body.size() != 1 || g.body[0].type != 's') fail("oracle:C20:wrong-reply", "call %u: expected the built-in introspection reply, got %s", serial, g.repr().c_str());
        std::vector<std::string> got = xml_children(g.body[0].str);
        if (got != e.children) {
          std::string a, b;
          for (auto &s : got) a += s + " ";
          for (auto &s : e.children) b += s + " ";
          fail("oracle:C20:child-listing", "call %u: built-in introspection lists children [ %s], registered tree has [ %s]", serial, a.c_str(), b.c_str());
        }
      } else if (e.kind == 4) {
        if (g.type != wire::T_RETURN) fail("oracle:C20:wrong-reply", "call %u: expected the built-in Ping reply, got %s", serial, g.repr().c_str());
      }
      counters["replies_judged"]++;
    }
    if (gi < peer_got.size()) fail("oracle:C20:unexpected-reply", "the peer received %zu messages more than the model predicts, first: %s", peer_got.size() - gi, peer_got[gi].repr().c_str());
  }

  core::RunResult run(bool log) {
    core::RunResult res;
    tr.reset(log);
    try {
      lw::LibWorld world(tr, plan.seed);
      w = &world;
      world.on_message = [this](DBusConnection *c, DBusMessage *m) { on_message(c, m); };
      world.start_server();
      simk::Creds cr;
      K->self.uid = 0;
      p0 = world.peer_connect(cr);
      world.iterate(2, 1, simk::IoProfile());
      std::string hs(1, '\0');
      hs += "AUTH EXTERNAL " + wire::hex_encode("0") + "\r\nBEGIN\r\n";
      world.peer_write(p0, hs);
      world.iterate(4, 1, simk::IoProfile());
      lw::ServerConn *sc = world.conn_of_peer(p0);
      if (!sc || !sc->conn || !dbus_connection_get_is_authenticated(sc->conn)) core::harness_error("peer was not accepted");
      conn = sc->conn;
      for (auto &s : plan.steps) if (s.t == "reg" || s.t == "call") if (std::find(pool.begin(), pool.end(), s.S(0)) == pool.end()) pool.push_back(s.S(0));
      for (auto &s : plan.steps) {
        tr.ev("step %s %s", s.t.c_str(), s.S(0).c_str());
        if (s.t == "reg") {
          finish_attempt();
          do_register(split_path(s.S(0)), s.N(0, 0) != 0, (int)(s.N(1, 0) % B_COUNT), s.N(2, 0), (int)s.N(3, -1));
          check_tree();
        } else if (s.t == "unreg") {
          finish_attempt();
          if (!model.empty()) {
            auto it = model.begin();
            std::advance(it, (long)((size_t)s.N(0, 0) % model.size()));
            do_unregister(it->second, (int)s.N(1, -1));
            check_tree();
          }
        } else if (s.t == "list") {
          finish_attempt();
          std::set<Path> dummy;
          Path p = split_path(s.S(0));
          char **kids = nullptr;
          if (!dbus_connection_list_registered(conn, s.S(0).c_str(), &kids)) core::harness_error("list oom");
          std::vector<std::string> got;
          for (int i = 0; kids[i]; i++) got.push_back(kids[i]);
          dbus_free_string_array(kids);
          std::sort(got.begin(), got.end());
          if (got != model_children(p)) fail("oracle:C20:child-listing", "children of %s as listed by the connection differ from the registered tree", s.S(0).c_str());
        } else if (s.t == "call") {
          peer_send(s);
        } else if (s.t == "run") {
          simk::IoProfile pr;
          pr.short_read_pct = (unsigned)s.N(2); pr.one_byte_read_pct = (unsigned)s.N(3); pr.eagain_read_pct = (unsigned)s.N(4); pr.eintr_pct = (unsigned)s.N(5);
          pr.short_write_pct = (unsigned)s.N(6);
          int oom = (int)s.N(7, -1);
          oom_possible = oom >= 0;
          if (oom >= 0) counters["probe:oom_armed_in_loop"]++;
          world.iterate((int)s.N(0, 1), (uint64_t)s.N(1, 1), pr, oom);
          oom_possible = false;
          // an attempt cut short by an allocation failure is retried by later iterations; one that ran to
          // its end is judged when the next message arrives or the application acts next
          peer_pump();
        } else core::harness_error("unknown step %s", s.t.c_str());
      }
      oom_possible = true;    // a retry pending from the last faulty loop step is legitimate
      world.settle();
      oom_possible = false;
      finish_attempt(true);
      peer_pump();
      check_tree();
      judge_replies();
      size_t live = model.size();
      conn = nullptr;
      world.on_message = nullptr;
      world.stop();
      w = nullptr;
      for (auto &r : regs)
        if (r.unreg_calls != 1) fail("oracle:C20:unregister-function-count", "the unregister function of registration %d (%s) ran %d times by the time the connection was finalized", r.id, join_path(r.path).c_str(), r.unreg_calls);
      if (live) counters["probe:registrations_alive_at_finalize"]++;
    } catch (core::Violation &v) {
      res.ok = false;
      res.cls = v.cls;
      res.detail = v.detail;
    }
    res.hash = tr.h;
    res.counters = counters;
    for (auto &kv : lw::last_stats.faults) res.counters["fault:" + kv.first] += kv.second;
    res.nontrivial = counters["offers_judged"] > 0 && counters["registrations"] > 0;
    res.sample = hist;
    if (tr.keep_text) res.sample = tr.text + "HISTORY " + hist + "\n";
    return res;
  }
};

}  // namespace

core::RunResult run_tree(const Plan &plan, bool log) {
  Scenario sc(plan);
  return sc.run(log);
}

Plan gen_tree(uint64_t seed, bool th) {
  simk::Rng r(seed * 0x9e3779b1u + 20);
  Plan p;
  p.prop = "C20";
  p.seed = seed;
  static const char *all[] = {"a", "b", "a0", "a_", "aa", "ab", "A", "b1", "z", "a-"};   // "a-" is not a legal element: never used in paths, keeps indices stable
  std::vector<std::string> voc;
  int nv = (int)r.range(2, 4);
  while ((int)voc.size() < nv) { std::string e = all[r.below(9)]; if (std::find(voc.begin(), voc.end(), e) == voc.end()) voc.push_back(e); }
  auto gen_path = [&]() {
    int d = r.pct(8) ? 0 : (int)r.range(1, 4);
    std::string s;
    for (int i = 0; i < d; i++) s += "/" + voc[r.below(voc.size())];
    return d ? s : std::string("/");
  };
  std::vector<std::string> used, regd;
  auto related = [&]() {      // inside, beside and below earlier paths
    if (used.empty() || r.pct(15)) return gen_path();
    std::string b = (!regd.empty() && r.pct(70)) ? regd[r.below(regd.size())] : used[r.below(used.size())];
    int k = (int)r.below(6);
    if (k == 0) return b;
    if (k == 1 || k == 4) return (b == "/" ? std::string("") : b) + "/" + voc[r.below(voc.size())];       // below
    if (k == 5) return (b == "/" ? std::string("") : b) + "/" + voc[r.below(voc.size())] + "/" + voc[r.below(voc.size())];
    if (k == 2) { size_t q = b.rfind('/'); return q == 0 ? std::string("/") : b.substr(0, q); }             // parent
    size_t q = b.rfind('/');                                                                                 // sibling
    return b.substr(0, q) + "/" + voc[r.below(voc.size())];
  };
  auto add = [&](const std::string &t, std::vector<int64_t> n = {}, std::vector<std::string> s = {}) { Step st; st.t = t; st.n = std::move(n); st.s = std::move(s); p.steps.push_back(st); };
  bool with_oom = r.pct(35);
  bool reentrant = r.pct(50);
  int nops = (int)r.range(4, th ? 70 : 30);
  for (int i = 0; i < nops; i++) {
    int x = (int)r.below(100);
    if (x < 30) {
      std::string path = related();
      used.push_back(path);
      regd.push_back(path);
      int beh = r.pct(40) ? B_DECLINE : r.pct(45) ? B_REPLY : (int)r.below(B_COUNT);
      if (!reentrant && (beh == B_DECLINE_UNREG_OTHER || beh == B_REPLY_UNREG_SELF || beh == B_DECLINE_REG_NEW)) beh = B_DECLINE;
      add("reg", {r.pct(60) ? 1 : 0, beh, (int64_t)r.below(16), with_oom && r.pct(40) ? (int64_t)r.below(12) : -1}, {path});
    } else if (x < 42) add("unreg", {(int64_t)r.below(16), with_oom && r.pct(30) ? (int64_t)r.below(6) : -1});
    else if (x < 72) {
      int kk = (int)r.below(100);
      add("call", {kk < 60 ? 0 : kk < 78 ? 1 : kk < 83 ? 2 : kk < 93 ? 3 : 4}, {related()});
    } else if (x < 76) add("list", {}, {related()});
    else add("run", {(int64_t)r.range(1, 4), (int64_t)(r.next() & 0x7fffffff), r.pct(40) ? (int64_t)r.below(40) : 0, r.pct(25) ? (int64_t)r.below(30) : 0,
                     r.pct(25) ? (int64_t)r.below(15) : 0, r.pct(25) ? (int64_t)r.below(10) : 0, r.pct(30) ? (int64_t)r.below(40) : 0,
                     with_oom && r.pct(50) ? (int64_t)r.below(60) : -1});
  }
  return p;
}

}  // namespace libchecks
