// sim/harness/gen.cc — seeded plan generators for the daemon-level properties.
// Swarm style: every run first draws its shape (actors, names, enabled op and
// fault kinds, rates, knobs), then its steps.
#include <string.h>

#include "codec/corrupt.h"
#include "codec/wire.h"
#include "core/core.h"
#include "harness/checks.h"
#include "harness/exec.h"
#include "model/policy.h"
#include "kernel/kernel.h"

using core::Plan;
using core::Step;
using simk::Rng;

namespace checks {

namespace {

struct Shape {
  int nclients = 3;
  std::vector<std::string> names;
  std::vector<unsigned> uids;
  // fault intensity per bus step
  int prof[10] = {0, 0, 0, 0, 0, 0, 0, 0, 0, 0};
  int max_iters = 3;
  bool lazy_drain = false;
  int rxcap_small_pct = 0;
  int fdpass_pct = 0;             // share of clients that negotiate descriptor passing (0: nobody, the default)
  int fd_msg_pct = 0;             // share of unicast / broadcast messages that carry descriptors
};

struct G {
  Rng r;
  Plan p;
  Shape sh;
  bool thorough;
  G(uint64_t seed, bool th) : r(seed), thorough(th) {}

  Step mk(const std::string &t, int a = -1, std::vector<int64_t> n = {}, std::vector<std::string> s = {}) {
    Step st;
    st.t = t; st.a = a; st.n = std::move(n); st.s = std::move(s);
    return st;
  }
  void add(Step s) { p.steps.push_back(std::move(s)); }

  void draw_faults(int intensity) {
    // enable a random subset of fault kinds for this run
    static const int maxp[10] = {40, 30, 40, 30, 15, 15, 10, 40, 30, 0};
    for (int i = 0; i < 10; i++) sh.prof[i] = 0;
    if (intensity == 0) return;
    for (int i = 0; i < 10; i++)
      if (r.pct(intensity == 1 ? 35 : 65)) sh.prof[i] = (int)r.range(1, maxp[i] ? maxp[i] : 1) * (maxp[i] ? 1 : 0);
  }

  Step bus_step(int iters = -1) {
    if (iters < 0) iters = (int)r.range(1, sh.max_iters);
    std::vector<int64_t> n = {iters, (int64_t)(r.next() & 0x7fffffff)};
    for (int i = 0; i < 10; i++) n.push_back(sh.prof[i]);
    return mk("bus", -1, n);
  }

  void connect_all(bool interleaved, bool subscribe_noc) {
    // in some plans the bus's unique-name counter jumps (hook H1) so that live unique names are in a prefix relation
    // (:1.1 and :1.1x) without ten connections: anything that compares names by prefix shows
    int jump_after = (!interleaved && sh.nclients >= 3 && !p.cfg.count("uniq.minor") && r.pct(15)) ? (int)r.range(2, sh.nclients - 1) : -1;
    for (int i = 0; i < sh.nclients; i++) {
      if (i == jump_after) add(mk("uniq", -1, {1, (int64_t)((i - 1) * 10 + (int)r.below(10))}));
      unsigned uid = sh.uids.empty() ? 0 : sh.uids[(size_t)i % sh.uids.size()];
      int64_t rxcap = r.pct((unsigned)sh.rxcap_small_pct) ? r.range(64, 4096) : 0;
      add(mk("connect", i, {(int64_t)uid, (int64_t)uid, 1000 + i, (sh.fdpass_pct && r.pct((unsigned)sh.fdpass_pct)) ? 1 : 0, rxcap}));
      add(mk("auth", i, {1}));
      // (a Hello may carry flags like any call: NO_REPLY_EXPECTED, NO_AUTO_START, ALLOW_INTERACTIVE_AUTHORIZATION)
      add(mk("hello", i, {-1, r.pct(10) ? (int64_t)r.range(1, 7) : 0}));
      if (!interleaved) { add(bus_step(3)); add(mk("drain", i)); }
    }
    if (interleaved) {
      for (int k = 0; k < 4; k++) add(bus_step(2));
      for (int i = 0; i < sh.nclients; i++) add(mk("drain", i));
    }
    if (subscribe_noc)
      for (int i = 0; i < sh.nclients; i++)
        if (r.pct(70)) add(mk("addmatch", i, {-1}, {"type='signal',sender='org.freedesktop.DBus',member='NameOwnerChanged'"}));
    add(bus_step(3));
    add(mk("check"));
  }

  void pump() {
    // some bus work and some draining, in random order
    int k = (int)r.range(0, 3);
    for (int i = 0; i < k; i++) {
      if (r.pct(60)) add(bus_step());
      else if (!sh.lazy_drain || r.pct(40)) add(mk("drain", (int)r.below((uint64_t)sh.nclients)));
    }
  }

  std::string a_name() { return sh.names[r.below(sh.names.size())]; }
  int a_client() { return (int)r.below((uint64_t)sh.nclients); }
  int64_t deliver_mode() {
    // mostly whole message at once; sometimes a prefix now and the rest later
    if (r.pct(85)) return -1;
    return (int64_t)r.range(1, 40);
  }
};

void base_shape(G &g, int min_clients, int max_clients) {
  g.sh.nclients = (int)g.r.range(min_clients, max_clients);
  static const char *pool[] = {"com.example.a", "com.example.b", "com.example.a.b", "org.test.Svc", "com.example.ab", "x.y"};
  int nn = (int)g.r.range(1, 4);
  for (int i = 0; i < nn; i++) g.sh.names.push_back(pool[g.r.below(6)]);
  g.sh.max_iters = (int)g.r.range(1, 4);
  g.sh.lazy_drain = g.r.pct(30);
  g.sh.rxcap_small_pct = g.r.pct(25) ? 50 : 0;
  g.draw_faults((int)g.r.below(3));
  if (g.r.pct(30)) g.p.cfg["knob.read_limit"] = std::to_string(g.r.range(1, 64));
  // a bus that has been up for a while: the connection traversal stamp (one tick per routed message) starts just
  // below, at or beyond a power of two instead of at 0 (hook H7)
  if (g.r.pct(12)) {
    static const int64_t at[] = {255, 65535, 65535, 65536, 16777215, 1073741824};
    g.p.cfg["stamp.start"] = std::to_string(at[g.r.below(6)] - (g.r.pct(60) ? (int64_t)g.r.below(40) : 0) + (g.r.pct(20) ? 65536 * (int64_t)g.r.below(5) : 0));
  }
}

// ---------------------------------------------------------------- SMOKE

Plan gen_smoke(uint64_t seed, bool th) {
  G g(seed, th);
  g.p.prop = "SMOKE";
  g.p.seed = seed;
  base_shape(g, 2, 3);
  g.connect_all(false, true);
  g.add(g.mk("reqname", 0, {0, -1}, {"com.example.a"}));
  g.add(g.bus_step(2));
  g.add(g.mk("send", 1, {1, 0, -1}, {"com.example.a", "/x", "com.example.I", "Foo", "", "", "s:hello"}));
  g.add(g.bus_step(2));
  g.add(g.mk("check"));
  g.add(g.mk("reply", 0, {0, 0, -1}));
  g.add(g.bus_step(2));
  g.add(g.mk("check"));
  return g.p.steps.empty() ? g.p : g.p;
}

// ---------------------------------------------------------------- C04: name ownership

void name_ops(G &g, int nops, int w_req, int w_rel, int w_close, int w_query, int w_reconnect) {
  int total = w_req + w_rel + w_close + w_query + w_reconnect;
  static const char *bad_names[] = {"org.freedesktop.DBus", ":1.0", "noperiod", "a..b", "com.example.7x", ""};
  for (int i = 0; i < nops; i++) {
    int x = (int)g.r.below((uint64_t)total);
    int c = g.a_client();
    if ((x -= w_req) < 0) {
      std::string name = g.r.pct(8) ? bad_names[g.r.below(6)] : g.a_name();
      int64_t flags = g.r.pct(90) ? (int64_t)g.r.below(8) : (int64_t)(g.r.below(8) | (g.r.next() & 0xfffffff8u));
      g.add(g.mk("reqname", c, {flags, g.deliver_mode()}, {name}));
    } else if ((x -= w_rel) < 0) {
      std::string name = g.r.pct(8) ? bad_names[g.r.below(6)] : g.a_name();
      g.add(g.mk("relname", c, {g.deliver_mode()}, {name}));
    } else if ((x -= w_close) < 0) {
      g.add(g.mk("close", c));
    } else if ((x -= w_query) < 0) {
      static const char *qs[] = {"GetNameOwner", "NameHasOwner", "ListNames", "ListQueuedOwners"};
      std::string q = qs[g.r.below(4)];
      std::string arg = g.r.pct(70) ? g.a_name() : (g.r.pct(50) ? "$u" + std::to_string(g.a_client()) : "com.example.none");
      if (q == "ListQueuedOwners" && arg[0] == '$') arg = g.a_name();
      g.add(g.mk("query", c, {-1}, {q, arg}));
    } else {
      int ni = g.sh.nclients++;
      g.add(g.mk("connect", ni, {0, 0, 1000 + ni, 0, 0}));
      g.add(g.mk("auth", ni, {1}));
      g.add(g.mk("hello", ni, {-1}));
    }
    g.pump();
    if (g.r.pct(12)) g.add(g.mk("check"));
  }
}

Plan gen_c04(uint64_t seed, bool th) {
  G g(seed, th);
  g.p.prop = "C04";
  g.p.seed = seed;
  base_shape(g, 2, th ? 6 : 5);
  if (g.r.pct(25)) g.p.cfg["lim.names"] = std::to_string(g.r.range(1, 3));
  g.connect_all(g.r.pct(40), true);
  name_ops(g, (int)g.r.range(6, th ? 60 : 28), 50, 18, 6, 20, 4);
  // final sweep of queries so the end state is observed through the protocol
  for (auto &n : g.sh.names) {
    g.add(g.mk("query", g.a_client(), {-1}, {"ListQueuedOwners", n}));
    g.add(g.mk("query", g.a_client(), {-1}, {"GetNameOwner", n}));
  }
  g.add(g.mk("query", g.a_client(), {-1}, {"ListNames", ""}));
  return g.p;
}

// ---------------------------------------------------------------- C05: unicast routing

void msg_ops(G &g, int nops, bool with_names, bool with_replies, bool forged, bool broadcasts) {
  static const char *ifaces[] = {"com.example.Iface", "org.test.Other", ""};
  static const char *members[] = {"Do", "Get", "Frob"};
  static const char *paths[] = {"/", "/com/example/obj", "/com/example/obj/sub", "/com/example/object"};
  for (int i = 0; i < nops; i++) {
    int c = g.a_client();
    int x = (int)g.r.below(100);
    if (x < 55) {
      // a unicast (or broadcast) message
      std::string dest;
      int dk = (int)g.r.below(100);
      if (dk < 40) dest = "$u" + std::to_string(g.a_client());
      else if (dk < 75 && with_names) dest = g.a_name();
      else if (dk < 82) dest = "com.example.missing";
      else if (dk < 86) dest = ":0.0";
      else if (dk < 88) dest = "$u" + std::to_string(g.a_client()) + (g.r.pct(60) ? "+" + std::to_string(g.r.below(10)) : std::string("-"));   // near miss of a live unique name: nobody
      else if (broadcasts) dest = "";
      else dest = "$u" + std::to_string(g.a_client());
      int64_t type = g.r.pct(60) ? 1 : (int64_t)g.r.range(1, 4);
      if (dest.empty()) type = g.r.pct(80) ? 4 : 1;   // destination-less calls are answered by the bus itself
      int64_t flags = g.r.pct(25) ? (int64_t)g.r.below(4) : 0;
      std::string iface = ifaces[g.r.below(3)];
      if (type == 4 && iface.empty()) iface = ifaces[0];
      // (the interfaces every connection implements are ordinary names in a signal; the bus's own library must
      // not mistake a broadcast on org.freedesktop.DBus.Peer for a call to itself)
      if (type == 4 && g.r.pct(8)) iface = g.r.pct(70) ? "org.freedesktop.DBus.Peer" : "org.freedesktop.DBus.Introspectable";
      std::string member = (type == 1 || type == 4) ? members[g.r.below(3)] : "";
      std::string path = (type == 1 || type == 4) ? paths[g.r.below(4)] : "";
      std::string err = type == 3 ? "com.example.Error.Oops" : "";
      int64_t rs = (type == 2 || type == 3) ? (int64_t)g.r.range(1, 50) : 0;
      int64_t unk = (forged && g.r.pct(35)) ? (int64_t)g.r.range(11, 100000) : 0;
      int64_t ci = (forged && g.r.pct(20)) ? (int64_t)g.r.range(1, 9) : 0;
      int64_t be = g.r.pct(15);
      int64_t shuffle = g.r.pct(25) ? (int64_t)g.r.range(1, 1000) : 0;
      std::string fs;
      if (forged && g.r.pct(50)) {
        int fk = (int)g.r.below(100);
        // somebody else's name, the bus's, a made-up one, the sender's own, or a near miss of its own
        // (":1.1" -> ":1.10", ":1.12" -> ":1.1"): the stamp must be the true name whatever the client wrote
        if (fk < 30) fs = "$u" + std::to_string(g.a_client());
        else if (fk < 45) fs = "org.freedesktop.DBus";
        else if (fk < 60) fs = ":9.99";
        else if (fk < 70) fs = "$u" + std::to_string(c);
        else if (fk < 90) fs = "$u" + std::to_string(c) + "+" + std::to_string(g.r.below(100));
        else fs = "$u" + std::to_string(c) + "-";
      }
      std::vector<std::string> s = {dest, path, iface, member, err, fs};
      int nargs = (int)g.r.below(3);
      for (int k = 0; k < nargs; k++) s.push_back("r:" + std::to_string(g.r.below(100000)));
      if (forged && g.r.pct(4)) {
        // one header field twice (the second copy of an injected container-instance must not get through either)
        static const int codes[] = {10, 10, 10, 7, 6, 8, 3, 2};
        int64_t dup = codes[g.r.below(8)] | (g.r.pct(50) ? 0x100 : 0);
        g.add(g.mk("send", c, {type, flags, g.deliver_mode(), rs, unk, ci, be, 0, 0, 0, 0, 0, -100, dup}, s));
      } else if (g.sh.fd_msg_pct && g.r.pct((unsigned)g.sh.fd_msg_pct) && (type == 1 || type == 4)) {
        // with descriptors attached (as many as announced): delivered once, with them, to a recipient that negotiated
        // descriptor passing; refused with an error otherwise - and never a reason to tell the sender anything twice
        g.add(g.mk("send", c, {type, flags, g.deliver_mode(), rs, unk, ci, be, 0, 0, (int64_t)g.r.range(1, 2), 0, 0}, s));
      } else
      g.add(g.mk("send", c, {type, flags, g.deliver_mode(), rs, unk, ci, be, shuffle}, s));
    } else if (x < 70 && with_replies) {
      g.add(g.mk("reply", c, {(int64_t)g.r.below(4), g.r.pct(75) ? (int64_t)g.r.below(2) : (int64_t)g.r.range(2, 4), g.deliver_mode()}));
    } else if (x < 82 && with_names) {
      std::string name = g.a_name();
      if (g.r.pct(70)) g.add(g.mk("reqname", c, {(int64_t)g.r.below(8), g.deliver_mode()}, {name}));
      else g.add(g.mk("relname", c, {g.deliver_mode()}, {name}));
    } else if (x < 86) {
      g.add(g.mk("close", c));
    } else if (x < 90) {
      g.add(g.mk("stall", c, {g.r.pct(50)}));
    } else if (x < 94) {
      g.add(g.mk("deliver", c, {-1}));
    } else {
      int ni = g.sh.nclients++;
      g.add(g.mk("connect", ni, {0, 0, 1000 + ni, 0, 0}));
      g.add(g.mk("auth", ni, {1}));
      g.add(g.mk("hello", ni, {-1}));
    }
    g.pump();
    if (g.r.pct(10)) g.add(g.mk("check"));
  }
}

Plan gen_c05(uint64_t seed, bool th) {
  G g(seed, th);
  g.p.prop = "C05";
  g.p.seed = seed;
  base_shape(g, 2, th ? 7 : 5);
  if (g.r.pct(22)) {
    // a small max_outgoing_bytes with readers that stall behind small socket buffers: full recipient queues
    g.p.cfg["lim.out_bytes"] = std::to_string(g.r.range(100, 2500));
    g.sh.rxcap_small_pct = 70;
    g.sh.lazy_drain = true;
  }
  if (g.r.pct(20)) { g.sh.fdpass_pct = 70; g.sh.fd_msg_pct = 15; }   // some plans pass descriptors, between connections that do and do not negotiate it
  g.connect_all(g.r.pct(30), g.r.pct(40));
  // some clients eavesdrop
  if (g.r.pct(30)) g.add(g.mk("addmatch", g.a_client(), {-1}, {"eavesdrop='true'"}));
  // rules that name a destination WITHOUT asking to eavesdrop: legal, and they must never bring in other
  // connections' unicast traffic ("to no other connection that has not been granted eavesdropping")
  if (g.r.pct(30)) {
    int n = (int)g.r.range(1, 3);
    for (int i = 0; i < n; i++) {
      std::string d = "$u" + std::to_string(g.a_client());   // (the key is specified for unique names only)
      g.add(g.mk("addmatch", g.a_client(), {-1}, {(g.r.pct(50) ? std::string("") : std::string("type='method_call',")) + "destination='" + d + "'"}));
    }
  }
  msg_ops(g, (int)g.r.range(8, th ? 70 : 30), true, true, false, g.r.pct(30));
  return g.p;
}

Plan gen_c03(uint64_t seed, bool th) {
  G g(seed, th);
  g.p.prop = "C03";
  g.p.seed = seed;
  base_shape(g, 2, th ? 7 : 5);
  if (g.r.pct(30)) { g.p.cfg["uniq.major"] = "1"; g.p.cfg["uniq.minor"] = std::to_string(2147483647 - (int)g.r.below(4)); }
  // connection phase with Hello irregularities
  for (int i = 0; i < g.sh.nclients; i++) {
    g.add(g.mk("connect", i, {0, 0, 1000 + i, 0, 0}));
    g.add(g.mk("auth", i, {1}));
    int k = (int)g.r.below(100);
    if (k < 70) g.add(g.mk("hello", i, {-1, g.r.pct(12) ? (int64_t)g.r.range(1, 7) : 0}));
    else if (k < 85) { g.add(g.mk("hello", i, {-1})); g.add(g.mk("hello", i, {-1})); }
    else g.add(g.mk("send", i, {1, 0, -1}, {"$u" + std::to_string(g.a_client()), "/", "com.example.Iface", "Early", "", ""}));
    if (g.r.pct(60)) { g.add(g.bus_step(3)); g.add(g.mk("drain", i)); }
  }
  for (int k = 0; k < 3; k++) g.add(g.bus_step(2));
  for (int i = 0; i < g.sh.nclients; i++) g.add(g.mk("drain", i));
  for (int i = 0; i < g.sh.nclients; i++)
    if (g.r.pct(50)) g.add(g.mk("addmatch", i, {-1}, {g.r.pct(50) ? "type='signal'" : "eavesdrop='true'"}));
  g.add(g.bus_step(3));
  g.add(g.mk("check"));
  if (!g.p.cfg.count("uniq.minor") && g.r.pct(15)) {
    // the name counter reaches the end of its minor range AFTER low names have been handed out and given up:
    // whatever comes next, it is not a name the bus has used before ("never reused during the lifetime of the bus")
    g.add(g.mk("close", (int)g.r.below((uint64_t)g.sh.nclients)));
    g.add(g.bus_step(3));
    g.add(g.mk("uniq", -1, {1, (int64_t)(2147483647 - (int)g.r.below(2))}));
    int base = g.sh.nclients;
    for (int k = 0; k < 4; k++) {
      int nj = base + k;
      g.add(g.mk("connect", nj, {0, 0, 1000 + nj, 0, 0}));
      g.add(g.mk("auth", nj, {1}));
      g.add(g.mk("hello", nj, {-1}));
      g.add(g.bus_step(3));
      g.add(g.mk("drain", nj));
    }
    g.sh.nclients = base + 4;
    g.add(g.mk("check"));
  }
  if (g.r.pct(25)) {
    // a monitor watches: what it is shown carries the true sender and none of the injected fields either -
    // including messages the bus answers itself and messages of connections that have not said Hello
    int ni = g.sh.nclients++;
    g.add(g.mk("connect", ni, {0, 0, 1000 + ni, 0, 0}));
    g.add(g.mk("auth", ni, {1}));
    g.add(g.mk("hello", ni, {-1}));
    g.add(g.bus_step(3));
    g.add(g.mk("drain", ni));
    g.add(g.mk("becomemonitor", ni, {0, -1}, {}));
    g.add(g.bus_step(3));
    g.sh.nclients--;     // never picked as an ordinary actor afterwards
    msg_ops(g, (int)g.r.range(4, th ? 30 : 13), g.r.pct(50), true, true, true);
    g.sh.nclients++;
    if (g.r.pct(60)) {
      // somebody arrives while the monitor (and perhaps an eavesdropper) is watching: its Hello - plain, flagged
      // NO_REPLY_EXPECTED, or carrying a forged SENDER - is shown with the unique name it is given
      int nj = g.sh.nclients++;
      g.add(g.mk("connect", nj, {0, 0, 1000 + nj, 0, 0}));
      g.add(g.mk("auth", nj, {1}));
      g.add(g.mk("hello", nj, {-1, g.r.pct(50) ? (int64_t)g.r.range(1, 7) : 0}));
      g.add(g.bus_step(3));
      g.add(g.mk("drain", nj));
      g.add(g.mk("check"));
      g.sh.nclients--;
    }
    g.sh.nclients--;
    msg_ops(g, (int)g.r.range(4, th ? 30 : 13), g.r.pct(50), true, true, true);
    g.sh.nclients++;
  } else
  msg_ops(g, (int)g.r.range(8, th ? 60 : 26), g.r.pct(50), true, true, true);
  for (int i = 0; i < 2; i++) g.add(g.mk("query", g.a_client(), {-1}, {"ListNames", ""}));
  return g.p;
}

// ---------------------------------------------------------------- C07: match rules and broadcasts

static const char *kIfaces[] = {"com.example.Iface", "org.test.Other", "com.example.Iface.Sub"};
static const char *kMembers[] = {"Do", "Get", "Frob"};
static const char *kPaths[] = {"/", "/com/example/obj", "/com/example/obj/sub", "/com/example/object", "/com/example"};
static const char *kStrs[] = {"", "a", "/aa/bb/", "/aa/bb/cc", "/aa", "/aa/bb", "/", "com.example.backend1", "com.example.backend1.foo",
                              "com.example.backend10", "it's", "a,b", "back\\slash", "sp ace", "/aa/bb/cc/"};
static const int kNStrs = 15;

std::string quote_value(G &g, const std::string &v) {
  // several spellings of the same value under the specification's quoting rules
  bool needs_quote = v.empty() || v.find_first_of(",' ") != std::string::npos || v.find('\\') != std::string::npos;
  int style = (int)g.r.below(needs_quote ? 2 : 3);
  std::string o;
  if (style == 2) return v;                     // bare
  if (style == 0) {                             // one quoted section, apostrophes escaped outside
    o = "'";
    for (char c : v) { if (c == '\'') o += "'\\''"; else o += c; }
    return o + "'";
  }
  // alternate: every char: quoted runs split at random points
  o = "'";
  for (char c : v) {
    if (c == '\'') o += "'\\''";
    else { o += c; if (g.r.pct(20)) o += "''"; }
  }
  return o + "'";
}

std::string gen_rule(G &g, bool *valid_hint) {
  std::vector<std::string> parts;
  *valid_hint = true;
  if (g.r.pct(55)) { static const char *ts[] = {"signal", "method_call", "method_return", "error"}; parts.push_back(std::string("type=") + quote_value(g, g.r.pct(85) ? "signal" : ts[g.r.below(4)])); }
  if (g.r.pct(25)) parts.push_back("sender=" + quote_value(g, g.r.pct(50) ? "$u" + std::to_string(g.a_client()) : (g.r.pct(50) ? g.a_name() : "org.freedesktop.DBus")));
  if (g.r.pct(35)) parts.push_back("interface=" + quote_value(g, kIfaces[g.r.below(3)]));
  if (g.r.pct(35)) parts.push_back("member=" + quote_value(g, kMembers[g.r.below(3)]));
  int pk = (int)g.r.below(100);
  if (pk < 25) parts.push_back("path=" + quote_value(g, kPaths[g.r.below(5)]));
  else if (pk < 45) parts.push_back("path_namespace=" + quote_value(g, kPaths[g.r.below(5)]));
  if (g.r.pct(10)) parts.push_back("destination=" + quote_value(g, "$u" + std::to_string(g.a_client())));
  int nargs = g.r.pct(55) ? (int)g.r.range(1, 3) : 0;
  std::vector<int> used;
  for (int i = 0; i < nargs; i++) {
    int n = g.r.pct(80) ? (int)g.r.below(3) : (int)g.r.range(3, 63);
    bool dup = false;
    for (int u : used) if (u == n) dup = true;
    if (dup) continue;
    used.push_back(n);
    int kind = (int)g.r.below(100);
    std::string v = kStrs[g.r.below((uint64_t)kNStrs)];
    if (kind < 45) parts.push_back("arg" + std::to_string(n) + "=" + quote_value(g, v));
    else if (kind < 85) parts.push_back("arg" + std::to_string(n) + "path=" + quote_value(g, v));
    else if (n == 0) { static const char *ns[] = {"com.example", "com.example.backend1", "com", "org.test"}; parts.push_back("arg0namespace=" + quote_value(g, ns[g.r.below(4)])); }
  }
  if (g.r.pct(12)) parts.push_back(std::string("eavesdrop=") + quote_value(g, g.r.pct(50) ? "true" : "false"));
  // order is free
  for (size_t i = parts.size(); i > 1; i--) std::swap(parts[i - 1], parts[g.r.below(i)]);
  std::string rule;
  for (size_t i = 0; i < parts.size(); i++) rule += (i ? "," : "") + parts[i];
  if (g.r.pct(10)) {
    // one deliberate defect
    *valid_hint = false;
    switch (g.r.below(9)) {
      case 0: rule += (rule.empty() ? "" : ",") + std::string("arg0='unterminated"); break;
      case 1: rule += (rule.empty() ? "" : ",") + std::string("bogus='x'"); break;
      case 2: rule += (rule.empty() ? "" : ",") + std::string("type='broadcast'"); break;
      case 3: {
        // an argument index out of range: just above 63, and numbers that wrap when narrowed (2^31, 2^32, 2^32+k,
        // 2^63, 2^64-1), alone or behind a valid arg key ("no rule text makes the bus access memory outside its buffers")
        static const char *big[] = {"64", "300", "2147483648", "4294967296", "4294967297", "4294967359", "9223372036854775808", "18446744073709551615", "99999999999999999999999"};
        std::string key = std::string("arg") + big[g.r.below(9)] + (g.r.pct(30) ? "path" : "");
        if (g.r.pct(60)) rule += (rule.empty() ? "" : ",") + std::string("arg") + std::to_string(g.r.below(4)) + "='a'";
        rule += (rule.empty() ? "" : ",") + key + "='x'";
        break;
      }
      case 4: rule += (rule.empty() ? "" : ",") + std::string("interface='nodots'"); break;
      case 5: rule += (rule.empty() ? "" : ",") + std::string("argx='1'"); break;
      case 6: rule = "path='/a',path_namespace='/a'"; break;
      case 7: rule += (rule.empty() ? "" : ",") + std::string("member"); break;
      default: rule += (rule.empty() ? "" : ",") + std::string("arg1namespace='a.b'"); break;
    }
  }
  return rule;
}

Plan gen_c07(uint64_t seed, bool th) {
  G g(seed, th);
  g.p.prop = "C07";
  g.p.seed = seed;
  base_shape(g, 2, th ? 6 : 5);
  if (g.r.pct(25)) g.p.cfg["lim.rules"] = std::to_string(g.r.range(1, 4));
  g.connect_all(false, false);
  std::vector<std::pair<int, std::string>> added;
  int nops = (int)g.r.range(8, th ? 70 : 32);
  for (int i = 0; i < nops; i++) {
    int c = g.a_client();
    int x = (int)g.r.below(100);
    if (x < 30) {
      bool vh;
      std::string rule = gen_rule(g, &vh);
      g.add(g.mk("addmatch", c, {g.deliver_mode()}, {rule}));
      if (vh) added.push_back({c, rule});
    } else if (x < 40) {
      if (!added.empty() && g.r.pct(75)) {
        size_t k = g.r.below(added.size());
        std::string rule = added[k].second;
        bool exact = true;
        if (g.r.pct(35)) {
          // a near miss: the same text with one key changed into its sibling (argN <-> argNpath <->
          // arg0namespace, path <-> path_namespace, sender <-> destination): equal only if nothing changed
          static const char *swaps[][2] = {{"path=", "path_namespace="}, {"path_namespace=", "path="}, {"arg0=", "arg0path="}, {"arg0path=", "arg0="},
                                           {"arg0=", "arg0namespace="}, {"arg0namespace=", "arg0="}, {"arg1=", "arg1path="}, {"arg1path=", "arg1="},
                                           {"arg2path=", "arg2="}, {"arg2=", "arg2path="}, {"interface=", "member="}, {"type='signal'", "type='error'"}};
          size_t start = g.r.below(12);
          for (size_t t = 0; t < 12 && exact; t++) {
            const char **sw = swaps[(start + t) % 12];
            size_t at = rule.find(sw[0]);
            // only a whole key: at the start or after a comma
            if (at != std::string::npos && (at == 0 || rule[at - 1] == ',')) { rule = rule.substr(0, at) + sw[1] + rule.substr(at + strlen(sw[0])); exact = false; }
          }
        }
        g.add(g.mk("rmmatch", g.r.pct(85) ? added[k].first : c, {g.deliver_mode()}, {rule}));
        if (exact && g.r.pct(70)) added.erase(added.begin() + (long)k);
        else if (!exact && g.r.pct(50)) { g.add(g.mk("addmatch", added[k].first, {-1}, {rule})); added.push_back({added[k].first, rule}); }
      } else {
        bool vh;
        g.add(g.mk("rmmatch", c, {g.deliver_mode()}, {gen_rule(g, &vh)}));
      }
    } else if (x < 85) {
      // a broadcast signal built from the same vocabulary
      // (now and then a broadcast on one of the interfaces every connection implements: an ordinary signal)
      std::vector<std::string> s = {"", kPaths[g.r.below(5)], g.r.pct(7) ? (g.r.pct(70) ? "org.freedesktop.DBus.Peer" : "org.freedesktop.DBus.Properties") : kIfaces[g.r.below(3)], kMembers[g.r.below(3)], "", ""};
      int na = (int)g.r.below(4);
      for (int k = 0; k < na; k++) {
        int tk = (int)g.r.below(100);
        std::string v = kStrs[g.r.below((uint64_t)kNStrs)];
        if (tk < 60) s.push_back("s:" + v);
        else if (tk < 80) s.push_back(std::string("o:") + (v.size() && v[0] == '/' && v.find("//") == std::string::npos && (v.size() == 1 || v.back() != '/') ? v : kPaths[g.r.below(5)]));
        else if (tk < 90) s.push_back("u:" + std::to_string(g.r.below(10)));
        else s.push_back("r:" + std::to_string(g.r.below(100000)));
      }
      int64_t be = g.r.pct(15);
      g.add(g.mk("send", c, {4, 0, g.deliver_mode(), 0, 0, 0, be, g.r.pct(20) ? (int64_t)g.r.range(1, 999) : 0}, s));
    } else if (x < 90) {
      std::string name = g.a_name();
      if (g.r.pct(70)) g.add(g.mk("reqname", c, {(int64_t)g.r.below(8), -1}, {name}));
      else g.add(g.mk("relname", c, {-1}, {name}));
    } else if (x < 94) {
      g.add(g.mk("close", c));
    } else if (x < 97) {
      // a unicast message: only eavesdropping rules may see it
      g.add(g.mk("send", c, {1, 0, -1}, {"$u" + std::to_string(g.a_client()), kPaths[g.r.below(5)], kIfaces[g.r.below(3)], kMembers[g.r.below(3)], "", "", "s:" + std::string(kStrs[g.r.below((uint64_t)kNStrs)])}));
    } else {
      int ni = g.sh.nclients++;
      g.add(g.mk("connect", ni, {0, 0, 1000 + ni, 0, 0}));
      g.add(g.mk("auth", ni, {1}));
      g.add(g.mk("hello", ni, {-1}));
    }
    g.pump();
    if (g.r.pct(10)) g.add(g.mk("check"));
  }
  return g.p;
}

// ---------------------------------------------------------------- C13: limits

Plan gen_c13(uint64_t seed, bool th) {
  G g(seed, th);
  g.p.prop = "C13";
  g.p.seed = seed;
  base_shape(g, 2, 4);
  // a random subset of limits, each small
  if (g.r.pct(45)) g.p.cfg["lim.completed"] = std::to_string(g.r.range(1, 5));
  if (g.r.pct(45)) g.p.cfg["lim.per_user"] = std::to_string(g.r.range(1, 3));
  if (g.r.pct(35)) g.p.cfg["lim.incomplete"] = std::to_string(g.r.range(1, 3));
  if (g.r.pct(45)) g.p.cfg["lim.names"] = std::to_string(g.r.range(1, 4));
  if (g.r.pct(45)) g.p.cfg["lim.rules"] = std::to_string(g.r.range(1, 4));
  if (g.r.pct(45)) g.p.cfg["lim.replies"] = std::to_string(g.r.range(1, 3));
  if (g.r.pct(35)) g.p.cfg["lim.reply_timeout"] = std::to_string(g.r.pct(50) ? g.r.range(50, 2000) : 60000);   // slots are freed by replies, by the callee's departure, and by the timeout
  if (g.r.pct(30)) g.p.cfg["lim.msgsize"] = std::to_string(g.r.range(300, 2000));
  bool full_queues = g.r.pct(15);
  if (full_queues) {
    // recipients that stall behind small socket buffers under a small max_outgoing_bytes: a call refused because
    // the callee's queue is full earns LimitsExceeded "and changes nothing" - in particular it occupies no reply slot
    g.p.cfg["lim.out_bytes"] = std::to_string(g.r.range(100, 2500));
    g.sh.rxcap_small_pct = 70;
    g.sh.lazy_drain = true;
    if (!g.p.cfg.count("lim.replies")) g.p.cfg["lim.replies"] = std::to_string(g.r.range(1, 3));
  }
  // in some plans the configuration is reloaded once with other limits (raised, lowered, removed, newly set):
  // refusals follow the limits in force, what is already held stays
  bool reload = g.r.pct(30);
  if (reload) {
    g.p.cfg["reload"] = "1";
    for (const char *k : {"names", "rules", "replies", "completed", "per_user"})
      if (g.r.pct(50)) g.p.cfg[std::string("reload.lim.") + k] = g.r.pct(15) ? std::string("-1") : std::to_string(g.r.range(1, 6));
    // limits the second file does not mention keep their first value (the same element is written again)
    for (const char *k : {"names", "rules", "replies", "completed", "per_user"})
      if (!g.p.cfg.count(std::string("reload.lim.") + k) && g.p.cfg.count(std::string("lim.") + k)) g.p.cfg[std::string("reload.lim.") + k] = g.p.cfg[std::string("lim.") + k];
  }
  bool reloaded = false;
  g.sh.uids = {0, 1000, 1001};
  if (g.r.pct(50)) g.sh.uids = {1000, 1000, 1001};
  int next = 0;
  auto connect = [&](bool hello) {
    int ni = next++;
    unsigned uid = g.sh.uids[g.r.below(g.sh.uids.size())];
    g.add(g.mk("connect", ni, {(int64_t)uid, (int64_t)uid, 1000 + ni, 0, (full_queues && g.r.pct(70)) ? (int64_t)g.r.range(64, 4096) : 0}));
    if (g.r.pct(90)) g.add(g.mk("auth", ni, {1}));
    if (hello) g.add(g.mk("hello", ni, {-1}));
    g.sh.nclients = next;
  };
  for (int i = 0; i < g.sh.nclients; i++) { connect(true); g.add(g.bus_step(3)); g.add(g.mk("drain", i)); }
  g.add(g.mk("check"));
  int nops = (int)g.r.range(10, th ? 80 : 36);
  std::vector<std::string> rules = {"type='signal'", "member='Do'", "interface='com.example.Iface'", "path='/'", "arg0='a'", "type='signal',member='Get'"};
  for (int i = 0; i < nops; i++) {
    int c = g.a_client();
    int x = (int)g.r.below(100);
    if (reload && !reloaded && (g.r.pct(8) || i == nops / 2)) { g.add(g.mk("query", c, {-1}, {"ReloadConfig", ""})); reloaded = true; }
    else if (x < 14) connect(g.r.pct(80));
    else if (x < 17 && full_queues) g.add(g.mk("stall", c, {g.r.pct(60) ? 1 : 0}));
    else if (x < 22) g.add(g.mk("hello", c, {-1}));                         // retry after a refused Hello (or a second Hello)
    else if (x < 32) g.add(g.mk("close", c));
    else if (x < 47) g.add(g.mk("reqname", c, {(int64_t)g.r.below(8), -1}, {g.a_name()}));
    else if (x < 54) g.add(g.mk("relname", c, {-1}, {g.a_name()}));
    else if (x < 66) g.add(g.mk("addmatch", c, {-1}, {rules[g.r.below(rules.size())]}));
    else if (x < 72) g.add(g.mk("rmmatch", c, {-1}, {rules[g.r.below(rules.size())]}));
    else if (x < 86) {
      // calls that stay unanswered for a while: they occupy reply slots
      static const char *mem[] = {"Do", "Get", "Frob", "Query", "Update", "Refresh", "Activate", "Configure"};   // every alignment of the header's end
      std::vector<std::string> s = {"$u" + std::to_string(g.a_client()), "/", "com.example.Iface", g.r.pct(40) ? mem[g.r.below(8)] : "Do", "", ""};
      if (g.r.pct(12)) s.push_back("s:" + std::string((size_t)g.r.range(200, 2500), 'x'));   // around the size limit
      if (g.p.cfg.count("lim.msgsize") && g.r.pct(25))
        // exactly at the boundary: the limit itself, a few bytes below, 1..9 bytes above
        g.add(g.mk("send", c, {1, g.r.pct(15) ? 1 : 0, -1, 0, 0, 0, 0, 0, 0, 0, 0, 0, (int64_t)g.r.range(0, 12) - 3}, s));
      else
      g.add(g.mk("send", c, {1, g.r.pct(15) ? 1 : 0, -1}, s));
    } else if (x < 94) g.add(g.mk("reply", c, {(int64_t)g.r.below(4), (int64_t)g.r.below(2), -1}));
    else {
      std::vector<std::string> s = {"", "/", "com.example.Iface", "Do", "", "", "s:" + std::string((size_t)g.r.range(100, 2500), 'y')};
      g.add(g.mk("send", c, {4, 0, -1}, s));
    }
    g.pump();
    if (g.r.pct(12)) g.add(g.mk("check"));
  }
  return g.p;
}

// ---------------------------------------------------------------- C10: hostile clients

std::string mutate_bytes(G &g, std::string b) {
  if (b.empty()) return b;
  int k = (int)g.r.below(9);
  size_t pos = g.r.pct(60) ? g.r.below(std::min<size_t>(b.size(), 24)) : g.r.below(b.size());
  switch (k) {
    case 0: b[pos] = (char)g.r.next(); break;                                  // one random byte
    case 1: b[pos] = (char)(b[pos] ^ (1 << g.r.below(8))); break;              // one bit
    case 2: {                                                                  // a length word at a limit value
      static const uint32_t vals[] = {0xffffffffu, 0x7fffffffu, 0x08000000u, 0x08000001u, 0x04000000u, 0x04000001u, 0, 1, 0xfffffff8u};
      uint32_t v = vals[g.r.below(9)];
      size_t at = g.r.pct(50) ? 4 : (g.r.pct(50) ? 12 : (pos & ~(size_t)3));
      if (at + 4 <= b.size()) memcpy(&b[at], &v, 4);
      break;
    }
    case 3: b.resize(g.r.below(b.size())); break;                              // truncated
    case 4: b += std::string((size_t)g.r.range(1, 40), (char)g.r.next()); break; // trailing junk
    case 5: b[0] = g.r.pct(50) ? 'B' : 'x'; break;                             // endianness byte
    case 6: b.insert(pos, std::string((size_t)g.r.range(1, 8), (char)g.r.next())); break;
    case 7: b.erase(pos, (size_t)g.r.range(1, 8)); break;
    default: for (int i = 0; i < 4; i++) b[g.r.below(b.size())] = (char)g.r.next(); break;
  }
  return b;
}

std::string valid_message_bytes(G &g, uint32_t serial) {
  wire::Msg m;
  int k = (int)g.r.below(5);
  if (k == 0) m = wire::Msg::method_call(serial, "org.freedesktop.DBus", "/org/freedesktop/DBus", "org.freedesktop.DBus", "ListNames");
  else if (k == 1) m = wire::Msg::method_call(serial, "org.freedesktop.DBus", "/org/freedesktop/DBus", "org.freedesktop.DBus", "RequestName",
                                              {wire::Value::string(g.a_name()), wire::Value::u32((uint32_t)g.r.below(8))});
  else if (k == 2) m = wire::Msg::signal(serial, "/com/example/obj", g.r.pct(25) ? "org.freedesktop.DBus.Peer" : "com.example.Iface", g.r.pct(50) ? "Do" : "Ping", {wire::Value::string("hostile"), wire::Value::array("s", {wire::Value::string("x")})});
  else if (k == 3) m = wire::Msg::method_call(serial, "org.freedesktop.DBus", "/org/freedesktop/DBus", "org.freedesktop.DBus", "AddMatch", {wire::Value::string("type='signal'")});
  else {
    simk::Rng r(g.r.next());
    m = wire::Msg::method_call(serial, ":1." + std::to_string(g.r.below(6)), "/", "com.example.Iface", "Frob", {random_value(r, 0), random_value(r, 0)});
  }
  m.big_endian = g.r.pct(20);
  if (g.r.pct(8)) m.set_field(wire::F_UNIX_FDS, wire::Value::u32(0));   // legal, and never sent by the usual libraries: "carries no descriptors", said explicitly
  return wire::marshal(m);
}

Plan gen_c10(uint64_t seed, bool th) {
  G g(seed, th);
  g.p.prop = "C10";
  g.p.seed = seed;
  base_shape(g, 3, 3);          // c0,c1: the well-behaved pair; c2: bystander subscribed to everything
  if (g.r.pct(40)) g.p.cfg["lim.incomplete"] = std::to_string(g.r.range(1, 4));
  if (g.r.pct(30)) g.p.cfg["lim.msgsize"] = std::to_string(g.r.range(400, 4000));
  if (g.r.pct(50)) g.p.cfg["lim.auth_timeout"] = std::to_string(g.r.range(50, 3000));
  bool paused_reader = g.r.pct(25);
  if (paused_reader) g.p.cfg["lim.in_bytes"] = std::to_string(g.r.range(1500, 6000));
  g.connect_all(false, true);
  g.add(g.mk("addmatch", 2, {-1}, {g.r.pct(50) ? "eavesdrop='true'" : "type='signal'"}));
  g.add(g.mk("reqname", 1, {0, -1}, {"com.example.pair"}));
  g.add(g.bus_step(3));
  g.add(g.mk("check"));
  int nh = (int)g.r.range(1, th ? 4 : 3);
  int next = 3;
  std::vector<int> hostile;
  std::vector<uint32_t> hserial;
  auto round_trip = [&]() {
    // the pair's next call must be served correctly
    g.add(g.mk("send", 0, {1, 0, -1}, {g.r.pct(50) ? "com.example.pair" : "$u1", "/pair", "com.example.Pair", "Ping", "", "", "s:rt"}));
    g.add(g.bus_step(3));
    g.add(g.mk("check"));
    g.add(g.mk("reply", 1, {0, 0, -1}));
    g.add(g.mk("check"));
  };
  int nops = (int)g.r.range(6, th ? 50 : 24);
  for (int i = 0; i < nops; i++) {
    int x = (int)g.r.below(100);
    if (hostile.empty() || (x < 12 && (int)hostile.size() < nh + 3)) {
      int ni = next++;
      g.sh.nclients = next;
      g.add(g.mk("connect", ni, {0, 0, 2000 + ni, 0, g.r.pct(20) ? (int64_t)g.r.range(16, 512) : 0}));
      hostile.push_back(ni);
      hserial.push_back(1);
      int st = (int)g.r.below(100);
      if (st < 25) { /* never authenticates: stays incomplete */ }
      else if (st < 40) g.add(g.mk("raw", ni, {-1, 0}, {std::string(1, '\0') + "AUTH EXTERNAL 30\r\n"}));        // stalls before BEGIN
      else if (st < 50) g.add(g.mk("raw", ni, {-1, 0}, {std::string((size_t)g.r.range(1, 60), (char)g.r.next())})); // garbage before auth
      else if (st < 58) g.add(g.mk("raw", ni, {-1, 0}, {std::string(1, '\0') + "AUTH " + std::string((size_t)g.r.range(100, 20000), 'A') + "\r\n"}));
      else if (st < 64) g.add(g.mk("raw", ni, {-1, 0}, {std::string(1, '\0') + "BEGIN\r\n" + valid_message_bytes(g, 1)}));
      else if (st < 76) {
        // handshake abuse: other mechanisms, wrong identities, command salad — then possibly BEGIN and a message
        static const char *lines[] = {"AUTH ANONYMOUS\r\n", "AUTH ANONYMOUS 616e6f6e\r\n", "AUTH EXTERNAL 31303030\r\n", "AUTH EXTERNAL\r\n", "DATA\r\n", "DATA 30\r\n",
                                      "AUTH DBUS_COOKIE_SHA1 726f6f74\r\n", "AUTH DBUS_COOKIE_SHA1\r\n", "CANCEL\r\n", "ERROR\r\n", "ERROR \"x\"\r\n", "NEGOTIATE_UNIX_FD\r\n",
                                      "AUTH KERBEROS_V4 00\r\n", "AUTH\r\n", "FOO bar\r\n", "AUTH EXTERNAL 30\r\n", "DATA zz\r\n", "\r\n", "AUTH EXTERNAL 30\n"};
        std::string b(1, '\0');
        int n = (int)g.r.range(1, 7);
        for (int k = 0; k < n; k++) b += lines[g.r.below(19)];
        if (g.r.pct(70)) { b += "BEGIN\r\n"; if (g.r.pct(60)) b += valid_message_bytes(g, 1); }
        g.add(g.mk("raw", ni, {g.r.pct(80) ? -1 : (int64_t)g.r.range(1, 20), 0}, {b}));
      }
      else { g.add(g.mk("auth", ni, {1})); if (g.r.pct(75)) { g.add(g.mk("hello", ni, {-1})); hserial.back() = 2; } }
      g.pump();
      continue;
    }
    size_t hi = g.r.below(hostile.size());
    int h = hostile[hi];
    if (x < 40) {
      std::string b = valid_message_bytes(g, hserial[hi]++);
      if (g.r.pct(25)) {
        // a message that is well-formed but for one structural defect (out-of-range boolean alone or inside an
        // array, bad name / path / signature value, duplicate or wrong-typed field, ...): the validator's job
        wiregen::Rng wr(g.r.next());
        wire::ParseResult pr = wire::parse(reinterpret_cast<const uint8_t *>(b.data()), b.size(), wire::Limits());
        if (pr.status == wire::P_OK) b = wiregen::corrupt_structured(wr, pr.msg);
      } else
      if (g.r.pct(70)) b = mutate_bytes(g, b);
      g.add(g.mk("raw", h, {g.r.pct(80) ? -1 : (int64_t)g.r.range(1, 30), 0}, {b}));
    } else if (x < 50) {
      // flood of valid messages in one write
      std::string b;
      int n = (int)g.r.range(5, th ? 200 : 60);
      for (int k = 0; k < n; k++) b += valid_message_bytes(g, hserial[hi]++);
      g.add(g.mk("raw", h, {-1, 0}, {b}));
    } else if (x < 58) {
      // half a message, then silence
      std::string b = valid_message_bytes(g, hserial[hi]++);
      g.add(g.mk("raw", h, {-1, 0}, {b.substr(0, g.r.below(b.size()))}));
    } else if (x < 66) {
      g.add(g.mk("close", h));
    } else if (x < 72) {
      g.add(g.mk("raw", h, {-1, 0}, {std::string((size_t)g.r.range(1, 3000), (char)g.r.next())}));
    } else if (x < 80) {
      g.add(g.mk("adv", -1, {(int64_t)g.r.range(10, 4000)}));
    } else if (x < 86 && paused_reader) {
      // a client floods a bystander that does not read until the bus stops reading from the flooder
      // (max_incoming_bytes), then closes abruptly; something is then addressed to it.  The bus must notice the
      // hang-up although it is not reading from that connection, must not spin, and must go on serving.
      int ni = next++;
      g.sh.nclients = next;
      g.add(g.mk("connect", ni, {0, 0, 2000 + ni, 0, 0}));
      g.add(g.mk("auth", ni, {1}));
      g.add(g.mk("hello", ni, {-1}));
      g.add(g.bus_step(3));
      g.add(g.mk("stall", 2, {1}));
      std::string b;
      int n = (int)g.r.range(60, 140);
      for (int k = 0; k < n; k++) { wire::Msg m = wire::Msg::signal((uint32_t)(k + 2), "/com/example/obj", "com.example.Iface", "Do", {wire::Value::string(std::string((size_t)g.r.range(20, 120), 'f'))}); b += wire::marshal(m); }
      g.add(g.mk("raw", ni, {-1, 0}, {b}));
      hostile.push_back(ni);
      hserial.push_back((uint32_t)(n + 2));
      g.add(g.bus_step(4));
      if (g.r.pct(80)) {
        g.add(g.mk("close", ni));
        g.add(g.mk("send", 0, {1, 0, -1}, {"$u" + std::to_string(ni), "/x", "com.example.Iface", "Poke", "", ""}));
        g.add(g.bus_step(3));
        g.add(g.mk("check"));
      }
      round_trip();
      if (g.r.pct(70)) g.add(g.mk("stall", 2, {0}));
    } else {
      round_trip();
    }
    g.pump();
    if (g.r.pct(15)) g.add(g.mk("check"));
  }
  round_trip();
  return g.p;
}

// ---------------------------------------------------------------- policies (C09, C06, C18)

pol::Rule prule(bool allow, pol::Rule::Kind k) { pol::Rule r; r.allow = allow; r.kind = k; return r; }

pol::Policy requested_replies_only_policy() {
  // the system-bus shape: everything needed for ordinary traffic, replies only when requested, no eavesdropping
  pol::Policy p;
  pol::Block b;
  b.ctx = pol::Block::DEFAULT;
  { pol::Rule r = prule(true, pol::Rule::USER); r.who = "*"; b.rules.push_back(r); }
  { pol::Rule r = prule(true, pol::Rule::OWN); r.own = "*"; b.rules.push_back(r); }
  for (const char *t : {"method_call", "signal", "method_return", "error"}) { pol::Rule r = prule(true, pol::Rule::SEND); r.type = pol::Opt(t); b.rules.push_back(r); }
  for (const char *t : {"method_call", "signal", "method_return", "error"}) { pol::Rule r = prule(true, pol::Rule::RECEIVE); r.type = pol::Opt(t); b.rules.push_back(r); }
  p.blocks.push_back(b);
  return p;
}

Plan gen_c09(uint64_t seed, bool th) {
  G g(seed, th);
  g.p.prop = "C09";
  g.p.seed = seed;
  base_shape(g, 2, th ? 6 : 4);
  g.p.cfg["policy.spec"] = pol::encode(requested_replies_only_policy());
  if (g.r.pct(40)) g.p.cfg["lim.replies"] = std::to_string(g.r.range(1, 3));
  bool timed = g.r.pct(50);
  if (timed) g.p.cfg["lim.reply_timeout"] = std::to_string(g.r.range(20, 3000));
  bool full_queues = g.r.pct(20);
  if (full_queues) {
    // a small max_outgoing_bytes with callees that stall behind small socket buffers: a call refused because the
    // callee's queue is full is answered by the bus (LimitsExceeded) and must leave no reply slot behind
    g.p.cfg["lim.out_bytes"] = std::to_string(g.r.range(100, 2500));
    g.sh.rxcap_small_pct = 70;
    g.sh.lazy_drain = true;
  }
  g.connect_all(false, g.r.pct(30));
  int nops = (int)g.r.range(8, th ? 70 : 30);
  std::vector<int64_t> used_serials;
  for (int i = 0; i < nops; i++) {
    int c = g.a_client();
    int x = (int)g.r.below(100);
    if (x < 38) {
      int64_t flags = g.r.pct(20) ? 1 : 0;          // NO_REPLY_EXPECTED opens no slot
      int64_t serial = 0;
      if (g.r.pct(12)) serial = g.r.range(2, 12);    // may collide with an outstanding call's serial
      std::string dest = g.r.pct(75) ? "$u" + std::to_string(g.a_client()) : (g.r.pct(50) ? g.a_name() : "com.example.missing");
      g.add(g.mk("send", c, {1, flags, g.deliver_mode(), 0, 0, 0, 0, 0, serial}, {dest, "/obj", "com.example.Iface", "Call", "", ""}));
    } else if (x < 72) {
      int mode;
      int mk = (int)g.r.below(100);
      if (mk < 45) mode = (int)g.r.below(2);         // genuine return / error
      else if (mk < 62) mode = 2;                     // duplicate
      else if (mk < 74) mode = 3;                     // wrong serial
      else if (mk < 86) mode = 4;                     // to a third party
      else mode = 5;                                  // from a third party
      g.add(g.mk("reply", c, {(int64_t)g.r.below(5), mode, g.deliver_mode()}));
    } else if (x < 78) {
      // an unsolicited reply-type message with an arbitrary serial
      g.add(g.mk("send", c, {g.r.pct(50) ? 2 : 3, 0, -1, (int64_t)g.r.range(1, 15)}, {"$u" + std::to_string(g.a_client()), "", "", "", g.r.pct(50) ? "" : "com.example.Error.X", ""}));
    } else if (x < 85) {
      g.add(g.mk("close", c));
    } else if (x < 93 && timed) {
      g.add(g.mk("adv", -1, {(int64_t)g.r.range(5, 2500), g.r.pct(35) ? (int64_t)g.r.range(1, 6) : 0, (int64_t)g.r.range(0, 2) - 1}));
    } else if (x < 93 && full_queues) {
      g.add(g.mk("stall", c, {g.r.pct(60) ? 1 : 0}));
    } else if (x < 96) {
      g.add(g.mk("reqname", c, {(int64_t)g.r.below(8), -1}, {g.a_name()}));
    } else {
      int ni = g.sh.nclients++;
      g.add(g.mk("connect", ni, {0, 0, 1000 + ni, 0, 0}));
      g.add(g.mk("auth", ni, {1}));
      g.add(g.mk("hello", ni, {-1}));
    }
    g.pump();
    if (g.r.pct(12)) g.add(g.mk("check"));
  }
  return g.p;
}

// ---------------------------------------------------------------- C06: policy decisions

static const char *kPolNames[] = {"com.example.a", "com.example.a.b", "com.example.ab", "org.test.Svc"};

pol::Rule random_msg_rule(G &g, bool send) {
  pol::Rule r = prule(g.r.pct(50), send ? pol::Rule::SEND : pol::Rule::RECEIVE);
  static const char *types[] = {"method_call", "method_return", "signal", "error"};
  if (g.r.pct(35)) r.type = pol::Opt(types[g.r.below(4)]);
  if (g.r.pct(25)) r.interface = pol::Opt(kIfaces[g.r.below(3)]);
  if (g.r.pct(25)) r.member = pol::Opt(kMembers[g.r.below(3)]);
  if (g.r.pct(20)) r.path = pol::Opt(kPaths[g.r.below(5)]);
  if (g.r.pct(8)) r.error = pol::Opt("com.example.Error.Oops");
  int pk = (int)g.r.below(100);
  if (pk < 30) r.peer = pol::Opt(g.r.pct(80) ? kPolNames[g.r.below(4)] : "org.freedesktop.DBus");
  else if (pk < 40 && send) r.peer_prefix = pol::Opt(g.r.pct(50) ? "com.example.a" : "com.example");
  else if (pk < 48) r.star_peer = true;
  if (send && g.r.pct(12) && !r.peer.set && !r.peer_prefix.set) r.broadcast = (int)g.r.below(2);
  if (g.r.pct(15)) r.requested_reply = (int)g.r.below(2);
  if (g.r.pct(15)) r.eavesdrop = (int)g.r.below(2);
  if (g.r.pct(6)) r.min_fds = (long)g.r.below(2);
  if (g.r.pct(6)) r.max_fds = (long)g.r.below(2);
  // a rule needs at least one attribute of its family
  if (!r.type.set && !r.interface.set && !r.member.set && !r.path.set && !r.error.set && !r.peer.set && !r.peer_prefix.set && !r.star_peer && r.broadcast < 0 &&
      r.requested_reply < 0 && r.min_fds < 0 && r.max_fds < 0) {
    if (send || r.eavesdrop < 0) r.star_peer = true;
  }
  // combinations the manual / parser do not admit (not well-formed rule lists): error with interface or member
  if (r.error.set) { r.interface = pol::Opt(); r.member = pol::Opt(); }
  // the configuration parser refuses a member without an interface or a path (not a well-formed rule)
  if (r.member.set && !r.interface.set && !r.path.set) r.interface = pol::Opt(kIfaces[g.r.below(3)]);
  return r;
}

pol::Rule random_own_rule(G &g) {
  pol::Rule r = prule(g.r.pct(55), pol::Rule::OWN);
  int k = (int)g.r.below(100);
  if (k < 20) r.own = "*";
  else if (k < 60) r.own = kPolNames[g.r.below(4)];
  else { r.own = g.r.pct(50) ? "com.example.a" : "com.example"; r.own_is_prefix = true; }
  return r;
}

void random_rules(G &g, pol::Block &b, int n) {
  for (int i = 0; i < n; i++) {
    int k = (int)g.r.below(100);
    if (k < 45) b.rules.push_back(random_msg_rule(g, true));
    else if (k < 80) b.rules.push_back(random_msg_rule(g, false));
    else b.rules.push_back(random_own_rule(g));
  }
}

Plan gen_c06(uint64_t seed, bool th) {
  G g(seed, th);
  g.p.prop = "C06";
  g.p.seed = seed;
  base_shape(g, 3, th ? 6 : 5);
  g.sh.names.clear();
  for (int i = 0; i < 3; i++) g.sh.names.push_back(kPolNames[g.r.below(4)]);
  auto make_policy = [&]() {
  pol::Policy p;
  {
    pol::Block b;
    b.ctx = pol::Block::DEFAULT;
    if (g.r.pct(75)) { pol::Rule r = prule(true, pol::Rule::USER); r.who = "*"; b.rules.push_back(r); }
    else {
      // connect rules: who may connect at all (default: only the bus's own uid)
      int n = (int)g.r.range(0, 3);
      for (int i = 0; i < n; i++) {
        pol::Rule r = prule(g.r.pct(60), g.r.pct(70) ? pol::Rule::USER : pol::Rule::GROUP);
        static const char *us[] = {"*", "user1000", "1001", "root"};
        static const char *gs[] = {"*", "group1000", "1001"};
        r.who = r.kind == pol::Rule::USER ? us[g.r.below(4)] : gs[g.r.below(3)];
        b.rules.push_back(r);
      }
    }
    // a permissive base in most runs, so that the random rules are what decides
    int base = (int)g.r.below(100);
    if (base < 25) {
      // sending is allowed only towards the owners of one or two names (exact or prefix), receiving — also
      // eavesdropping — is open: per-recipient send decisions and ownership-based matching decide everything
      { pol::Rule r = prule(true, pol::Rule::SEND); r.peer = pol::Opt("org.freedesktop.DBus"); b.rules.push_back(r); }
      { pol::Rule r = prule(true, pol::Rule::RECEIVE); r.star_peer = true; r.eavesdrop = 1; r.requested_reply = 0; b.rules.push_back(r); }
      { pol::Rule r = prule(true, pol::Rule::OWN); r.own = "*"; b.rules.push_back(r); }
      int n = (int)g.r.range(1, 2);
      for (int i = 0; i < n; i++) {
        pol::Rule r = prule(true, pol::Rule::SEND);
        if (g.r.pct(70)) r.peer = pol::Opt(g.sh.names[g.r.below(g.sh.names.size())]); else r.peer_prefix = pol::Opt("com.example.a");
        if (g.r.pct(30)) r.eavesdrop = 1;
        b.rules.push_back(r);
      }
      { pol::Rule r = prule(true, pol::Rule::SEND); r.type = pol::Opt("method_return"); b.rules.push_back(r); }
      { pol::Rule r = prule(true, pol::Rule::SEND); r.type = pol::Opt("error"); b.rules.push_back(r); }
    } else if (base < 85) {
      { pol::Rule r = prule(true, pol::Rule::SEND); r.star_peer = true; if (g.r.pct(50)) r.requested_reply = 0; b.rules.push_back(r); }
      { pol::Rule r = prule(true, pol::Rule::RECEIVE); r.star_peer = true; if (g.r.pct(50)) r.requested_reply = 0; if (g.r.pct(40)) r.eavesdrop = 1; b.rules.push_back(r); }
      { pol::Rule r = prule(true, pol::Rule::OWN); r.own = "*"; b.rules.push_back(r); }
    } else {
      { pol::Rule r = prule(true, pol::Rule::SEND); r.peer = pol::Opt("org.freedesktop.DBus"); b.rules.push_back(r); }
      { pol::Rule r = prule(true, pol::Rule::RECEIVE); r.peer = pol::Opt("org.freedesktop.DBus"); b.rules.push_back(r); }
    }
    random_rules(g, b, (int)g.r.range(0, 6));
    p.blocks.push_back(b);
  }
  g.sh.uids = {0, 1000, 1001};
  if (g.r.pct(60)) { pol::Block b; b.ctx = pol::Block::USER; b.who = g.r.pct(50) ? "user1000" : "1001"; random_rules(g, b, (int)g.r.range(1, 4)); p.blocks.push_back(b); }
  if (g.r.pct(40)) { pol::Block b; b.ctx = pol::Block::GROUP; b.who = g.r.pct(50) ? "group1000" : "1001"; random_rules(g, b, (int)g.r.range(1, 3)); p.blocks.push_back(b); }
  if (g.r.pct(25)) { pol::Block b; b.ctx = g.r.pct(50) ? pol::Block::AT_CONSOLE_TRUE : pol::Block::AT_CONSOLE_FALSE; random_rules(g, b, (int)g.r.range(1, 3)); p.blocks.push_back(b); if (g.r.pct(50)) g.p.cfg["console.1000"] = "1"; }
  if (g.r.pct(50)) { pol::Block b; b.ctx = pol::Block::MANDATORY; random_rules(g, b, (int)g.r.range(1, 3)); p.blocks.push_back(b); }
  // a trailing attribute-less catch-all after selective rules: the shape the daemon's rule pruning looks for
  if (g.r.pct(25)) {
    pol::Rule r = prule(g.r.pct(50), g.r.pct(50) ? pol::Rule::SEND : pol::Rule::RECEIVE);
    int k = (int)g.r.below(5);
    if (k == 0) r.star_peer = true;
    else if (k == 1) r.requested_reply = (int)g.r.below(2);
    else if (k == 2) r.eavesdrop = (int)g.r.below(2);
    else if (k == 3 && r.kind == pol::Rule::SEND) r.broadcast = (int)g.r.below(2);
    else { r.min_fds = 0; }
    p.blocks[g.r.below(p.blocks.size())].rules.push_back(r);
  }
  return p;
  };
  g.p.cfg["policy.spec"] = pol::encode(make_policy());
  // in some plans the configuration is reloaded once with another policy: every decision after the reload follows
  // the new rules, for the connections that exist (their policies are re-created) and for new ones
  bool reload = g.r.pct(25), reloaded = false;
  if (reload) { g.p.cfg["reload"] = "1"; g.p.cfg["reload.policy.spec"] = pol::encode(make_policy()); }
  g.connect_all(false, g.r.pct(50));
  if (g.r.pct(40)) g.add(g.mk("addmatch", g.a_client(), {-1}, {"eavesdrop='true'"}));
  int nops = (int)g.r.range(8, th ? 70 : 30);
  for (int i = 0; i < nops; i++) {
    int c = g.a_client();
    int x = (int)g.r.below(100);
    if (reload && !reloaded && (g.r.pct(10) || i == nops / 2)) {
      g.add(g.mk("query", c, {-1}, {"ReloadConfig", ""}));
      reloaded = true;
    } else if (x < 18) {
      g.add(g.mk("reqname", c, {(int64_t)g.r.below(8), -1}, {g.r.pct(80) ? g.a_name() : "com.example.a.b.c"}));
    } else if (x < 22) {
      g.add(g.mk("relname", c, {-1}, {g.a_name()}));
    } else if (x < 62) {
      std::string dest;
      int dk = (int)g.r.below(100);
      if (dk < 35) dest = "$u" + std::to_string(g.a_client());
      else if (dk < 70) dest = g.a_name();
      else if (dk < 85) dest = "";
      else dest = "$bus";
      int64_t type = dest.empty() ? 4 : (g.r.pct(55) ? 1 : (int64_t)g.r.range(1, 4));
      std::string iface = (type == 4 || g.r.pct(70)) ? kIfaces[g.r.below(3)] : "";
      std::string member = (type == 1 || type == 4) ? kMembers[g.r.below(3)] : "";
      std::string path = (type == 1 || type == 4) ? kPaths[g.r.below(5)] : "";
      std::string err = type == 3 ? (g.r.pct(50) ? "com.example.Error.Oops" : "com.example.Error.Other") : "";
      int64_t rs = (type == 2 || type == 3) ? (int64_t)g.r.range(1, 20) : 0;
      if (dest == "$bus") { type = 1; iface = "org.freedesktop.DBus"; member = g.r.pct(50) ? "ListNames" : "GetId"; path = "/org/freedesktop/DBus"; rs = 0; err = ""; }
      g.add(g.mk("send", c, {type, g.r.pct(15) ? (int64_t)g.r.below(4) : 0, -1, rs}, {dest, path, iface, member, err, ""}));
    } else if (x < 78) {
      g.add(g.mk("reply", c, {(int64_t)g.r.below(4), g.r.pct(70) ? (int64_t)g.r.below(2) : (int64_t)g.r.range(2, 5), -1}));
    } else if (x < 84) {
      static const char *rules[] = {"type='signal'", "eavesdrop='true'", "eavesdrop='true',type='method_call'", "interface='com.example.Iface'"};
      g.add(g.mk("addmatch", c, {-1}, {rules[g.r.below(4)]}));
    } else if (x < 90) {
      static const char *qs[] = {"GetNameOwner", "ListQueuedOwners", "ListNames"};
      g.add(g.mk("query", c, {-1}, {qs[g.r.below(3)], g.a_name()}));
    } else if (x < 94) {
      g.add(g.mk("close", c));
    } else {
      int ni = g.sh.nclients++;
      unsigned uid = g.sh.uids[g.r.below(g.sh.uids.size())];
      g.add(g.mk("connect", ni, {(int64_t)uid, (int64_t)uid, 1000 + ni, 0, 0}));
      g.add(g.mk("auth", ni, {1}));
      g.add(g.mk("hello", ni, {-1}));
    }
    g.pump();
    if (g.r.pct(12)) g.add(g.mk("check"));
  }
  return g.p;
}

// ---------------------------------------------------------------- C18: monitors

Plan gen_c18(uint64_t seed, bool th) {
  G g(seed, th);
  g.p.prop = "C18";
  g.p.seed = seed;
  base_shape(g, 3, th ? 7 : 5);
  int pk = (int)g.r.below(100);
  if (pk < 25) g.p.cfg["policy.spec"] = pol::encode(requested_replies_only_policy());
  else if (pk < 50) {
    // a policy that refuses some bus-originated and some client messages: monitors must still see them
    pol::Policy p;
    pol::Block b;
    b.ctx = pol::Block::DEFAULT;
    { pol::Rule r = prule(true, pol::Rule::USER); r.who = "*"; b.rules.push_back(r); }
    { pol::Rule r = prule(true, pol::Rule::SEND); r.star_peer = true; r.requested_reply = 0; b.rules.push_back(r); }
    { pol::Rule r = prule(true, pol::Rule::RECEIVE); r.star_peer = true; r.requested_reply = 0; r.eavesdrop = 1; b.rules.push_back(r); }
    { pol::Rule r = prule(true, pol::Rule::OWN); r.own = "*"; b.rules.push_back(r); }
    random_rules(g, b, (int)g.r.range(1, 4));
    if (g.r.pct(50)) { pol::Rule r = prule(false, pol::Rule::RECEIVE); r.type = pol::Opt(g.r.pct(50) ? "signal" : "error"); if (g.r.pct(50)) r.peer = pol::Opt("org.freedesktop.DBus"); b.rules.push_back(r); }
    p.blocks.push_back(b);
    g.p.cfg["policy.spec"] = pol::encode(p);
  }
  g.sh.uids = {0, 0, 0, 1000};
  g.connect_all(false, g.r.pct(50));
  int nmon = 0;
  int nops = (int)g.r.range(8, th ? 70 : 30);
  static const char *mrules[] = {"type='signal'", "type='method_call'", "type='error'", "sender='org.freedesktop.DBus'", "interface='com.example.Iface'",
                                 "member='NameOwnerChanged'", "path_namespace='/com/example'", "destination='$u0'", "sender='$u1'", "arg0='a'", "type='method_return'",
                                 "destination='com.example.nobody'", "destination='org.freedesktop.DBus'", "destination='com.example.a'", "destination='org.test.Svc'"};
  for (int i = 0; i < nops; i++) {
    int c = g.a_client();
    int x = (int)g.r.below(100);
    if (x < 10 && nmon < 3) {
      std::vector<std::string> rules;
      if (g.r.pct(55)) { int n = (int)g.r.range(1, 3); for (int k = 0; k < n; k++) rules.push_back(mrules[g.r.below(15)]); }
      if (g.r.pct(6)) rules.push_back("type='bogus'");
      g.add(g.mk("becomemonitor", c, {g.r.pct(95) ? 0 : 1, -1}, rules));
      nmon++;
    } else if (x < 13 && g.sh.nclients >= 3) {
      // a monitor that selects what concerns ONE peer by unique name; that peer (holding rules of its own) then
      // leaves, and the others go on addressing its name: the monitor's filter is untouched by the departure and
      // it is still shown what is sent to that name (and refused) and the driver's own messages about it
      int m = c, v = (c + 1) % g.sh.nclients, o = (c + 2) % g.sh.nclients;
      g.add(g.mk("addmatch", v, {-1}, {g.r.pct(50) ? "type='signal'" : "interface='com.example.Iface'"}));
      g.add(g.bus_step(3));
      g.add(g.mk("becomemonitor", m, {0, -1}, {g.r.pct(60) ? "destination='$u" + std::to_string(v) + "'" : "sender='$u" + std::to_string(v) + "'"}));
      nmon++;
      g.add(g.bus_step(3));
      g.add(g.mk("check"));
      g.add(g.mk("close", v));
      g.add(g.bus_step(3));
      g.add(g.mk("send", o, {1, 0, -1}, {"$u" + std::to_string(v), "/obj", "com.example.Iface", "Do", "", ""}));
      g.add(g.bus_step(3));
      g.add(g.mk("check"));
    } else if (x < 30) {
      std::string name = g.a_name();
      if (g.r.pct(70)) g.add(g.mk("reqname", c, {(int64_t)g.r.below(8), -1}, {name}));
      else g.add(g.mk("relname", c, {-1}, {name}));
    } else if (x < 62) {
      std::string dest;
      int dk = (int)g.r.below(100);
      if (dk < 35) dest = "$u" + std::to_string(g.a_client());
      else if (dk < 60) dest = g.a_name();
      else if (dk < 70) dest = "com.example.missing";
      else if (dk < 90) dest = "";
      else dest = "$bus";
      int64_t type = dest.empty() ? (g.r.pct(85) ? 4 : 1) : (g.r.pct(55) ? 1 : (int64_t)g.r.range(1, 4));
      std::string iface = (type == 4 || g.r.pct(70)) ? kIfaces[g.r.below(3)] : "";
      std::string member = (type == 1 || type == 4) ? kMembers[g.r.below(3)] : "";
      std::string path = (type == 1 || type == 4) ? kPaths[g.r.below(5)] : "";
      std::string err = type == 3 ? "com.example.Error.Oops" : "";
      int64_t rs = (type == 2 || type == 3) ? (int64_t)g.r.range(1, 20) : 0;
      if (dest == "$bus") { type = 1; iface = "org.freedesktop.DBus"; member = g.r.pct(50) ? "ListNames" : "GetNameOwner"; path = "/org/freedesktop/DBus"; rs = 0; err = ""; }
      std::vector<std::string> s = {dest, path, iface, member, err, g.r.pct(10) ? "org.freedesktop.DBus" : ""};
      if (g.r.pct(40)) s.push_back("s:" + std::string(kStrs[g.r.below((uint64_t)kNStrs)]));
      g.add(g.mk("send", c, {type, g.r.pct(15) ? (int64_t)g.r.below(4) : 0, -1, rs, g.r.pct(10) ? (int64_t)g.r.range(11, 5000) : 0}, s));
    } else if (x < 74) {
      g.add(g.mk("reply", c, {(int64_t)g.r.below(4), g.r.pct(70) ? (int64_t)g.r.below(2) : (int64_t)g.r.range(2, 5), -1}));
    } else if (x < 82) {
      static const char *rules[] = {"type='signal'", "eavesdrop='true'", "interface='com.example.Iface'", "sender='org.freedesktop.DBus'"};
      g.add(g.mk(g.r.pct(80) ? "addmatch" : "rmmatch", c, {-1}, {rules[g.r.below(4)]}));
    } else if (x < 88) {
      g.add(g.mk("close", c));
    } else if (x < 92) {
      static const char *qs[] = {"GetNameOwner", "ListQueuedOwners", "ListNames", "NameHasOwner"};
      g.add(g.mk("query", c, {-1}, {qs[g.r.below(4)], g.r.pct(60) ? g.a_name() : "$u" + std::to_string(g.a_client())}));
    } else {
      int ni = g.sh.nclients++;
      unsigned uid = g.sh.uids[g.r.below(g.sh.uids.size())];
      g.add(g.mk("connect", ni, {(int64_t)uid, (int64_t)uid, 1000 + ni, 0, 0}));
      g.add(g.mk("auth", ni, {1}));
      if (g.r.pct(85)) g.add(g.mk("hello", ni, {-1}));
      else g.add(g.mk("send", ni, {1, 0, -1}, {"$u0", "/", "com.example.Iface", "Early", "", ""}));
    }
    g.pump();
    if (g.r.pct(12)) g.add(g.mk("check"));
  }
  return g.p;
}

// ---------------------------------------------------------------- C15: descriptors arrive intact and are never leaked

Plan gen_c15(uint64_t seed, bool th) {
  G g(seed, th);
  g.p.prop = "C15";
  g.p.seed = seed;
  base_shape(g, 2, th ? 6 : 5);
  long max_msg = g.r.pct(60) ? (long)g.r.range(1, 4) : 16;
  if (max_msg != 16) g.p.cfg["lim.msg_fds"] = std::to_string(max_msg);
  g.p.cfg["lim.pending_fd_timeout"] = std::to_string(g.r.pct(50) ? 300 : 2000);
  if (g.r.pct(30)) g.p.cfg["lim.in_fds"] = std::to_string(g.r.range(2, 8));
  if (g.r.pct(20)) { g.p.cfg["lim.out_fds"] = std::to_string(g.r.range(0, 3)); g.sh.rxcap_small_pct = 60; g.sh.lazy_drain = true; }   // descriptors queued for a slow recipient are limited too
  // a policy that refuses some of the traffic: the refused messages' descriptors must be closed too
  bool with_policy = g.r.pct(45);
  if (with_policy) {
    pol::Policy p;
    pol::Block b;
    b.ctx = pol::Block::DEFAULT;
    { pol::Rule r = prule(true, pol::Rule::USER); r.who = "*"; b.rules.push_back(r); }
    { pol::Rule r = prule(true, pol::Rule::OWN); r.own = "*"; b.rules.push_back(r); }
    { pol::Rule r = prule(true, pol::Rule::SEND); r.star_peer = true; b.rules.push_back(r); }
    { pol::Rule r = prule(true, pol::Rule::RECEIVE); r.star_peer = true; b.rules.push_back(r); }
    int k = (int)g.r.below(6);
    if (k == 4) { pol::Rule r = prule(false, pol::Rule::SEND); r.min_fds = 1; r.max_fds = (long)g.r.range(1, 2); b.rules.push_back(r); }        // a window of descriptor counts: both bounds count
    else if (k == 5) { pol::Rule r = prule(false, pol::Rule::RECEIVE); r.min_fds = (long)g.r.range(1, 2); r.max_fds = 2; b.rules.push_back(r); }
    else
    if (k == 0) { pol::Rule r = prule(false, pol::Rule::SEND); r.interface = pol::Opt("com.example.Denied"); b.rules.push_back(r); }
    else if (k == 1) { pol::Rule r = prule(false, pol::Rule::SEND); r.min_fds = 2; b.rules.push_back(r); }
    else if (k == 2) { pol::Rule r = prule(false, pol::Rule::RECEIVE); r.interface = pol::Opt("com.example.Denied"); b.rules.push_back(r); }
    else { pol::Rule r = prule(false, pol::Rule::SEND); r.max_fds = 0; r.type = pol::Opt("signal"); b.rules.push_back(r); }
    p.blocks.push_back(b);
    g.p.cfg["policy.spec"] = pol::encode(p);
  }
  for (int i = 0; i < g.sh.nclients; i++) {
    int64_t rxcap = g.r.pct((unsigned)g.sh.rxcap_small_pct) ? g.r.range(64, 4096) : 0;
    g.add(g.mk("connect", i, {0, 0, 1000 + i, g.r.pct(75) ? 1 : 0, rxcap}));
    g.add(g.mk("auth", i, {1}));
    g.add(g.mk("hello", i, {-1}));
    g.add(g.bus_step(3));
    g.add(g.mk("drain", i));
  }
  for (int i = 0; i < g.sh.nclients; i++) {
    if (g.r.pct(50)) g.add(g.mk("reqname", i, {(int64_t)g.r.below(8), -1}, {g.a_name()}));
    if (g.r.pct(55)) g.add(g.mk("addmatch", i, {-1}, {g.r.pct(70) ? "type='signal',interface='com.example.Iface'" : "type='signal'"}));
    if (g.r.pct(10)) g.add(g.mk("addmatch", i, {-1}, {"eavesdrop='true'"}));
  }
  g.add(g.bus_step(3));
  g.add(g.mk("check"));
  if (g.r.pct(15)) {
    // somebody watches as a monitor - having negotiated descriptor passing or not: it gets the descriptors with
    // its copy, or no copy at all
    int ni = g.sh.nclients;
    g.add(g.mk("connect", ni, {0, 0, 1000 + ni, g.r.pct(50) ? 1 : 0, 0}));
    g.add(g.mk("auth", ni, {1}));
    g.add(g.mk("hello", ni, {-1}));
    g.add(g.bus_step(3));
    g.add(g.mk("drain", ni));
    g.add(g.mk("becomemonitor", ni, {0, -1}, {}));
    g.add(g.bus_step(3));
    g.add(g.mk("check"));
  }
  int nops = (int)g.r.range(5, th ? 50 : 22);
  for (int op = 0; op < nops; op++) {
    int x = (int)g.r.below(100);
    int from = g.a_client();
    if (x < 62) {
      // a message with descriptors
      long nf = g.r.pct(10) ? 0 : (long)g.r.range(1, g.r.pct(15) ? max_msg + 2 : std::min<long>(max_msg, 4));
      long delta = g.r.pct(82) ? 0 : (g.r.pct(50) ? -(long)g.r.range(1, 2) : (long)g.r.range(1, 2));
      long at = g.r.pct(80) ? 0 : (long)g.r.range(1, 60);
      int kind = (int)g.r.below(100);
      std::string dest, iface = "com.example.Iface";
      int type = wire::T_CALL;
      if (kind < 35) dest = "$u" + std::to_string(g.a_client());
      else if (kind < 55) dest = g.a_name();
      else if (kind < 62) dest = "com.example.nobody";
      else if (kind < 70) dest = "org.freedesktop.DBus";
      else { type = wire::T_SIGNAL; dest = g.r.pct(20) ? "$u" + std::to_string(g.a_client()) : ""; }
      if (g.r.pct(20)) iface = "com.example.Denied";
      std::string member = dest == "org.freedesktop.DBus" ? "GetId" : "PassFds";
      if (dest == "org.freedesktop.DBus") iface = "org.freedesktop.DBus";
      g.add(g.mk("send", from, {type, g.r.pct(30) ? 1 : 0, g.deliver_mode(), 0, 0, 0, g.r.pct(15) ? 1 : 0, 0, 0, nf, delta, at},
                 {dest, "/obj", iface, member, "", ""}));
      if (g.r.pct(12)) g.add(g.mk("close", from));                     // sender goes away right behind its message
      else if (g.r.pct(10)) g.add(g.mk("close", g.a_client()));        // or somebody else (perhaps the recipient)
    } else if (x < 72) {
      g.add(g.mk("send", from, {wire::T_CALL, 0, -1}, {"$u" + std::to_string(g.a_client()), "/obj", "com.example.Iface", "Plain", "", ""}));
    } else if (x < 80) {
      g.add(g.mk("reply", g.a_client(), {(int64_t)g.r.below(4), g.r.pct(80) ? 0 : 1, -1}));
    } else if (x < 84) {
      g.add(g.mk("adv", -1, {g.r.pct(50) ? (int64_t)g.r.range(1, 200) : (int64_t)g.r.range(200, 3000)}));
    } else if (x < 88) {
      g.add(g.mk("stall", g.a_client(), {g.r.pct(50) ? 1 : 0}));
    } else if (x < 92) {
      // surplus descriptors, and before their time is up more surplus from the same connection: the deadline is that
      // of the first ("held ... within its pending-descriptor timeout"), so the clock is moved past it in two steps
      long tmo = atol(g.p.cfg["lim.pending_fd_timeout"].c_str());
      std::string dest = "$u" + std::to_string(g.a_client());
      g.add(g.mk("send", from, {wire::T_CALL, 1, -1, 0, 0, 0, 0, 0, 0, 2, -1, 0}, {dest, "/obj", "com.example.Iface", "PassFds", "", ""}));
      g.add(g.bus_step(3));
      g.add(g.mk("adv", -1, {(int64_t)(tmo * (long)g.r.range(3, 8) / 10)}));
      g.add(g.mk("send", from, {wire::T_CALL, 1, -1, 0, 0, 0, 0, 0, 0, 1, 0, 0}, {dest, "/obj", "com.example.Iface", "PassFds", "", ""}));
      g.add(g.bus_step(3));
      if (g.r.pct(40)) {
        // ... and yet more, as many as a message may carry: together with what is pending it no longer fits
        g.add(g.mk("send", from, {wire::T_CALL, 1, -1, 0, 0, 0, 0, 0, 0, 16, 0, 0}, {dest, "/obj", "com.example.Iface", "PassFds", "", ""}));
        g.add(g.bus_step(3));
        g.add(g.mk("check"));
      }
      g.add(g.mk("adv", -1, {(int64_t)(tmo * (long)g.r.range(3, 8) / 10)}));
      g.add(g.mk("adv", -1, {(int64_t)(tmo * (long)g.r.range(3, 8) / 10)}));
    } else g.add(g.mk("deliver", from, {-1}));
    g.pump();
    if (g.r.pct(15)) g.add(g.mk("check"));
  }
  return g.p;
}

// ---------------------------------------------------------------- C19: activation - once, in order, or errors

Plan gen_c19(uint64_t seed, bool th) {
  G g(seed, th);
  g.p.prop = "C19";
  g.p.seed = seed;
  base_shape(g, 3, th ? 7 : 6);
  // which names have a service file
  std::vector<std::string> act;
  for (auto &n : g.sh.names) if (std::find(act.begin(), act.end(), n) == act.end() && (act.empty() || g.r.pct(70))) act.push_back(n);
  std::string csv;
  for (auto &n : act) csv += (csv.empty() ? "" : ",") + n;
  g.p.cfg["activatable"] = csv;
  long tmo = g.r.pct(60) ? (g.r.pct(50) ? 200 : 1500) : -1;
  if (tmo >= 0) g.p.cfg["lim.start_timeout"] = std::to_string(tmo);
  g.connect_all(g.r.pct(30), g.r.pct(40));
  if (g.r.pct(25)) g.add(g.mk("addmatch", g.a_client(), {-1}, {"eavesdrop='true'"}));
  int nops = (int)g.r.range(6, th ? 60 : 26);
  int started = 0;
  auto a_act = [&]() { return act[g.r.below(act.size())]; };
  bool envplan = g.r.pct(30);
  if (envplan && g.r.pct(60)) g.add(g.mk("query", 0, {-1}, {"UpdateActivationEnvironment", "DBUS_STARTER_ADDRESS", "unix:path=/nonexistent/first"}));
  for (int op = 0; op < nops; op++) {
    int x = (int)g.r.below(100);
    int from = g.a_client();
    if (x < 34) {
      // a message that may auto-start the service (calls mostly; unicast signals and replies are held as well)
      std::string dest = g.r.pct(85) ? a_act() : g.a_name();
      int type = g.r.pct(85) ? wire::T_CALL : wire::T_SIGNAL;
      int flags = g.r.pct(12) ? wire::FL_NO_AUTO_START : (g.r.pct(12) ? wire::FL_NO_REPLY_EXPECTED : 0);
      // (some carry injected header fields: a held message must reach the service as sanitised as any other)
      int64_t unk = g.r.pct(20) ? (int64_t)g.r.range(11, 255) : 0, ci = g.r.pct(12) ? (int64_t)g.r.range(1, 9) : 0;
      g.add(g.mk("send", from, {type, flags, g.deliver_mode(), 0, unk, ci}, {dest, "/svc", "com.example.Iface", "Work", "", g.r.pct(10) ? (g.r.pct(50) ? std::string(":9.99") : "$u" + std::to_string(from) + "+" + std::to_string(g.r.below(10))) : std::string("")}));
      started++;
    } else if (x < 46) {
      g.add(g.mk("query", from, {-1}, {"StartServiceByName", g.r.pct(85) ? a_act() : (g.r.pct(50) ? g.a_name() : std::string("com.example.nosuch"))}));
      started++;
    } else if (x < 62) {
      // somebody takes a name: the started service, quickly or late (or a name nobody waits for)
      g.add(g.mk("reqname", from, {(int64_t)g.r.below(8), -1}, {g.r.pct(80) ? a_act() : g.a_name()}));
    } else if (x < 72) {
      // the started process reports in, exits (status 0, non-zero, or killed by a signal), or fails to exec
      int a = (int)g.r.below(100);
      g.add(g.mk("proc", -1, {(int64_t)g.r.below(4), a < 40 ? 0 : a < 85 ? 1 : 2, a < 40 ? 0 : (a < 85 ? (g.r.pct(25) ? 0 : g.r.pct(70) ? (int64_t)g.r.range(1, 127) : 256 + 11) : (int64_t)g.r.range(1, 30))}));
    } else if (x < 79) {
      g.add(g.mk("adv", -1, {g.r.pct(50) ? (int64_t)g.r.range(1, 150) : (int64_t)g.r.range(150, 3000), g.r.pct(35) ? (int64_t)g.r.range(1, 4) : 0, (int64_t)g.r.range(0, 2) - 1}));
    } else if (x < 84) {
      g.add(g.mk("relname", from, {-1}, {a_act()}));
    } else if (x < 89) {
      g.add(g.mk("reply", g.a_client(), {(int64_t)g.r.below(4), g.r.pct(85) ? 0 : 1, -1}));
    } else if (x < 93) {
      g.add(g.mk("close", from));
    } else if (x < 96) {
      // (in some plans clients also store variables in the activation environment - among them the ones by which
      // the bus tells a started program which bus started it)
      if (envplan && g.r.pct(60)) {
        static const char *keys[] = {"DBUS_STARTER_ADDRESS", "DBUS_STARTER_ADDRESS", "SIM_VAR", "DBUS_STARTER_BUS_TYPE", "SIM_OTHER"};
        g.add(g.mk("query", from, {-1}, {"UpdateActivationEnvironment", keys[g.r.below(5)], "unix:path=/nonexistent/" + std::to_string(g.r.below(1000))}));
      } else
      g.add(g.mk("query", from, {-1}, {g.r.pct(50) ? "ListActivatableNames" : "NameHasOwner", a_act()}));
    } else g.add(g.mk("deliver", from, {-1}));
    g.pump();
    if (g.r.pct(15)) g.add(g.mk("check"));
  }
  return g.p;
}

// ---------------------------------------------------------------- C14: allocation failure at every point of one operation

Plan gen_c14(uint64_t seed, bool th) {
  G g(seed, th);
  g.p.prop = "C14";
  g.p.seed = seed;
  g.sh.nclients = (int)g.r.range(3, 4);
  static const char *pool[] = {"com.example.a", "com.example.b", "org.test.Svc"};
  g.sh.names = {pool[g.r.below(3)], pool[g.r.below(3)]};
  g.p.cfg["oom.enumerate"] = "1";
  if (g.r.pct(50)) g.p.cfg["policy.spec"] = pol::encode(requested_replies_only_policy());
  g.connect_all(false, true);
  // a history that builds some state: names with queues, rules, an outstanding call
  // (in a third of the plans every name operation is about ONE name, so that queues of two and three form and the
  // operation under test inserts into, reorders or leaves a queue - where the rollbacks are)
  bool qmode = g.r.pct(35);
  auto hname = [&]() { return qmode ? g.sh.names[0] : g.a_name(); };
  int nh = (int)g.r.range(2, th ? 14 : 8);
  for (int i = 0; i < nh; i++) {
    int c = qmode && i < g.sh.nclients ? i : g.a_client();
    int x = (int)g.r.below(100);
    if (x < 45 || (qmode && i < 2)) g.add(g.mk("reqname", c, {(int64_t)g.r.below(8), -1}, {hname()}));
    else if (x < 55) g.add(g.mk("relname", c, {-1}, {hname()}));
    else if (x < 75) { bool vh; std::string rule = gen_rule(g, &vh); if (vh) g.add(g.mk("addmatch", c, {-1}, {rule})); }
    else if (x < 90) g.add(g.mk("send", c, {1, 0, -1}, {g.r.pct(50) ? g.a_name() : "$u" + std::to_string(g.a_client()), "/obj", "com.example.Iface", "Do", "", ""}));
    else g.add(g.mk("reply", c, {0, 0, -1}));
    g.add(g.bus_step(3));
  }
  g.add(g.mk("check"));
  // the operation under test
  int c = g.a_client();
  int op = (int)g.r.below(100);
  if (g.r.pct(13)) {
    // "parsing ... a configuration file": ReloadConfig with a different file in place - other limits, another
    // policy, a service directory.  Either all of it is in force afterwards, or (NoMemory) none of it.
    g.p.cfg["reload"] = "1";
    if (th) g.p.cfg["oom.all"] = "1";
    if (g.r.pct(60)) g.p.cfg["reload.lim.rules"] = std::to_string(g.r.range(0, 2));
    if (g.r.pct(60)) g.p.cfg["reload.lim.names"] = std::to_string(g.r.range(1, 2));
    int pk = (int)g.r.below(3);
    if (pk == 1) g.p.cfg["reload.policy.spec"] = pol::encode(requested_replies_only_policy());
    else if (pk == 2) {
      pol::Policy p = requested_replies_only_policy();
      { pol::Rule r = prule(false, pol::Rule::SEND); r.type = pol::Opt("signal"); r.interface = pol::Opt("com.example.Iface"); r.member = pol::Opt("Do"); p.blocks[0].rules.push_back(r); }
      { pol::Rule r = prule(false, pol::Rule::OWN); r.own = g.a_name(); p.blocks[0].rules.push_back(r); }
      // rules whose attributes are what keeps them narrow (a name nobody owns, a prefix nobody uses): if parsing
      // under memory pressure ever loses an attribute the rule turns into a blanket one and everything changes
      if (g.r.pct(60)) { pol::Rule r = prule(false, pol::Rule::SEND); r.peer_prefix = pol::Opt("com.example.zzz"); p.blocks[0].rules.push_back(r); }
      if (g.r.pct(40)) { pol::Rule r = prule(false, pol::Rule::SEND); r.peer = pol::Opt("com.example.nobody.here"); p.blocks[0].rules.push_back(r); }
      if (g.r.pct(40)) { pol::Rule r = prule(false, pol::Rule::RECEIVE); r.peer = pol::Opt("com.example.nobody.here"); p.blocks[0].rules.push_back(r); }
      if (g.r.pct(30)) { pol::Rule r = prule(false, pol::Rule::SEND); r.interface = pol::Opt("com.example.NoSuchIface"); r.member = pol::Opt("Never"); p.blocks[0].rules.push_back(r); }
      g.p.cfg["reload.policy.spec"] = pol::encode(p);
    }
    if (g.r.pct(50)) g.p.cfg["reload.activatable"] = g.r.pct(50) ? "com.example.act1" : "com.example.act1,com.example.act2";
    if (g.r.pct(50)) g.p.cfg["reload.include"] = g.r.pct(40) ? "1" : "2";
    g.add(g.mk("query", c, {-1}, {"ReloadConfig", ""}));
  }
  else if (op < 22 || (qmode && op < 40)) g.add(g.mk("reqname", c, {(int64_t)g.r.below(8), -1}, {hname()}));
  else if (op < 32 || (qmode && op < 50)) g.add(g.mk("relname", c, {-1}, {hname()}));
  else if (op < 44) { bool vh; std::string rule = gen_rule(g, &vh); g.add(g.mk("addmatch", c, {-1}, {vh ? rule : std::string("type='signal',member='Do'")})); }
  else if (op < 52) { g.add(g.mk("rmmatch", c, {-1}, {"type='signal',sender='org.freedesktop.DBus',member='NameOwnerChanged'"})); }
  else if (op < 64) g.add(g.mk("send", c, {1, g.r.pct(20) ? 1 : 0, -1}, {g.r.pct(60) ? g.a_name() : "$u" + std::to_string(g.a_client()), "/obj", "com.example.Iface", "Do", "", "", "s:payload"}));
  else if (op < 70) g.add(g.mk("send", c, {4, 0, -1}, {"", "/com/example/obj", "com.example.Iface", "Do", "", "", "s:a"}));
  else if (op < 80) {
    // a reply that consumes a slot: make sure there is a call to answer
    int caller = (c + 1) % g.sh.nclients;
    g.add(g.mk("send", caller, {1, 0, -1}, {"$u" + std::to_string(c), "/obj", "com.example.Iface", "Ask", "", ""}));
    g.add(g.bus_step(3));
    g.add(g.mk("drain", c));
    g.add(g.mk("check"));
    g.add(g.mk("reply", c, {0, (int64_t)g.r.below(2), -1}));
  }
  else if (op < 88) {
    int ni = g.sh.nclients++;
    g.add(g.mk("connect", ni, {0, 0, 1000 + ni, 0, 0}));
    g.add(g.mk("auth", ni, {1}));
    g.add(g.bus_step(3));
    g.add(g.mk("drain", ni));
    g.add(g.mk("hello", ni, {-1}));
  }
  else if (op < 94) g.add(g.mk("becomemonitor", c, {0, -1}, {}));
  else g.add(g.mk("query", c, {-1}, {g.r.pct(50) ? "ListQueuedOwners" : "ListNames", g.a_name()}));
  g.add(g.mk("oombus", -1, {4, (int64_t)(g.r.next() & 0x7fffffff)}));
  g.add(g.mk("oomcheck"));
  if (g.p.cfg.count("reload")) {
    // before the retry puts the new configuration in force anyway: which configuration governs now?
    g.add(g.mk("query", 1, {-1}, {"ListActivatableNames", ""}));
    g.add(g.mk("query", 0, {-1}, {"StartServiceByName", "com.example.nosuch"}));
    g.add(g.mk("addmatch", 2, {-1}, {"type='signal',member='Probe3'"}));
    g.add(g.mk("reqname", 2, {4, -1}, {g.sh.names[1]}));
    g.add(g.mk("reqname", 2, {4, -1}, {"com.example.probe0"}));
    g.add(g.mk("send", 1, {4, 0, -1}, {"", "/com/example/obj", "com.example.Iface", "Do", "", "", "s:a"}));
    g.add(g.bus_step(3));
    g.add(g.mk("check"));
  }
  g.add(g.mk("oomretry"));
  g.add(g.bus_step(3));
  g.add(g.mk("check"));
  // inspector: the state through the protocol, then rules by behaviour
  for (auto &n : g.sh.names) {
    g.add(g.mk("query", 0, {-1}, {"ListQueuedOwners", n}));
    g.add(g.mk("query", 1, {-1}, {"GetNameOwner", n}));
  }
  g.add(g.mk("query", 0, {-1}, {"ListNames", ""}));
  if (g.p.cfg.count("reload")) {
    // the configuration by behaviour: service files, the rule and name limits, the ownership rule
    g.add(g.mk("query", 1, {-1}, {"ListActivatableNames", ""}));
    g.add(g.mk("addmatch", 2, {-1}, {"type='signal',member='Probe1'"}));
    g.add(g.mk("addmatch", 2, {-1}, {"type='signal',member='Probe2'"}));
    g.add(g.mk("reqname", 2, {4, -1}, {g.sh.names[0]}));
    g.add(g.mk("reqname", 2, {4, -1}, {"com.example.probe"}));
    g.add(g.bus_step(3));
  }
  g.add(g.mk("send", 1, {4, 0, -1}, {"", "/com/example/obj", "com.example.Iface", "Do", "", "", "s:a"}));
  g.add(g.mk("send", 0, {4, 0, -1}, {"", "/", "org.test.Other", "Get", "", "", "s:/aa/bb/"}));
  g.add(g.mk("reply", g.a_client(), {0, 0, -1}));
  g.add(g.bus_step(3));
  g.add(g.mk("check"));
  return g.p;
}

}  // namespace

Plan generate(const std::string &prop, uint64_t seed, bool thorough) {
  if (prop == "SMOKE") return gen_smoke(seed, thorough);
  if (prop == "C03") return gen_c03(seed, thorough);
  if (prop == "C04") return gen_c04(seed, thorough);
  if (prop == "C05") return gen_c05(seed, thorough);
  if (prop == "C07") return gen_c07(seed, thorough);
  if (prop == "C13") return gen_c13(seed, thorough);
  if (prop == "C10") return gen_c10(seed, thorough);
  if (prop == "C09") return gen_c09(seed, thorough);
  if (prop == "C06") return gen_c06(seed, thorough);
  if (prop == "C18") return gen_c18(seed, thorough);
  if (prop == "C14") return gen_c14(seed, thorough);
  if (prop == "C15") return gen_c15(seed, thorough);
  if (prop == "C19") return gen_c19(seed, thorough);
  core::harness_error("no generator for property %s", prop.c_str());
}

}  // namespace checks
