// sim/harness/simlib.cc — libdbus endpoint under the simulator: generators,
// executor and oracles for the library-level properties (C01, C11, ...).
#include <stdio.h>
#include <stdlib.h>
#include <string.h>

#include <algorithm>

#include "codec/gen.h"
#include "codec/wire.h"
#include "core/core.h"
#include "harness/libchecks.h"
#include "harness/libworld.h"
#include "kernel/kernel.h"

extern "C" __attribute__((used, visibility("default"))) const char *__asan_default_options() {
  return "exitcode=77:detect_leaks=0:abort_on_error=0:allocator_may_return_null=1:handle_abort=1";
}
extern "C" __attribute__((used, visibility("default"))) const char *__ubsan_default_options() {
  return "print_stacktrace=1:halt_on_error=1:exitcode=77";
}

int main(int argc, char **argv) {
  setvbuf(stdout, nullptr, _IOLBF, 0);
  simk::kernel_init();
  core::Harness h;
  h.gen = [](const std::string &prop, uint64_t seed, bool thorough) { return libchecks::generate(prop, seed, thorough); };
  h.run = [](const core::Plan &p, bool log) { return libchecks::execute(p, log); };
  return core::worker_main(argc, argv, h);
}
