// sim/harness/liboom.cc — C14, library clause: "if memory allocation fails at any
// single point while the library performs an operation - building, copying or
// editing a message ... - the operation reports out-of-memory, leaves all
// previously observable state (message contents ...) exactly as it was, leaks
// nothing, and succeeds when retried with memory available".
//
// Fault enumeration: one fault-free execution counts the allocations n of the
// operation, then the operation is repeated from the same prior state with
// allocation k failing, for every k in 0..n-1.  The independent codec says what
// the bytes must be.
#include <stdio.h>
#include <stdlib.h>
#include <string.h>

#include <algorithm>
#include <functional>

#include "codec/gen.h"
#include "codec/wire.h"
#include "core/core.h"
#include "harness/libchecks.h"
#include "kernel/kernel.h"

extern "C" {
#include <dbus/dbus.h>
int _dbus_get_fail_alloc_counter(void);
void _dbus_set_fail_alloc_counter(int until_next_fail);
int _dbus_get_malloc_blocks_outstanding(void);
}

using core::fail;
using core::Plan;
using core::Step;

namespace libchecks {

namespace {

const int BIG = 1 << 30;

std::string marshal_of(DBusMessage *m) {
  char *buf = nullptr;
  int len = 0;
  int saved = _dbus_get_fail_alloc_counter();
  _dbus_set_fail_alloc_counter(0x7fffffff);
  std::string s;
  if (dbus_message_marshal(m, &buf, &len)) { s.assign(buf, (size_t)len); dbus_free(buf); }
  _dbus_set_fail_alloc_counter(saved);
  return s;
}

// same message content, field order aside
bool same_content(const wire::Msg &a, const wire::Msg &b, std::string *why) {
  if (a.type != b.type) { *why = "type"; return false; }
  if (a.flags != b.flags) { *why = "flags"; return false; }
  if (a.serial != b.serial) { *why = "serial"; return false; }
  if (a.big_endian != b.big_endian) { *why = "byte order"; return false; }
  if (!(a.body == b.body)) { *why = "body"; return false; }
  auto key = [](const wire::Field &f) { return std::string(1, (char)f.code) + f.val.repr(); };
  std::vector<std::string> fa, fb;
  for (auto &f : a.fields) fa.push_back(key(f));
  for (auto &f : b.fields) fb.push_back(key(f));
  std::sort(fa.begin(), fa.end());
  std::sort(fb.begin(), fb.end());
  if (fa != fb) { *why = "header fields"; return false; }
  return true;
}

// append one value through the public iterator API; false = out of memory somewhere below
bool append_value(DBusMessageIter *it, const wire::Value &v) {
  switch (v.type) {
    case 'y': { unsigned char x = (unsigned char)v.u; return dbus_message_iter_append_basic(it, DBUS_TYPE_BYTE, &x); }
    case 'b': { dbus_bool_t x = v.u != 0; return dbus_message_iter_append_basic(it, DBUS_TYPE_BOOLEAN, &x); }
    case 'n': { dbus_int16_t x = (dbus_int16_t)v.u; return dbus_message_iter_append_basic(it, DBUS_TYPE_INT16, &x); }
    case 'q': { dbus_uint16_t x = (dbus_uint16_t)v.u; return dbus_message_iter_append_basic(it, DBUS_TYPE_UINT16, &x); }
    case 'i': { dbus_int32_t x = (dbus_int32_t)v.u; return dbus_message_iter_append_basic(it, DBUS_TYPE_INT32, &x); }
    case 'u': { dbus_uint32_t x = (dbus_uint32_t)v.u; return dbus_message_iter_append_basic(it, DBUS_TYPE_UINT32, &x); }
    case 'x': { dbus_int64_t x = (dbus_int64_t)v.u; return dbus_message_iter_append_basic(it, DBUS_TYPE_INT64, &x); }
    case 't': { dbus_uint64_t x = (dbus_uint64_t)v.u; return dbus_message_iter_append_basic(it, DBUS_TYPE_UINT64, &x); }
    case 'd': { double x; memcpy(&x, &v.u, sizeof x); return dbus_message_iter_append_basic(it, DBUS_TYPE_DOUBLE, &x); }
    case 's': case 'o': case 'g': { const char *x = v.str.c_str(); return dbus_message_iter_append_basic(it, v.type, &x); }
    case 'v': case 'a': case 'r': case 'e': {
      DBusMessageIter sub;
      int ct = v.type == 'r' ? DBUS_TYPE_STRUCT : v.type == 'e' ? DBUS_TYPE_DICT_ENTRY : v.type == 'a' ? DBUS_TYPE_ARRAY : DBUS_TYPE_VARIANT;
      const char *csig = (v.type == 'a' || v.type == 'v') ? v.sig.c_str() : nullptr;
      if (!dbus_message_iter_open_container(it, ct, csig, &sub)) return false;
      for (auto &k : v.kids)
        if (!append_value(&sub, k)) { dbus_message_iter_abandon_container(it, &sub); return false; }
      if (!dbus_message_iter_close_container(it, &sub)) return false;   // (the documentation: the container is gone either way)
      return true;
    }
  }
  core::harness_error("append_value: type %c", v.type);
}

struct Op {                       // one operation on a prior state, repeatable
  std::string kind;
  std::string bytes;              // the message the prior state is made of
  wire::Msg msg;
  int edit = 0;
  std::string edit_str;
  uint32_t edit_u = 0;
};

// Runs the operation once with the failure counter as armed by the caller.
// Returns: 1 success (and *after = resulting bytes), 0 reported out of memory (and *after = bytes of the prior
// state object afterwards, "" if there is none), -1 not applicable to this message.
static bool apply_edit(DBusMessage *m, const Op &op) {
  dbus_bool_t ok = TRUE;
  const char *s = op.edit_str.empty() ? nullptr : op.edit_str.c_str();
  switch (op.edit) {
    case 0: ok = dbus_message_set_destination(m, s); break;
    case 1: ok = dbus_message_set_sender(m, s); break;
    case 2: ok = dbus_message_set_path(m, s); break;
    case 3: ok = dbus_message_set_interface(m, s); break;
    case 4: ok = dbus_message_set_member(m, s); break;
    case 5: ok = dbus_message_set_error_name(m, s); break;
    case 6: ok = dbus_message_set_reply_serial(m, op.edit_u); break;
    case 7: dbus_message_set_no_reply(m, op.edit_u & 1); break;
    case 8: dbus_message_set_auto_start(m, op.edit_u & 1); break;
  }
  return ok;
}

// same_object: called (failure counter disabled) with the very message object whose edit has just reported out of
// memory - "succeeds when retried" is about that object, not about a fresh copy
int run_once(const Op &op, std::string *after, std::string *problem, bool armed, const std::function<void(DBusMessage *)> &same_object = nullptr) {
  int armed_counter = _dbus_get_fail_alloc_counter();
  _dbus_set_fail_alloc_counter(0x7fffffff);
  DBusError err;
  dbus_error_init(&err);
  DBusMessage *m = nullptr;
  if (op.kind != "demarshal" && op.kind != "build") {
    m = dbus_message_demarshal(op.bytes.data(), (int)op.bytes.size(), &err);
    if (!m) { dbus_error_free(&err); return -1; }
  }
  int result = -1;
  _dbus_set_fail_alloc_counter(armed ? armed_counter : BIG);
  if (op.kind == "demarshal") {
    DBusMessage *d = dbus_message_demarshal(op.bytes.data(), (int)op.bytes.size(), &err);
    int left = _dbus_get_fail_alloc_counter();
    _dbus_set_fail_alloc_counter(0x7fffffff);
    if (d) { *after = marshal_of(d); dbus_message_unref(d); result = 1; }
    else {
      bool nomem = dbus_error_has_name(&err, DBUS_ERROR_NO_MEMORY);
      dbus_error_free(&err);
      if (!nomem) { result = -1; if (armed) *problem = "demarshal failed with an error other than NoMemory under an allocation failure"; }
      else result = 0;
      after->clear();
    }
    _dbus_set_fail_alloc_counter(left);
  } else if (op.kind == "copy") {
    DBusMessage *c = dbus_message_copy(m);
    int left = _dbus_get_fail_alloc_counter();
    _dbus_set_fail_alloc_counter(0x7fffffff);
    if (c) { dbus_message_set_serial(c, dbus_message_get_serial(m)); *after = marshal_of(c); dbus_message_unref(c); result = 1; if (marshal_of(m) != op.bytes) *problem = "the source of a successful copy changed"; }
    else { *after = marshal_of(m); result = 0; }
    _dbus_set_fail_alloc_counter(left);
  } else if (op.kind == "marshal") {
    char *buf = nullptr; int len = 0;
    dbus_bool_t ok = dbus_message_marshal(m, &buf, &len);
    int left = _dbus_get_fail_alloc_counter();
    _dbus_set_fail_alloc_counter(0x7fffffff);
    if (ok) { after->assign(buf, (size_t)len); dbus_free(buf); result = 1; }
    else { *after = marshal_of(m); result = 0; }
    _dbus_set_fail_alloc_counter(left);
  } else if (op.kind == "edit") {
    dbus_bool_t ok = apply_edit(m, op);
    int left = _dbus_get_fail_alloc_counter();
    _dbus_set_fail_alloc_counter(0x7fffffff);
    *after = marshal_of(m);
    result = ok ? 1 : 0;
    if (!ok && same_object) same_object(m);
    _dbus_set_fail_alloc_counter(left);
  } else if (op.kind == "build") {
    // the whole message through the public construction API
    const wire::Msg &w = op.msg;
    DBusMessage *b = dbus_message_new(w.type);
    bool ok = b != nullptr;
    auto F = [&](uint8_t code) { std::string v = w.str_field(code); return v; };
    if (ok && w.has_field(wire::F_PATH)) ok = dbus_message_set_path(b, F(wire::F_PATH).c_str());
    if (ok && w.has_field(wire::F_INTERFACE)) ok = dbus_message_set_interface(b, F(wire::F_INTERFACE).c_str());
    if (ok && w.has_field(wire::F_MEMBER)) ok = dbus_message_set_member(b, F(wire::F_MEMBER).c_str());
    if (ok && w.has_field(wire::F_ERROR_NAME)) ok = dbus_message_set_error_name(b, F(wire::F_ERROR_NAME).c_str());
    if (ok && w.has_field(wire::F_DESTINATION)) ok = dbus_message_set_destination(b, F(wire::F_DESTINATION).c_str());
    if (ok && w.has_field(wire::F_SENDER)) ok = dbus_message_set_sender(b, F(wire::F_SENDER).c_str());
    if (ok && w.has_field(wire::F_REPLY_SERIAL)) ok = dbus_message_set_reply_serial(b, w.reply_serial());
    if (ok) {
      dbus_message_set_no_reply(b, (w.flags & wire::FL_NO_REPLY_EXPECTED) != 0);
      dbus_message_set_auto_start(b, (w.flags & wire::FL_NO_AUTO_START) == 0);
      dbus_message_set_allow_interactive_authorization(b, (w.flags & wire::FL_ALLOW_INTERACTIVE_AUTH) != 0);
      DBusMessageIter it;
      dbus_message_iter_init_append(b, &it);
      for (auto &v : w.body) if (ok && !append_value(&it, v)) ok = false;
    }
    int left = _dbus_get_fail_alloc_counter();
    _dbus_set_fail_alloc_counter(0x7fffffff);
    if (ok) { dbus_message_set_serial(b, w.serial); *after = marshal_of(b); result = 1; }
    else { after->clear(); result = 0; }     // documented: a message whose construction ran out of memory is to be discarded
    if (b) dbus_message_unref(b);
    _dbus_set_fail_alloc_counter(left);
  }
  int left = _dbus_get_fail_alloc_counter();
  _dbus_set_fail_alloc_counter(0x7fffffff);
  if (m) dbus_message_unref(m);
  _dbus_set_fail_alloc_counter(left);
  return result;
}

}  // namespace

core::RunResult run_oomlib(const Plan &plan, bool log) {
  core::RunResult res;
  core::Trace tr;
  tr.reset(log);
  std::map<std::string, uint64_t> counters;
  std::string hist;
  try {
    simk::kernel_init();
    Op op;
    for (auto &s : plan.steps) {
      if (s.t == "msg") op.bytes = s.S(0);
      else if (s.t == "op") { op.kind = s.S(0); op.edit = (int)s.N(0, 0); op.edit_u = (uint32_t)s.N(1, 0); op.edit_str = s.S(1); }
    }
    wire::ParseResult pr = wire::parse(op.bytes);
    if (pr.status != wire::P_OK) core::harness_error("plan message is not valid");
    op.msg = pr.msg;
    hist = op.kind + (op.kind == "edit" ? "(" + std::to_string(op.edit) + "," + op.edit_str + ")" : "") + " on " + op.msg.repr().substr(0, 160);
    _dbus_set_fail_alloc_counter(0x7fffffff);
    dbus_shutdown();
    int base_blocks = _dbus_get_malloc_blocks_outstanding();

    // what the codec says the result is
    wire::Msg want = op.msg;
    if (op.kind == "edit") {
      static const uint8_t codes[] = {wire::F_DESTINATION, wire::F_SENDER, wire::F_PATH, wire::F_INTERFACE, wire::F_MEMBER, wire::F_ERROR_NAME};
      if (op.edit <= 5) {
        if (op.edit_str.empty()) want.remove_field(codes[op.edit]);
        else want.set_field(codes[op.edit], op.edit == 2 ? wire::Value::path(op.edit_str) : wire::Value::string(op.edit_str));
      } else if (op.edit == 6) want.set_field(wire::F_REPLY_SERIAL, wire::Value::u32(op.edit_u));
      else if (op.edit == 7) want.flags = (uint8_t)((want.flags & ~wire::FL_NO_REPLY_EXPECTED) | ((op.edit_u & 1) ? wire::FL_NO_REPLY_EXPECTED : 0));
      else if (op.edit == 8) want.flags = (uint8_t)((want.flags & ~wire::FL_NO_AUTO_START) | ((op.edit_u & 1) ? 0 : wire::FL_NO_AUTO_START));
    }
    if (op.kind == "build") want.big_endian = false;   // (the library builds in its native order)

    // fault-free pass: result and number of allocations
    std::string after, problem;
    _dbus_set_fail_alloc_counter(BIG);
    int r0 = run_once(op, &after, &problem, true);
    long n = BIG - _dbus_get_fail_alloc_counter();
    _dbus_set_fail_alloc_counter(0x7fffffff);
    if (r0 < 0) { counters["skipped_not_applicable"]++; res.hash = tr.h; res.counters = counters; res.sample = hist; return res; }
    if (r0 == 0) fail("oracle:C14:lib-spurious-nomemory", "%s reported out of memory although no allocation failed", op.kind.c_str());
    auto judge_success = [&](const std::string &got, const char *when) {
      wire::ParseResult g = wire::parse(got);
      if (g.status != wire::P_OK) fail("oracle:C14:lib-result", "%s %s: the result is not a valid message (%s)", op.kind.c_str(), when, g.reason.c_str());
      std::string why;
      if (op.kind == "demarshal" || op.kind == "copy" || op.kind == "marshal") { if (got != op.bytes) fail("oracle:C14:lib-result", "%s %s: the result differs from the original bytes", op.kind.c_str(), when); }
      else if (!same_content(g.msg, want, &why)) fail("oracle:C14:lib-result", "%s %s: %s of the result differ from what the operation means (%s)", op.kind.c_str(), when, why.c_str(), hist.c_str());
    };
    judge_success(after, "without faults");
    dbus_shutdown();
    if (_dbus_get_malloc_blocks_outstanding() != base_blocks) fail("leak:blocks", "%s leaks %d blocks without any fault", op.kind.c_str(), _dbus_get_malloc_blocks_outstanding() - base_blocks);
    counters["oom_points"] += (uint64_t)n;
    tr.ev("%s n=%ld msg=%s edit=%d/%s", op.kind.c_str(), n, wire::sha1_hex(op.bytes).substr(0, 16).c_str(), op.edit, wire::hex_encode(op.edit_str.substr(0, 12)).c_str());

    long kmin = plan.C("oom.k", -1) >= 0 ? plan.C("oom.k", -1) : 0, kmax = plan.C("oom.k", -1) >= 0 ? plan.C("oom.k", -1) + 1 : n;
    for (long k = kmin; k < kmax; k++) {
      if (getenv("SIM_OOMK_TRACE")) { printf("OOMK %ld\n", k); fflush(stdout); }
      _dbus_set_fail_alloc_counter((int)k);
      problem.clear();
      std::string same_problem;
      auto same_object = [&](DBusMessage *m) {
        // retry on the same object with memory available, then keep using it: header edits of every length class
        if (!apply_edit(m, op)) { same_problem = "the same edit on the same message fails again although memory is available"; return; }
        std::string got = marshal_of(m);
        wire::ParseResult g = wire::parse(got);
        std::string why;
        if (g.status != wire::P_OK) { same_problem = "after the retry on the same message the result is not a valid message (" + g.reason + ")"; return; }
        if (!same_content(g.msg, want, &why)) { same_problem = "after the retry on the same message " + why + " differ from what the operation means"; return; }
        wire::Msg w2 = want;
        for (int len = 1; len <= 9; len++) {
          std::string name = ":1." + std::string((size_t)len, '7');
          if (!dbus_message_set_destination(m, name.c_str())) { same_problem = "a later set_destination fails although memory is available"; return; }
          w2.set_field(wire::F_DESTINATION, wire::Value::string(name));
          wire::ParseResult g2 = wire::parse(marshal_of(m));
          if (g2.status != wire::P_OK) { same_problem = "a later set_destination(" + name + ") on the message yields an invalid message (" + g2.reason + ")"; return; }
          if (!same_content(g2.msg, w2, &why)) { same_problem = "after a later set_destination(" + name + ") " + why + " are wrong"; return; }
        }
        counters["oom_same_object_retries"]++;
      };
      int r = run_once(op, &after, &problem, true, op.kind == "edit" ? std::function<void(DBusMessage *)>(same_object) : nullptr);
      bool fired = _dbus_get_fail_alloc_counter() > k;
      _dbus_set_fail_alloc_counter(0x7fffffff);
      counters["oom_runs"]++;
      tr.ev("k=%ld -> %d fired=%d", k, r, (int)fired);
      std::string tag = "[oom.k=" + std::to_string(k) + "] ";
      if (!problem.empty()) fail("oracle:C14:lib-state", "%s%s: %s", tag.c_str(), op.kind.c_str(), problem.c_str());
      if (!same_problem.empty()) fail("oracle:C14:lib-retry-same-object", "%s%s reported out of memory; %s (%s)", tag.c_str(), op.kind.c_str(), same_problem.c_str(), hist.c_str());
      if (r < 0) fail("oracle:C14:lib-error", "%s%s failed with something other than out-of-memory when allocation %ld failed", tag.c_str(), op.kind.c_str(), k);
      if (r == 1) { judge_success(after, (tag + "although an allocation failed").c_str()); counters["oom_outcome_complete"]++; }
      else {
        counters["oom_outcome_nomemory"]++;
        if (!fired) fail("oracle:C14:lib-spurious-nomemory", "%s%s reported out of memory although the armed failure did not fire", tag.c_str(), op.kind.c_str());
        // the prior state object must be exactly as it was
        if ((op.kind == "copy" || op.kind == "marshal" || op.kind == "edit") && after != op.bytes) {
          if (op.kind == "edit" && plan.C("known.edit", 0)) counters["finding:C14-header-edit-not-atomic"]++;
          else fail("oracle:C14:lib-state", "%s%s reported out of memory and the message is no longer what it was (%s)", tag.c_str(), op.kind.c_str(), hist.c_str());
        }
      }
      dbus_shutdown();
      if (_dbus_get_malloc_blocks_outstanding() != base_blocks)
        fail("oracle:C14:leak:blocks", "%s%s leaves %d blocks allocated when allocation %ld fails", tag.c_str(), op.kind.c_str(), _dbus_get_malloc_blocks_outstanding() - base_blocks, k);
      // retry with memory available
      _dbus_set_fail_alloc_counter(BIG);
      std::string again;
      int rr = run_once(op, &again, &problem, true);
      _dbus_set_fail_alloc_counter(0x7fffffff);
      if (rr != 1) fail("oracle:C14:lib-retry", "%s%s does not succeed when retried with memory available", tag.c_str(), op.kind.c_str());
      judge_success(again, (tag + "on retry").c_str());
      dbus_shutdown();
    }
    counters["lib_operations"]++;
    counters["probe:lib_" + op.kind]++;
  } catch (core::Violation &v) {
    res.ok = false;
    res.cls = v.cls;
    res.detail = v.detail;
    _dbus_set_fail_alloc_counter(0x7fffffff);
  }
  res.hash = tr.h;
  res.counters = counters;
  res.nontrivial = counters["oom_runs"] > 0;
  res.sample = hist;
  if (tr.keep_text) res.sample = tr.text + "HISTORY " + hist + "\n";
  return res;
}

Plan gen_oomlib(uint64_t seed, bool th) {
  (void)th;
  wiregen::Rng r(seed * 0x9e3779b1u + 14);
  Plan p;
  p.prop = "C14L";
  p.seed = seed;
  static const char *kinds[] = {"demarshal", "copy", "marshal", "edit", "edit", "edit", "build", "build"};
  std::string kind = kinds[r.below(8)];
  wiregen::MsgOpts o;
  o.unknown_types = false;
  o.unknown_fields = kind != "build" && kind != "edit" && r.chance(40);
  o.nonzero_unix_fds = false;
  o.fd_type = false;
  wire::Msg m = wiregen::gen_msg(r, o);
  m.remove_field(wire::F_UNIX_FDS);
  m.remove_field(wire::F_CONTAINER_INSTANCE);
  if (m.serial == 0) m.serial = 7;
  if (kind == "build") { m.big_endian = false; m.flags &= 7; if (m.has_field(wire::F_SIGNATURE) && m.body.empty()) m.remove_field(wire::F_SIGNATURE); }
  Step sm; sm.t = "msg"; sm.s = {wire::marshal(m)};
  p.steps.push_back(sm);
  Step so; so.t = "op";
  int edit = (int)r.below(9);
  std::string es;
  if (edit == 0 || edit == 1) es = r.chance(25) ? "" : wiregen::gen_busname(r);
  else if (edit == 2) es = (m.type == wire::T_CALL || m.type == wire::T_SIGNAL) ? wiregen::gen_path(r) : (r.chance(50) ? "" : wiregen::gen_path(r));
  else if (edit == 3) es = m.type == wire::T_SIGNAL ? wiregen::gen_interface(r) : (r.chance(25) ? "" : wiregen::gen_interface(r));
  else if (edit == 4) es = (m.type == wire::T_CALL || m.type == wire::T_SIGNAL) ? wiregen::gen_member(r) : (r.chance(50) ? "" : wiregen::gen_member(r));
  else if (edit == 5) es = m.type == wire::T_ERROR ? wiregen::gen_interface(r) : (r.chance(50) ? "" : wiregen::gen_interface(r));
  so.s = {kind, es};
  so.n = {edit, (int64_t)(1 + r.below(1000000))};
  p.steps.push_back(so);
  return p;
}

}  // namespace libchecks
