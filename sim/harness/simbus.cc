// sim/harness/simbus.cc — whole dbus-daemon under the simulator: generators,
// executor and oracles for the daemon-level properties.
#include <stdio.h>
#include <string.h>

#include "codec/wire.h"
#include "core/core.h"
#include "harness/busworld.h"
#include "harness/checks.h"
#include "kernel/kernel.h"

extern "C" const char *__asan_default_options();
extern "C" __attribute__((used, visibility("default"))) const char *__asan_default_options() {
  return "exitcode=77:detect_leaks=0:abort_on_error=0:allocator_may_return_null=1:handle_abort=1";
}
extern "C" __attribute__((used, visibility("default"))) const char *__ubsan_default_options() {
  return "print_stacktrace=1:halt_on_error=1:exitcode=77";
}

int main(int argc, char **argv) {
  setvbuf(stdout, nullptr, _IOLBF, 0);
  simk::kernel_init();
  core::Harness h;
  h.gen = [](const std::string &prop, uint64_t seed, bool thorough) { return checks::generate(prop, seed, thorough); };
  h.run = [](const core::Plan &p, bool log) { return checks::execute(p, log); };
  return core::worker_main(argc, argv, h);
}
