// sim/harness/checks.h — plan generators and the plan executor of simbus.
#pragma once
#include <string>

#include "core/core.h"

namespace checks {

core::Plan generate(const std::string &prop, uint64_t seed, bool thorough);
core::RunResult execute(const core::Plan &plan, bool log);

}  // namespace checks
