// sim/harness/libworld.cc
#include "harness/libworld.h"

#include <stdio.h>
#include <stdlib.h>
#include <string.h>
#include <unistd.h>

extern "C" {
#include <config.h>
#include <dbus/dbus.h>
#include <dbus/dbus-internals.h>
#include <dbus/dbus-mainloop.h>
}

using core::fail;
using core::harness_error;
using simk::K;

namespace lw {

static LibWorld *g_lw = nullptr;
simk::Stats last_stats;

// ------------------------------------------------------------------ main-loop glue (the "application")

static dbus_bool_t add_watch(DBusWatch *w, void *data) { return _dbus_loop_add_watch((DBusLoop *)data, w); }
static void remove_watch(DBusWatch *w, void *data) { _dbus_loop_remove_watch((DBusLoop *)data, w); }
static void toggle_watch(DBusWatch *w, void *data) { _dbus_loop_toggle_watch((DBusLoop *)data, w); }
static dbus_bool_t add_timeout(DBusTimeout *t, void *data) { return _dbus_loop_add_timeout((DBusLoop *)data, t); }
static void remove_timeout(DBusTimeout *t, void *data) { _dbus_loop_remove_timeout((DBusLoop *)data, t); }

static void dispatch_status(DBusConnection *c, DBusDispatchStatus st, void *data) {
  DBusLoop *loop = (DBusLoop *)data;
  if (st != DBUS_DISPATCH_COMPLETE)
    while (!_dbus_loop_queue_dispatch(loop, c)) {}
}

static bool setup_connection(DBusLoop *loop, DBusConnection *c) {
  dbus_connection_set_dispatch_status_function(c, dispatch_status, loop, nullptr);
  if (!dbus_connection_set_watch_functions(c, add_watch, remove_watch, toggle_watch, loop, nullptr)) return false;
  if (!dbus_connection_set_timeout_functions(c, add_timeout, remove_timeout, nullptr, loop, nullptr)) return false;
  if (dbus_connection_get_dispatch_status(c) != DBUS_DISPATCH_COMPLETE)
    if (!_dbus_loop_queue_dispatch(loop, c)) return false;
  return true;
}

static void shutdown_connection(DBusConnection *c) {
  dbus_connection_set_watch_functions(c, nullptr, nullptr, nullptr, nullptr, nullptr);
  dbus_connection_set_timeout_functions(c, nullptr, nullptr, nullptr, nullptr, nullptr);
  dbus_connection_set_dispatch_status_function(c, nullptr, nullptr, nullptr);
}

// ------------------------------------------------------------------ DBusMessage -> wire::Msg through the public API

static bool walk(DBusMessageIter *it, std::vector<wire::Value> *out, std::string *problem, int depth);

static bool one_value(DBusMessageIter *it, wire::Value *v, std::string *problem, int depth) {
  if (depth > 70) { *problem = "iterator nesting beyond 70"; return false; }
  int t = dbus_message_iter_get_arg_type(it);
  switch (t) {
    case DBUS_TYPE_BYTE: { unsigned char x; dbus_message_iter_get_basic(it, &x); *v = wire::Value::byte(x); return true; }
    case DBUS_TYPE_BOOLEAN: { dbus_bool_t x; dbus_message_iter_get_basic(it, &x); *v = wire::Value::boolean(x != 0); v->u = x; return true; }
    case DBUS_TYPE_INT16: { dbus_int16_t x; dbus_message_iter_get_basic(it, &x); *v = wire::Value::i16(x); return true; }
    case DBUS_TYPE_UINT16: { dbus_uint16_t x; dbus_message_iter_get_basic(it, &x); *v = wire::Value::u16(x); return true; }
    case DBUS_TYPE_INT32: { dbus_int32_t x; dbus_message_iter_get_basic(it, &x); *v = wire::Value::i32(x); return true; }
    case DBUS_TYPE_UINT32: { dbus_uint32_t x; dbus_message_iter_get_basic(it, &x); *v = wire::Value::u32(x); return true; }
    case DBUS_TYPE_INT64: { dbus_int64_t x; dbus_message_iter_get_basic(it, &x); *v = wire::Value::i64(x); return true; }
    case DBUS_TYPE_UINT64: { dbus_uint64_t x; dbus_message_iter_get_basic(it, &x); *v = wire::Value::u64(x); return true; }
    case DBUS_TYPE_DOUBLE: { double d; dbus_message_iter_get_basic(it, &d); uint64_t bits; memcpy(&bits, &d, 8); *v = wire::Value::dbl_bits(bits); return true; }
    case DBUS_TYPE_STRING: { const char *s = nullptr; dbus_message_iter_get_basic(it, &s); *v = wire::Value::string(s ? s : ""); return true; }
    case DBUS_TYPE_OBJECT_PATH: { const char *s = nullptr; dbus_message_iter_get_basic(it, &s); *v = wire::Value::path(s ? s : ""); return true; }
    case DBUS_TYPE_SIGNATURE: { const char *s = nullptr; dbus_message_iter_get_basic(it, &s); *v = wire::Value::sigval(s ? s : ""); return true; }
    case DBUS_TYPE_UNIX_FD: {
      // the iterator hands out a dup()ed descriptor or -1; the wire value (index) is not exposed
      int fd = -1;
      dbus_message_iter_get_basic(it, &fd);
      if (fd >= 0) close(fd);
      *v = wire::Value::fd_index(0);
      v->str = "?";   // marks "index not observable"
      return true;
    }
    case DBUS_TYPE_VARIANT: {
      DBusMessageIter sub;
      dbus_message_iter_recurse(it, &sub);
      std::vector<wire::Value> kids;
      if (!walk(&sub, &kids, problem, depth + 1)) return false;
      if (kids.size() != 1) { *problem = "variant with " + std::to_string(kids.size()) + " values"; return false; }
      *v = wire::Value::variant(kids[0]);
      return true;
    }
    case DBUS_TYPE_STRUCT: case DBUS_TYPE_DICT_ENTRY: {
      DBusMessageIter sub;
      dbus_message_iter_recurse(it, &sub);
      std::vector<wire::Value> kids;
      if (!walk(&sub, &kids, problem, depth + 1)) return false;
      if (t == DBUS_TYPE_DICT_ENTRY) {
        if (kids.size() != 2) { *problem = "dict entry with " + std::to_string(kids.size()) + " fields"; return false; }
        *v = wire::Value::dict_entry(kids[0], kids[1]);
      } else *v = wire::Value::strukt(kids);
      return true;
    }
    case DBUS_TYPE_ARRAY: {
      char *sig = dbus_message_iter_get_signature(it);
      std::string s = sig ? sig : "";
      dbus_free(sig);
      if (s.size() < 2 || s[0] != 'a') { *problem = "array iterator with signature " + s; return false; }
      std::string es = s.substr(1);
      int n_expected = dbus_message_iter_get_element_count(it);
      DBusMessageIter sub;
      dbus_message_iter_recurse(it, &sub);
      std::vector<wire::Value> kids;
      if (!walk(&sub, &kids, problem, depth + 1)) return false;
      if ((int)kids.size() != n_expected) { *problem = "get_element_count says " + std::to_string(n_expected) + ", iteration yields " + std::to_string(kids.size()); return false; }
      // fixed-size element arrays are also readable in one piece
      int et = dbus_message_iter_get_element_type(it);
      if (dbus_type_is_fixed(et) && et != DBUS_TYPE_UNIX_FD) {
        DBusMessageIter sub2;
        dbus_message_iter_recurse(it, &sub2);
        const void *data = nullptr;
        int n = 0;
        dbus_message_iter_get_fixed_array(&sub2, &data, &n);
        if (n != (int)kids.size()) { *problem = "get_fixed_array yields " + std::to_string(n) + " elements, iteration " + std::to_string(kids.size()); return false; }
        size_t width = (et == DBUS_TYPE_BYTE) ? 1 : (et == DBUS_TYPE_INT16 || et == DBUS_TYPE_UINT16) ? 2 : (et == DBUS_TYPE_INT64 || et == DBUS_TYPE_UINT64 || et == DBUS_TYPE_DOUBLE) ? 8 : 4;
        for (int i = 0; i < n; i++) {
          uint64_t x = 0;
          memcpy(&x, (const char *)data + (size_t)i * width, width);
          uint64_t want = kids[(size_t)i].u;
          if (width < 8) want &= (1ull << (width * 8)) - 1;
          if (x != want) { *problem = "get_fixed_array element " + std::to_string(i) + " differs from the iterated value"; return false; }
        }
      }
      *v = wire::Value::array(es, kids);
      return true;
    }
    default:
      *problem = "iterator reports type " + std::to_string(t);
      return false;
  }
}

static bool walk(DBusMessageIter *it, std::vector<wire::Value> *out, std::string *problem, int depth) {
  int guard = 0;
  while (dbus_message_iter_get_arg_type(it) != DBUS_TYPE_INVALID) {
    if (++guard > 1000000) { *problem = "iterator does not terminate"; return false; }
    wire::Value v;
    if (!one_value(it, &v, problem, depth)) return false;
    out->push_back(v);
    dbus_message_iter_next(it);
  }
  return true;
}

bool message_via_api(DBusMessage *m, wire::Msg *out, std::string *problem) {
  wire::Msg w;
  w.type = (uint8_t)dbus_message_get_type(m);
  w.serial = dbus_message_get_serial(m);
  w.flags = 0;
  if (dbus_message_get_no_reply(m)) w.flags |= wire::FL_NO_REPLY_EXPECTED;
  if (!dbus_message_get_auto_start(m)) w.flags |= wire::FL_NO_AUTO_START;
  if (dbus_message_get_allow_interactive_authorization(m)) w.flags |= wire::FL_ALLOW_INTERACTIVE_AUTH;
  if (const char *s = dbus_message_get_path(m)) w.set_field(wire::F_PATH, wire::Value::path(s));
  if (const char *s = dbus_message_get_interface(m)) w.set_field(wire::F_INTERFACE, wire::Value::string(s));
  if (const char *s = dbus_message_get_member(m)) w.set_field(wire::F_MEMBER, wire::Value::string(s));
  if (const char *s = dbus_message_get_error_name(m)) w.set_field(wire::F_ERROR_NAME, wire::Value::string(s));
  if (dbus_message_get_reply_serial(m)) w.set_field(wire::F_REPLY_SERIAL, wire::Value::u32(dbus_message_get_reply_serial(m)));
  if (const char *s = dbus_message_get_destination(m)) w.set_field(wire::F_DESTINATION, wire::Value::string(s));
  if (const char *s = dbus_message_get_sender(m)) w.set_field(wire::F_SENDER, wire::Value::string(s));
  if (const char *s = dbus_message_get_container_instance(m)) w.set_field(wire::F_CONTAINER_INSTANCE, wire::Value::path(s));
  const char *sig = dbus_message_get_signature(m);
  w.body_sig = sig ? sig : "";
  DBusMessageIter it;
  std::vector<wire::Value> body;
  if (dbus_message_iter_init(m, &it)) {
    if (!walk(&it, &body, problem, 0)) return false;
  }
  w.body = body;
  *out = w;
  return true;
}

// ------------------------------------------------------------------ LibWorld

static DBusHandlerResult server_filter(DBusConnection *c, DBusMessage *m, void *data) {
  (void)data;
  if (!g_lw) return DBUS_HANDLER_RESULT_NOT_YET_HANDLED;
  for (auto &sc : g_lw->sconns) {
    if (sc.conn != c) continue;
    if (dbus_message_is_signal(m, DBUS_INTERFACE_LOCAL, "Disconnected")) {
      sc.disconnected = true;
      g_lw->tr.ev("app: disconnected");
      return DBUS_HANDLER_RESULT_HANDLED;
    }
    // the application's own use of the API is not what allocation failures are injected into
    int saved_counter = _dbus_get_fail_alloc_counter();
    _dbus_set_fail_alloc_counter(_DBUS_INT_MAX);
    Seen s;
    char *buf = nullptr;
    int len = 0;
    if (dbus_message_marshal(m, &buf, &len)) { s.marshalled.assign(buf, (size_t)len); dbus_free(buf); }
    s.api_ok = message_via_api(m, &s.via_api, &s.api_problem);
    g_lw->tr.ev("app: message type=%d serial=%u len=%d", dbus_message_get_type(m), dbus_message_get_serial(m), len);
    sc.seen.push_back(std::move(s));
    if (g_lw->on_message) g_lw->on_message(c, m);
    _dbus_set_fail_alloc_counter(saved_counter);
    return g_lw->on_message ? DBUS_HANDLER_RESULT_NOT_YET_HANDLED : DBUS_HANDLER_RESULT_HANDLED;
  }
  return DBUS_HANDLER_RESULT_NOT_YET_HANDLED;
}

static dbus_bool_t unix_user_cb(DBusConnection *c, unsigned long uid, void *data) {
  (void)c;
  LibWorld *w = (LibWorld *)data;
  bool ok = w->unix_user_fn ? w->unix_user_fn(uid) : false;
  w->tr.ev("app: unix user function uid=%lu -> %d", uid, (int)ok);
  return ok;
}

static void new_connection(DBusServer *server, DBusConnection *c, void *data) {
  (void)server;
  LibWorld *w = (LibWorld *)data;
  dbus_connection_ref(c);
  ServerConn sc;
  sc.conn = c;
  int fd = -1;
  if (dbus_connection_get_socket(c, &fd)) {
    simk::End *e = K->end_of_fd(fd);
    sc.peer = e ? e->peer : nullptr;
  }
  if (w->max_message_size >= 0) dbus_connection_set_max_message_size(c, w->max_message_size);
  if (w->max_received_size >= 0) dbus_connection_set_max_received_size(c, w->max_received_size);
  dbus_connection_set_allow_anonymous(c, w->counters.count("allow_anonymous") != 0);
  if (w->unix_user_fn) dbus_connection_set_unix_user_function(c, unix_user_cb, w, nullptr);
  if (!dbus_connection_add_filter(c, server_filter, nullptr, nullptr)) harness_error("add_filter OOM");
  if (!setup_connection(w->loop, c)) harness_error("setup_connection OOM");
  w->sconns.push_back(sc);
  w->tr.ev("app: new connection");
}

LibWorld::LibWorld(core::Trace &t, uint64_t seed) : tr(t) {
  simk::kernel_init();
  K->reset(seed);
  K->trace = [this](const char *what, int64_t a, int64_t b) { tr.ev("k %s %lld %lld", what, (long long)a, (long long)b); };
  g_lw = this;
  base_blocks = _dbus_get_malloc_blocks_outstanding();
  loop = _dbus_loop_new();
  if (!loop) harness_error("loop OOM");
}

LibWorld::~LibWorld() {
  _dbus_set_fail_alloc_counter(_DBUS_INT_MAX);
  if (K) K->faults_enabled = false;
  for (auto &sc : sconns) {
    if (!sc.conn) continue;
    dbus_connection_remove_filter(sc.conn, server_filter, nullptr);
    shutdown_connection(sc.conn);
    dbus_connection_close(sc.conn);
    dbus_connection_unref(sc.conn);
    sc.conn = nullptr;
  }
  for (auto *c : clients) {
    shutdown_connection(c);
    dbus_connection_close(c);
    dbus_connection_unref(c);
  }
  clients.clear();
  if (server) {
    dbus_server_set_watch_functions(server, nullptr, nullptr, nullptr, nullptr, nullptr);
    dbus_server_set_timeout_functions(server, nullptr, nullptr, nullptr, nullptr, nullptr);
    dbus_server_disconnect(server);
    dbus_server_unref(server);
    server = nullptr;
  }
  if (loop) { _dbus_loop_unref(loop); loop = nullptr; }
  dbus_shutdown();
  g_lw = nullptr;
  K->trace = nullptr;
  last_stats = K->stats;
  K->reset(1);
}

void LibWorld::start_server(const std::string &mechs, bool allow_anonymous) {
  DBusError err;
  dbus_error_init(&err);
  server = dbus_server_listen("unix:abstract=simlib", &err);
  if (!server) { std::string m = err.message ? err.message : "?"; dbus_error_free(&err); harness_error("dbus_server_listen: %s", m.c_str()); }
  if (allow_anonymous) counters["allow_anonymous"] = 1;
  if (!mechs.empty()) {
    std::vector<std::string> parts;
    size_t i = 0;
    while (i <= mechs.size()) { size_t j = mechs.find(',', i); if (j == std::string::npos) j = mechs.size(); if (j > i) parts.push_back(mechs.substr(i, j - i)); i = j + 1; }
    std::vector<const char *> arr;
    for (auto &p : parts) arr.push_back(p.c_str());
    arr.push_back(nullptr);
    if (!dbus_server_set_auth_mechanisms(server, arr.data())) harness_error("set_auth_mechanisms OOM");
  }
  dbus_server_set_new_connection_function(server, new_connection, this, nullptr);
  if (!dbus_server_set_watch_functions(server, add_watch, remove_watch, toggle_watch, loop, nullptr)) harness_error("server watch OOM");
  if (!dbus_server_set_timeout_functions(server, add_timeout, remove_timeout, nullptr, loop, nullptr)) harness_error("server timeout OOM");
  char *id = dbus_server_get_id(server);
  guid = id ? id : "";
  dbus_free(id);
  tr.ev("server started");
}

int LibWorld::peer_connect(const simk::Creds &creds) {
  simk::End *e = K->actor_connect("@simlib", creds);
  if (!e) harness_error("no listener @simlib");
  peers.push_back(e);
  tr.ev("peer %zu connects uid=%u", peers.size() - 1, creds.uid);
  return (int)peers.size() - 1;
}

void LibWorld::peer_write(int p, const std::string &bytes, std::vector<int> fds) {
  if (bytes.empty()) return;
  K->actor_write(peers[(size_t)p], bytes, std::move(fds));
  tr.ev("peer %d writes %zu", p, bytes.size());
}

std::string LibWorld::peer_read(int p) {
  std::vector<int> fds;
  std::string s = K->actor_read(peers[(size_t)p], (size_t)-1, &fds);
  for (int fd : fds) simk::real_close(fd);
  return s;
}

void LibWorld::peer_close(int p) { K->actor_close(peers[(size_t)p]); tr.ev("peer %d closes", p); }
bool LibWorld::peer_sees_eof(int p) { return K->actor_eof(peers[(size_t)p]); }

ServerConn *LibWorld::conn_of_peer(int p) {
  for (auto &sc : sconns) if (sc.peer == peers[(size_t)p]) return &sc;
  return nullptr;
}

DBusConnection *LibWorld::client_open(const std::string &name) {
  if (!scripted) scripted = K->make_scripted_listener("@" + name);
  DBusError err;
  dbus_error_init(&err);
  DBusConnection *c = dbus_connection_open_private(("unix:abstract=" + name).c_str(), &err);
  if (!c) { dbus_error_free(&err); return nullptr; }
  dbus_connection_set_exit_on_disconnect(c, FALSE);
  if (!setup_connection(loop, c)) harness_error("setup_connection OOM");
  clients.push_back(c);
  return c;
}

int LibWorld::iterate(int iters, uint64_t io_seed, const simk::IoProfile &prof, int oom_at) {
  K->io = prof;
  K->io_rng = simk::Rng(io_seed);
  const int big = 1 << 30;
  if (oom_at >= 0) _dbus_set_fail_alloc_counter(oom_at);
  else _dbus_set_fail_alloc_counter(big);
  int worked = 0;
  for (int i = 0; i < iters; i++) {
    tr.ev("iter");
    if (_dbus_loop_iterate(loop, FALSE)) worked++;
  }
  if (oom_at >= 0) {
    if (_dbus_get_fail_alloc_counter() > oom_at) counters["oom_fired"]++;
  } else last_alloc_count = big - _dbus_get_fail_alloc_counter();
  _dbus_set_fail_alloc_counter(_DBUS_INT_MAX);
  K->io = simk::IoProfile();
  return worked;
}

void LibWorld::settle() {
  bool saved = K->faults_enabled;
  K->faults_enabled = false;
  simk::IoProfile none;
  int idle = 0, guard = 0;
  while (idle < 3) {
    if (++guard > 200000) fail("nonquiescent", "the library's main loop keeps reporting work with no input (spin)");
    if (iterate(1, 1, none)) idle = 0; else idle++;
  }
  K->faults_enabled = saved;
}

void LibWorld::advance_ms(int64_t ms) { K->advance_ms(ms); tr.ev("adv %lld", (long long)ms); }

void LibWorld::detach_from_loop(DBusConnection *c) { shutdown_connection(c); }

void LibWorld::poke_dispatch(DBusConnection *c) {
  if (dbus_connection_get_dispatch_status(c) == DBUS_DISPATCH_DATA_REMAINS)
    while (!_dbus_loop_queue_dispatch(loop, c)) {}
}

void LibWorld::stop() {
  K->faults_enabled = false;
  _dbus_set_fail_alloc_counter(_DBUS_INT_MAX);
  for (size_t p = 0; p < peers.size(); p++) if (peers[p]->open) K->actor_close(peers[p]);
  settle();
  for (auto &sc : sconns) {
    if (!sc.conn) continue;
    dbus_connection_remove_filter(sc.conn, server_filter, nullptr);
    shutdown_connection(sc.conn);
    dbus_connection_close(sc.conn);
    dbus_connection_unref(sc.conn);
    sc.conn = nullptr;
  }
  for (auto *c : clients) {
    shutdown_connection(c);
    dbus_connection_close(c);
    dbus_connection_unref(c);
  }
  clients.clear();
  if (server) {
    dbus_server_set_watch_functions(server, nullptr, nullptr, nullptr, nullptr, nullptr);
    dbus_server_set_timeout_functions(server, nullptr, nullptr, nullptr, nullptr, nullptr);
    dbus_server_disconnect(server);
    dbus_server_unref(server);
    server = nullptr;
  }
  _dbus_loop_unref(loop);
  loop = nullptr;
  dbus_shutdown();
  int blocks = _dbus_get_malloc_blocks_outstanding();
  if (blocks != base_blocks) fail("leak:blocks", "%d dbus_malloc blocks outstanding after the library was shut down (baseline %d)", blocks, base_blocks);
  if (K->sut_open_sim_fds() != 0) fail("leak:fd", "%d simulated descriptors still open after shutdown", K->sut_open_sim_fds());
  for (auto &in : K->installed)
    if (in.open) fail("leak:passed-fd", "a descriptor received over SCM_RIGHTS (tag %llu) was never closed", (unsigned long long)in.tag);
}

}  // namespace lw
