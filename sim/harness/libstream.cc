// sim/harness/libstream.cc — C01 / C11: untrusted byte streams through the real
// connection loader (DBusServer + accepted DBusConnection), chunked and faulted,
// judged by the independent codec; metamorphic control: the same stream unsplit.
#include <stdio.h>
#include <stdlib.h>
#include <string.h>

#include <algorithm>
#include <set>

#include "codec/corrupt.h"
#include "codec/gen.h"
#include "codec/wire.h"
#include "core/core.h"
#include "harness/libchecks.h"
#include "harness/libworld.h"
#include "kernel/kernel.h"

extern "C" {
#include <dbus/dbus.h>
}

using core::fail;
using core::Plan;
using core::Step;
using simk::K;

namespace libchecks {

// ------------------------------------------------------------------ comparing API view with independent decode

static bool value_equiv(const wire::Value &api, const wire::Value &dec, std::string *why) {
  if (api.type != dec.type) { *why = std::string("type ") + api.type + " vs " + dec.type; return false; }
  switch (api.type) {
    case 'h': return true;   // the iterator exposes a descriptor, not the index
    case 's': case 'o': case 'g':
      if (api.str != dec.str) { *why = "string value differs: api=" + api.repr() + " decoded=" + dec.repr(); return false; }
      return true;
    case 'a': case 'r': case 'e': case 'v':
      if (api.type == 'a' && api.sig != dec.sig) { *why = "array element signature " + api.sig + " vs " + dec.sig; return false; }
      if (api.kids.size() != dec.kids.size()) { *why = "container arity " + std::to_string(api.kids.size()) + " vs " + std::to_string(dec.kids.size()); return false; }
      for (size_t i = 0; i < api.kids.size(); i++) if (!value_equiv(api.kids[i], dec.kids[i], why)) return false;
      return true;
    case 'b':
      if ((api.u != 0) != (dec.u != 0)) { *why = "boolean differs"; return false; }
      return true;
    default:
      if (api.u != dec.u) { *why = "value differs: api=" + api.repr() + " decoded=" + dec.repr(); return false; }
      return true;
  }
}

bool api_equals_decode(const wire::Msg &api, const wire::Msg &dec, std::string *why) {
  if (api.type != dec.type) { *why = "message type"; return false; }
  if (api.serial != dec.serial) { *why = "serial"; return false; }
  if ((api.flags & 7) != (dec.flags & 7)) { *why = "flags"; return false; }
  for (uint8_t code : {wire::F_PATH, wire::F_INTERFACE, wire::F_MEMBER, wire::F_ERROR_NAME, wire::F_DESTINATION, wire::F_SENDER, wire::F_CONTAINER_INSTANCE}) {
    if (api.has_field(code) != dec.has_field(code)) { *why = "presence of header field " + std::to_string(code); return false; }
    if (api.str_field(code) != dec.str_field(code)) { *why = "value of header field " + std::to_string(code) + ": api '" + api.str_field(code) + "' decoded '" + dec.str_field(code) + "'"; return false; }
  }
  if (api.reply_serial() != dec.reply_serial()) { *why = "reply serial"; return false; }
  if (api.body_sig != dec.body_sig) { *why = "signature: api '" + api.body_sig + "' decoded '" + dec.body_sig + "'"; return false; }
  if (api.body.size() != dec.body.size()) { *why = "number of body values"; return false; }
  for (size_t i = 0; i < api.body.size(); i++)
    if (!value_equiv(api.body[i], dec.body[i], why)) { *why = "body value " + std::to_string(i) + ": " + *why; return false; }
  return true;
}

// ------------------------------------------------------------------ splitting a stream with the codec

struct Split {
  std::vector<std::string> valid;      // complete valid messages, in order
  std::vector<wire::Msg> decoded;
  bool invalid = false;                // a complete invalid message follows the valid prefix
  bool invalid_early = false;          // the codec can already tell from a prefix (insane length words), the message itself is incomplete:
                                       // no message may be produced, whether the connection is declared corrupt now is not asserted
  std::string reason;
  std::string offending;               // bytes from the offending message on
};

Split split_stream(const std::string &s, long max_message_size) {
  Split sp;
  wire::Limits lim;
  if (max_message_size >= 0) lim.max_message_size = (uint32_t)max_message_size;
  lim.max_unix_fds_available = 0;
  size_t pos = 0;
  while (pos < s.size()) {
    wire::ParseResult r = wire::parse(reinterpret_cast<const uint8_t *>(s.data()) + pos, s.size() - pos, lim);
    if (r.status == wire::P_OK) {
      sp.valid.push_back(s.substr(pos, r.total_len));
      sp.decoded.push_back(r.msg);
      pos += r.total_len;
      continue;
    }
    if (r.status == wire::P_INVALID) {
      sp.reason = r.reason;
      sp.offending = s.substr(pos);
      if (r.total_len == 0 || r.total_len > s.size() - pos) sp.invalid_early = true; else sp.invalid = true;
    }
    break;
  }
  return sp;
}

// the offending message cut to its own declared length (what follows it in the stream is not part of the question)
static std::string offending_message(const Split &sp) {
  wire::ParseResult r = wire::parse(sp.offending);
  if (r.total_len > 0 && r.total_len <= sp.offending.size()) return sp.offending.substr(0, r.total_len);
  return sp.offending;
}

// Which listed finding (known_findings.json ids, passed in SIM_KNOWN) explains this disagreement, if any.
static std::string known_gap(const std::set<std::string> &known, bool lib_accepted, const std::string &reason, const wire::Msg *m, const std::string &offending = std::string(), long maxmsg = -1) {
  auto has = [&](const char *id) { return known.count(id) ? std::string(id) : std::string(); };
  if (lib_accepted) {
    // the two listed validator findings are recognised by their exact condition: the offending message would be
    // valid if - and only if - the reference's deviation were the rule (dict entries on a nesting budget of their
    // own; unique names of a single element).  Any other defect of a signature or a name is not covered.
    wire::Limits lim;
    if (maxmsg >= 0) lim.max_message_size = (uint32_t)maxmsg;
    if (reason == "array-len-multiple") return has("C01-fixed-array-length-not-multiple");
    if ((reason == "sig" || reason == "variant-sig" || reason == "field-sig") && !offending.empty() && wire::valid_if_relaxed(offending, 1, lim)) return has("C01-signature-nesting-or-brackets");
    if ((reason == "field-value" || reason == "name") && !offending.empty() && wire::valid_if_relaxed(offending, 2, lim)) return has("C01-unique-name-without-period");
    return "";
  }
  if (m) {
    std::string i = m->interface(), p = m->path();
    if ((i.compare(0, 26, "org.freedesktop.DBus.Local") == 0 && i != "org.freedesktop.DBus.Local") ||
        (p.compare(0, 27, "/org/freedesktop/DBus/Local") == 0 && p != "/org/freedesktop/DBus/Local"))
      return has("C01-local-name-compared-as-prefix");
  }
  return "";
}

// ------------------------------------------------------------------ executor

core::RunResult run_stream(const Plan &plan, bool log) {
  core::RunResult res;
  core::Trace tr;
  tr.reset(log);
  std::map<std::string, uint64_t> counters;
  std::string hist;
  std::set<std::string> known;
  if (const char *kn = getenv("SIM_KNOWN")) {
    std::string s = kn;
    size_t i = 0;
    while (i <= s.size()) { size_t j = s.find(',', i); if (j == std::string::npos) j = s.size(); if (j > i) known.insert(s.substr(i, j - i)); i = j + 1; }
  }
  try {
    if (plan.C("huge", 0)) {
      // The size dimension the streams cannot reach: a container array whose length word is at / just above the
      // 2^26-byte array limit is only judged once the whole message (> 64 MiB) is there.  Built by hand (two inner
      // byte arrays inside an 'aay'), handed to dbus_message_demarshal - the validator the loader uses too.
      long delta = plan.C("huge.delta", 0);                 // outer array length = 2^26 + delta (delta a multiple of 4)
      simk::kernel_init();
      wire::Msg hm = wire::Msg::signal(7, "/o", "a.b", "M", {wire::Value::array("ay", {})});
      hm.set_field(wire::F_SIGNATURE, wire::Value::sigval("aay"));
      std::string head = wire::marshal(hm);
      size_t hdr_len = head.size() - 4;                      // the empty outer array contributed its 4-byte length word
      const uint32_t outer = (uint32_t)((1u << 26) + delta);
      // outer content: [len1][L1 bytes][pad to 4][len2][L2 bytes], L1 = 2^25 - 4 (so the second length word stays aligned)
      const uint32_t l1 = (1u << 25) - 4, l2 = outer - 4 - l1 - 4;
      std::string msg;
      msg.reserve(hdr_len + 4 + outer);
      msg.assign(head, 0, hdr_len);
      auto put32 = [&](uint32_t v) { char b[4]; memcpy(b, &v, 4); if (hm.big_endian) std::swap(b[0], b[3]), std::swap(b[1], b[2]); msg.append(b, 4); };
      put32(outer); put32(l1); msg.append(l1, 'x'); put32(l2); msg.append(l2, 'y');
      uint32_t body_len = 4 + outer;
      memcpy(&msg[4], &body_len, 4);
      DBusError err;
      dbus_error_init(&err);
      DBusMessage *dm = dbus_message_demarshal(msg.data(), (int)msg.size(), &err);
      bool accepted = dm != nullptr;
      if (dm) dbus_message_unref(dm); else dbus_error_free(&err);
      counters["probe:huge_array_message"]++;
      counters["messages_compared"]++;
      hist = "an 'aay' whose outer array is 2^26" + std::string(delta ? "+" + std::to_string(delta) : "") + " bytes long";
      if (delta > 0 && accepted) fail("oracle:C01:accepted-invalid", "dbus_message_demarshal accepts a message whose array is %u bytes long (the limit is 2^26)", outer);
      if (delta <= 0 && !accepted) fail("oracle:C01:rejected-valid", "dbus_message_demarshal rejects a message whose array is exactly %u bytes long", outer);
      dbus_shutdown();
      res.hash = tr.h;
      res.counters = counters;
      res.nontrivial = true;
      res.sample = hist;
      return res;
    }
    lw::LibWorld w(tr, plan.seed);
    long maxmsg = plan.C("maxmsg", -1);
    w.max_message_size = maxmsg;
    K->sut_read_limit = (int)plan.C("knob.read_limit", 0);
    w.start_server();
    std::string stream;
    for (auto &s : plan.steps) if (s.t == "stream") stream += s.S(0);
    unsigned uid = (unsigned)plan.C("uid", 0);
    simk::Creds cr;
    cr.uid = uid; cr.gid = uid; cr.groups = {uid};
    K->self.uid = uid;   // the server runs as that user, so EXTERNAL admits the peer
    std::string hs(1, '\0');
    hs += "AUTH EXTERNAL " + wire::hex_encode(std::to_string(uid)) + "\r\nBEGIN\r\n";
    std::string blob = hs + stream;
    size_t pos = 0;
    int p0 = w.peer_connect(cr);
    w.iterate(2, 1, simk::IoProfile());   // accept() fault-free: a connection lost to an allocation failure in accept is not this check's subject
    if (plan.C("hs_separate", 0)) {
      // handshake first, in one piece; the message stream starts in its own write
      w.peer_write(p0, hs);
      pos = hs.size();
      w.iterate(3, 1, simk::IoProfile());
    }
    for (auto &s : plan.steps) {
      if (s.t == "feed") {
        size_t n = std::min<size_t>((size_t)s.N(0, 1), blob.size() - pos);
        w.peer_write(p0, blob.substr(pos, n));
        pos += n;
      } else if (s.t == "run") {
        simk::IoProfile pr;
        pr.short_read_pct = (unsigned)s.N(2); pr.one_byte_read_pct = (unsigned)s.N(3); pr.eagain_read_pct = (unsigned)s.N(4);
        pr.eintr_pct = (unsigned)s.N(5); pr.poll_subset_pct = (unsigned)s.N(6); pr.accept_eagain_pct = (unsigned)s.N(7);
        // allocation failures are injected into the message loader, i.e. once the peer is authenticated
        // (a connection lost to an allocation failure during the handshake is a legitimate failure)
        int oom = (int)s.N(8, -1);
        lw::ServerConn *sc = w.conn_of_peer(p0);
        if (oom >= 0 && !(sc && sc->conn && dbus_connection_get_is_authenticated(sc->conn))) oom = -1;
        w.iterate((int)s.N(0, 1), (uint64_t)s.N(1, 1), pr, oom);
      } else if (s.t == "stream") {
      } else core::harness_error("unknown step %s", s.t.c_str());
    }
    if (pos < blob.size()) w.peer_write(p0, blob.substr(pos));
    w.settle();
    // control: the same bytes, unsplit, fault-free
    int p1 = w.peer_connect(cr);
    w.peer_write(p1, blob);
    w.settle();

    Split sp = split_stream(stream, maxmsg);
    hist = "stream of " + std::to_string(stream.size()) + " bytes: " + std::to_string(sp.valid.size()) + " valid messages" +
           (sp.invalid ? ", then an invalid one (" + sp.reason + ")" : "") + ", delivered in " + std::to_string(plan.steps.size()) + " steps";
    lw::ServerConn *a = w.conn_of_peer(p0), *b = w.conn_of_peer(p1);
    if (!a || !b) fail("oracle:C08:not-accepted", "a peer presenting the server owner's credentials with EXTERNAL was not accepted");
    bool tainted = false;
    for (int which = 0; which < 2; which++) {
      lw::ServerConn *c = which ? b : a;
      const char *label = which ? "unsplit control" : "chunked";
      size_t n = c->seen.size();
      for (size_t i = 0; i < std::min(n, sp.valid.size()); i++) {
        counters["messages_compared"]++;
        if (c->seen[i].marshalled != sp.valid[i])
          fail("oracle:C01:content", "%s: message %zu as re-marshalled by the library differs from the bytes received", label, i);
        if (!c->seen[i].api_ok)
          fail("oracle:C01:accessor", "%s: message %zu: %s", label, i, c->seen[i].api_problem.c_str());
        std::string why;
        if (!api_equals_decode(c->seen[i].via_api, sp.decoded[i], &why))
          fail("oracle:C01:accessor", "%s: message %zu read through the public API differs from the independent decoding: %s", label, i, why.c_str());
      }
      if (n > sp.valid.size()) {
        std::string id = sp.invalid ? known_gap(known, true, sp.reason, nullptr, offending_message(sp), maxmsg) : "";
        if (!id.empty()) { counters["finding:" + id]++; tainted = true; continue; }
        fail("oracle:C01:accepted-invalid", "%s: the library produced %zu messages, the stream holds %zu valid ones%s", label, n, sp.valid.size(),
             sp.invalid ? (" followed by an invalid message (" + sp.reason + ")").c_str() : " followed by an incomplete one");
      }
      if (n < sp.valid.size()) {
        std::string id = known_gap(known, false, "", &sp.decoded[n]);
        if (!id.empty()) { counters["finding:" + id]++; tainted = true; continue; }
        fail(which ? "oracle:C01:rejected-valid" : "oracle:C11:lost-message", "%s: only %zu of %zu valid messages were delivered (%s)", label, n, sp.valid.size(),
             c->disconnected ? "then the connection was declared corrupt" : "connection still open");
      }
      if (sp.invalid && !c->disconnected) {
        std::string id = known_gap(known, true, sp.reason, nullptr, offending_message(sp), maxmsg);
        if (!id.empty()) { counters["finding:" + id]++; tainted = true; continue; }
        fail("oracle:C01:accepted-invalid", "%s: the stream contains an invalid message (%s) but the connection was not declared corrupt", label, sp.reason.c_str());
      }
      if (!sp.invalid && !sp.invalid_early && c->disconnected)
        fail(which ? "oracle:C01:rejected-valid" : "oracle:C11:spurious-corruption", "%s: the connection was declared corrupt although every complete message in the stream is valid", label);
    }
    // the other entry point, dbus_message_demarshal(), must give the same verdicts on single messages
    for (size_t i = 0; i < sp.valid.size(); i++) {
      DBusError err;
      dbus_error_init(&err);
      int need = dbus_message_demarshal_bytes_needed(sp.valid[i].data(), (int)sp.valid[i].size());
      if (need != (int)sp.valid[i].size()) fail("oracle:C01:demarshal", "dbus_message_demarshal_bytes_needed says %d for a valid message of %zu bytes", need, sp.valid[i].size());
      DBusMessage *m = dbus_message_demarshal(sp.valid[i].data(), (int)sp.valid[i].size(), &err);
      if (!m) {
        std::string em = err.message ? err.message : "";
        dbus_error_free(&err);
        std::string id = known_gap(known, false, "", &sp.decoded[i]);
        if (!id.empty()) { counters["finding:" + id]++; continue; }
        if (maxmsg >= 0) continue;   // demarshal knows nothing of the connection's configured maximum
        fail("oracle:C01:demarshal", "dbus_message_demarshal rejects valid message %zu (%s)", i, em.c_str());
      }
      wire::Msg via;
      std::string problem, why;
      if (!lw::message_via_api(m, &via, &problem)) { dbus_message_unref(m); fail("oracle:C01:accessor", "demarshalled message %zu: %s", i, problem.c_str()); }
      bool same = api_equals_decode(via, sp.decoded[i], &why);
      dbus_message_unref(m);
      if (!same) fail("oracle:C01:accessor", "demarshalled message %zu read through the public API differs from the independent decoding: %s", i, why.c_str());
      counters["demarshal_compared"]++;
    }
    if (sp.invalid && maxmsg < 0) {
      // the offending message, cut to its own declared length
      wire::ParseResult r = wire::parse(sp.offending);
      if (r.status == wire::P_INVALID && r.total_len > 0 && r.total_len <= sp.offending.size()) {
        DBusError err;
        dbus_error_init(&err);
        DBusMessage *m = dbus_message_demarshal(sp.offending.data(), (int)r.total_len, &err);
        if (m) {
          dbus_message_unref(m);
          std::string id = known_gap(known, true, sp.reason, nullptr, offending_message(sp), maxmsg);
          if (!id.empty()) counters["finding:" + id]++;
          else fail("oracle:C01:demarshal", "dbus_message_demarshal accepts a message the independent codec rejects (%s)", sp.reason.c_str());
        } else dbus_error_free(&err);
        counters["demarshal_compared"]++;
      }
    }
    // metamorphic: chunking changes nothing
    if (!tainted) {
      if (a->seen.size() != b->seen.size() || (a->disconnected != b->disconnected && !sp.invalid_early))
        fail("oracle:C11:chunking-dependent", "chunked delivery gave %zu messages (corrupt=%d), unsplit delivery %zu (corrupt=%d)", a->seen.size(), a->disconnected, b->seen.size(), b->disconnected);
      for (size_t i = 0; i < a->seen.size(); i++)
        if (a->seen[i].marshalled != b->seen[i].marshalled) fail("oracle:C11:chunking-dependent", "message %zu differs between chunked and unsplit delivery", i);
    }
    // ---- the writing side of C11: the same valid messages, sent by the library to a third peer through short
    // writes, EAGAIN and EINTR; whatever the write boundaries, the peer must read exactly these bytes, in order
    if (plan.prop == "C11" && plan.C("wr.on", 0) && !sp.valid.empty()) {
      int p2 = w.peer_connect(cr);
      w.iterate(2, 1, simk::IoProfile());
      w.peer_write(p2, hs);
      w.settle();
      lw::ServerConn *wc = w.conn_of_peer(p2);
      if (!wc || !wc->conn || !dbus_connection_get_is_authenticated(wc->conn)) fail("oracle:C08:not-accepted", "the third peer was not accepted");
      std::string auth_reply = w.peer_read(p2);      // the handshake's replies: not part of the message stream
      (void)auth_reply;
      if (plan.C("wr.rxcap", 0) > 0) wc->peer->rxcap = (size_t)plan.C("wr.rxcap", 0);
      std::string want, got;
      simk::Rng wr((uint64_t)plan.C("wr.seed", 1));
      size_t sent = 0;
      for (auto &bytes : sp.valid) {
        wire::ParseResult pr = wire::parse(bytes);
        if (pr.status != wire::P_OK || pr.msg.has_field(wire::F_UNIX_FDS)) continue;
        DBusError err;
        dbus_error_init(&err);
        DBusMessage *m = dbus_message_demarshal(bytes.data(), (int)bytes.size(), &err);
        if (!m) { dbus_error_free(&err); continue; }
        if (!dbus_connection_send(wc->conn, m, nullptr)) { dbus_message_unref(m); continue; }
        dbus_message_unref(m);
        want += bytes;
        sent++;
        if (wr.pct(60)) {
          simk::IoProfile pr2;
          pr2.short_write_pct = (unsigned)plan.C("wr.short", 0); pr2.eagain_write_pct = (unsigned)plan.C("wr.eagain", 0); pr2.eintr_pct = (unsigned)plan.C("wr.eintr", 0);
          w.iterate(1 + (int)wr.below(2), wr.next(), pr2);
          if (wr.pct(50)) got += w.peer_read(p2);
        }
      }
      for (int round = 0; round < 2000 && got.size() < want.size(); round++) {
        simk::IoProfile pr2;
        pr2.short_write_pct = (unsigned)plan.C("wr.short", 0); pr2.eagain_write_pct = (unsigned)plan.C("wr.eagain", 0);
        w.iterate(2, wr.next(), pr2);
        got += w.peer_read(p2);
      }
      w.settle();
      got += w.peer_read(p2);
      counters["probe:writer_messages_sent"] += sent;
      if (got != want) {
        size_t d = 0;
        while (d < got.size() && d < want.size() && got[d] == want[d]) d++;
        fail("oracle:C11:written-stream-differs", "the library sent %zu messages (%zu bytes) through partial writes; the peer read %zu bytes, first difference at offset %zu", sent, want.size(), got.size(), d);
      }
    }
    counters["streams"]++;
    if (sp.invalid) counters["probe:stream_with_invalid_message"]++;
    if (sp.valid.size() >= 2) counters["probe:multi_message_stream"]++;
    for (auto &kv : w.counters) counters[kv.first] += kv.second;
    w.stop();
  } catch (core::Violation &v) {
    res.ok = false;
    res.cls = v.cls;
    res.detail = v.detail;
  }
  res.hash = tr.h;
  res.counters = counters;
  uint64_t faults = 0;
  for (auto &kv : lw::last_stats.faults) { res.counters["fault:" + kv.first] += kv.second; faults += kv.second; }
  res.counters["sut_bytes_read"] = lw::last_stats.bytes_sut_read;
  res.nontrivial = (faults > 0 || plan.steps.size() > 3) && counters["messages_compared"] > 0;
  res.sample = hist;
  if (tr.keep_text) res.sample = tr.text + "HISTORY " + hist + "\n";
  return res;
}

// ------------------------------------------------------------------ generator

static std::string corrupt_bytes(wiregen::Rng &r, std::string b) {
  if (b.size() < 16) return b;
  int k = (int)r.below(8);
  switch (k) {
    case 0: b[r.below((uint32_t)b.size())] ^= (char)(1 << r.below(8)); break;
    case 1: { uint32_t v; memcpy(&v, &b[4], 4); v += r.chance(50) ? 1 : 0xffffffffu; memcpy(&b[4], &v, 4); break; }     // body length +-1
    case 2: { uint32_t v; memcpy(&v, &b[12], 4); v += r.chance(50) ? 1 : 0xffffffffu; memcpy(&b[12], &v, 4); break; }   // field array length +-1
    case 3: { static const uint32_t vals[] = {0xffffffffu, 0x08000000u, 0x08000001u, 0x04000001u, 0x7fffffffu}; uint32_t v = vals[r.below(5)]; memcpy(&b[r.chance(50) ? 4 : 12], &v, 4); break; }
    case 4: b[0] = r.chance(50) ? 'b' : 'L'; break;
    case 5: { size_t i = 16 + r.below((uint32_t)b.size() - 16); b[i] = (char)r.next(); break; }
    case 6: b += std::string(1 + r.below(8), (char)r.next()); break;           // bytes that start a bogus next message
    default: { size_t i = r.below((uint32_t)b.size()); b.insert(i, 1, (char)r.next()); break; }
  }
  return b;
}

static wire::Msg targeted(wiregen::Rng &r) {
  // shapes tied to one rule of the specification each
  using wire::Value;
  wire::Msg m = wire::Msg::signal(1 + r.below(1000), "/a", "a.b", "M");
  int k = (int)r.below(10);
  switch (k) {
    case 7: case 8: case 9: {
      // value nesting around the limit of 64 containers in total: chains of variants (each level may also be
      // wrapped in a struct or array) with a basic or a container value innermost; the codec says which are valid
      int levels = 58 + (int)r.below(10);
      int inner = (int)r.below(4);
      Value v = inner == 0 ? Value::i32(7) : inner == 1 ? Value::strukt({Value::i32(7)}) : inner == 2 ? Value::array("i", {Value::i32(7)}) : Value::strukt({Value::strukt({Value::i32(7)})});
      int wrap_every = r.chance(50) ? 0 : 8 + (int)r.below(20);
      for (int i = 0; i < levels; i++) {
        v = Value::variant(v);
        if (wrap_every && i % wrap_every == wrap_every - 1) v = r.chance(50) ? Value::strukt({v}) : Value::array("v", {v});
      }
      if (v.type != 'v') v = Value::variant(v);
      m.set_body({v});
      if (r.chance(50)) m.big_endian = true;
      break;
    }
    case 0: m.set_field(wire::F_INTERFACE, Value::string(r.chance(50) ? "org.freedesktop.DBus.Localx" : "org.freedesktop.DBus.Local.y")); break;   // valid: only the exact name is reserved
    case 1: m.set_field(wire::F_PATH, Value::path(r.chance(50) ? "/org/freedesktop/DBus/Locale" : "/org/freedesktop/DBus/Local/x")); break;
    case 2: m.set_field(wire::F_INTERFACE, Value::string("org.freedesktop.DBus.Local")); break;                                                  // invalid (reserved)
    case 3: { m.big_endian = true; m.set_body({Value::u32(7), Value::array("q", {Value::u16(1), Value::u16(2)}), Value::string("be")}); break; }
    case 4: {
      // signature nesting around the limits (32 arrays, 32 structs, 64 in total, dict entries counting as structs):
      // the codec says which are valid; the reference's separate budget for dict entries is a listed finding
      if (r.chance(30)) { std::string open(32, '('), close(32, ')'); m.set_body({Value::sigval(open + "i" + close)}); break; }                   // 32 structs: allowed
      if (r.chance(25)) {
        // dict entries nested around 32 deep (alone, or inside a few structs)
        int nd = 29 + (int)r.below(6), pre = r.chance(50) ? 0 : (int)r.below(4);
        std::string sig = std::string(pre, '(');
        for (int i = 0; i < nd; i++) sig += "a{s";
        sig += "i";
        for (int i = 0; i < nd; i++) sig += "}";
        sig += std::string(pre, ')');
        m.set_body({Value::sigval(sig)});
        break;
      }
      int ns = 29 + (int)r.below(5), na = r.chance(40) ? 0 : 28 + (int)r.below(6);
      static const char *inner[] = {"i", "a{sv}", "a{sa{sv}}", "a{s(i)}", "(a{sv})"};
      std::string sig = std::string(ns, '(') + std::string(na, 'a') + inner[r.below(5)] + std::string(ns, ')');
      m.set_body({Value::sigval(sig)});
      break;
    }
    case 5: { m.set_body({Value::sigval(std::string(32, 'a') + "i")}); break; }                                                                  // 32 arrays: allowed
    default: {
      // unique names, valid and nearly valid (the codec says which; the reference's lax grammar is a listed finding)
      static const char *un[] = {":1.0", ":1.0", ":1", ":", ":.1", ":1..2", ":1.", ":1.2.", ":1.2..3", ":a.b/c", ":1. 2", "::1.2", ":-._"};
      m.set_field(wire::F_DESTINATION, Value::string(un[r.below(13)]));
      m.set_field(wire::F_SENDER, Value::string(r.chance(70) ? ":a-b.c_d" : un[r.below(13)]));
      break;
    }
  }
  return m;
}

Plan gen_stream(const std::string &prop, uint64_t seed, bool th) {
  wiregen::Rng r(seed * 2654435761u + 17);
  Plan p;
  p.prop = prop;
  p.seed = seed;
  if (prop == "C01" && r.below(th ? 2000 : 6000) == 0) {
    p.cfg["huge"] = "1";
    p.cfg["huge.delta"] = r.chance(30) ? "0" : (r.chance(50) ? "4" : std::to_string(4 * (1 + r.below(1000))));
    return p;
  }
  if (r.chance(35)) p.cfg["maxmsg"] = std::to_string(64 + r.below(th ? 200000 : 4000));
  if (r.chance(40)) p.cfg["knob.read_limit"] = std::to_string(1 + r.below(64));
  if (r.chance(50)) p.cfg["hs_separate"] = "1";
  if (r.chance(20)) p.cfg["uid"] = "1000";
  if (prop == "C11" && r.chance(45)) {
    // the writing side too: the valid messages are sent back out to another peer through faulty writes
    p.cfg["wr.on"] = "1";
    p.cfg["wr.seed"] = std::to_string(r.next() & 0x7fffffff);
    p.cfg["wr.short"] = std::to_string(r.chance(80) ? 10 + r.below(80) : 0);
    p.cfg["wr.eagain"] = std::to_string(r.chance(50) ? r.below(40) : 0);
    p.cfg["wr.eintr"] = std::to_string(r.chance(30) ? r.below(20) : 0);
    if (r.chance(50)) p.cfg["wr.rxcap"] = std::to_string(8 + r.below(300));   // a peer with a tiny socket buffer: every write is short
  }
  wiregen::MsgOpts mo;
  mo.nonzero_unix_fds = r.chance(15);
  mo.fd_type = r.chance(30);
  int nvalid = (int)r.below(prop == "C11" ? 9 : 7);
  bool corrupt = r.chance(prop == "C11" ? 35 : 60);
  int corrupt_at = corrupt ? (int)r.below((uint32_t)nvalid + 1) : -1;
  std::string stream;
  std::vector<size_t> valid_sizes;
  for (int i = 0; i <= nvalid; i++) {
    if (i == corrupt_at) {
      wire::Msg m = r.chance(20) ? targeted(r) : wiregen::gen_msg(r, mo);
      int how = (int)r.below(100);
      if (how < 45) stream += wiregen::corrupt_structured(r, m);
      else if (how < 85) stream += corrupt_bytes(r, wire::marshal(m));
      else { std::string b = wire::marshal(m); stream += b.substr(0, r.below((uint32_t)b.size())); break; }   // truncated: nothing may follow that would complete it... more bytes do follow below
    }
    if (i == nvalid) break;
    wire::Msg m = r.chance(12) ? targeted(r) : wiregen::gen_msg(r, mo);
    if (th && r.chance(3)) { std::vector<wire::Value> big; big.push_back(wire::Value::array("y", std::vector<wire::Value>(1000 + r.below(60000), wire::Value::byte(1)))); m.set_body(big); }
    std::string mb = wire::marshal(m);
    valid_sizes.push_back(mb.size());
    stream += mb;
  }
  // the size limit right at one of the messages: that message is 0..8 bytes longer than allowed, or just fits
  // (whatever the alignment of its header's end - the padding between header and body counts)
  if (!valid_sizes.empty() && r.chance(25)) {
    long sz = (long)valid_sizes[r.below((uint32_t)valid_sizes.size())] - (long)r.below(12) + 3;
    if (sz >= 24) p.cfg["maxmsg"] = std::to_string(sz);
  }
  Step st;
  st.t = "stream";
  st.s.push_back(stream);
  p.steps.push_back(st);
  // schedule: cuts and loop iterations
  size_t total = stream.size() + 40;
  int style = (int)r.below(100);
  auto run = [&](int iters) {
    Step s;
    s.t = "run";
    s.n = {iters, (int64_t)(r.next() & 0x7fffffff), r.chance(40) ? (int64_t)r.below(40) : 0, r.chance(30) ? (int64_t)r.below(30) : 0, r.chance(25) ? (int64_t)r.below(15) : 0,
           r.chance(25) ? (int64_t)r.below(10) : 0, r.chance(20) ? (int64_t)r.below(30) : 0, r.chance(20) ? (int64_t)r.below(30) : 0,
           r.chance(prop == "C01" ? 12 : 6) ? (int64_t)r.below(60) : -1};
    p.steps.push_back(s);
  };
  auto feed = [&](size_t n) { Step s; s.t = "feed"; s.n = {(int64_t)n}; p.steps.push_back(s); };
  if (style < 15 && total < 600) {
    for (size_t i = 0; i < total; i++) { feed(1); if (r.chance(60)) run(1); }        // one byte at a time
  } else if (style < 35) {
    feed(1 + r.below((uint32_t)total));                                                 // a single cut
    run(1 + (int)r.below(3));
  } else if (style < 50) {
    // cuts biased to the fixed header, the end of the field array, padding and body start of some message
    size_t off = 0;
    for (int k = 0; k < 6 && off < total; k++) { size_t n = 1 + r.below(20); feed(n); off += n; if (r.chance(70)) run(1); }
  } else {
    size_t off = 0;
    int cuts = 1 + (int)r.below(th ? 40 : 12);
    for (int k = 0; k < cuts && off < total; k++) {
      size_t n = r.chance(30) ? 1 + r.below(17) : 1 + r.below((uint32_t)std::max<size_t>(total / 2, 2));
      feed(n);
      off += n;
      if (r.chance(75)) run(1 + (int)r.below(3));
    }
  }
  return p;
}

}  // namespace libchecks
