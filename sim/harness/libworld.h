// sim/harness/libworld.h — a real libdbus endpoint (DBusServer / DBusConnection,
// transport, auth, loader, pending calls, object tree) driven by an application
// main loop the harness owns, against scripted wire peers, under the simulated kernel.
#pragma once
#include <functional>
#include <map>
#include <string>
#include <vector>

#include "codec/wire.h"
#include "core/core.h"
#include "kernel/kernel.h"

struct DBusServer;
struct DBusConnection;
struct DBusMessage;
struct DBusLoop;

namespace lw {

// What the application saw of one received message, through the public API only.
struct Seen {
  std::string marshalled;        // dbus_message_marshal() taken before any iterator touched it
  wire::Msg via_api;             // rebuilt from getters + iterator walk (unknown header fields cannot be read)
  bool api_ok = true;            // walking it did not hit an inconsistency
  std::string api_problem;
};

struct ServerConn {              // a connection accepted by the real DBusServer
  DBusConnection *conn = nullptr;
  simk::End *peer = nullptr;     // the scripted peer's end
  std::vector<Seen> seen;
  bool disconnected = false;     // application got Local.Disconnected
  bool authenticated_seen = false;
};

class LibWorld {
 public:
  LibWorld(core::Trace &tr, uint64_t seed);
  ~LibWorld();
  core::Trace &tr;
  std::map<std::string, uint64_t> counters;

  // ---- server side
  void start_server(const std::string &auth_mechs_csv = "", bool allow_anonymous = false);
  // a scripted peer connects; returns index into peers
  int peer_connect(const simk::Creds &creds);
  void peer_write(int p, const std::string &bytes, std::vector<int> fds = {});
  std::string peer_read(int p);               // everything the library wrote to this peer so far (drains)
  void peer_close(int p);
  bool peer_sees_eof(int p);
  std::vector<simk::End *> peers;
  std::vector<ServerConn> sconns;             // in accept order (matches peers by End)
  ServerConn *conn_of_peer(int p);
  long max_message_size = -1;                 // applied to every accepted connection
  long max_received_size = -1;
  // when set: installed as the unix-user function of every accepted connection (the application's admission rule)
  std::function<bool(unsigned long uid)> unix_user_fn;
  // when set: called for every message an accepted connection dispatches (after it is recorded); the filter
  // then declines the message so that it goes on to the connection's object tree
  std::function<void(DBusConnection *, DBusMessage *)> on_message;

  // ---- client side (real DBusConnection connecting to a scripted listener)
  DBusConnection *client_open(const std::string &listener_name);   // nullptr on failure
  simk::Listener *scripted = nullptr;

  // ---- execution
  int iterate(int iters, uint64_t io_seed, const simk::IoProfile &prof, int oom_at = -1);
  void settle();                              // faults off, iterate until idle (bounded)
  void advance_ms(int64_t ms);
  void detach_from_loop(DBusConnection *c);   // the application stops using its main loop for this connection (blocking API only from here on)
  void poke_dispatch(DBusConnection *c);      // application asks for the dispatch status and queues a dispatch if data remains
  void stop();                                // close everything, dbus_shutdown, leak checks
  int last_alloc_count = 0;

  DBusServer *server = nullptr;
  DBusLoop *loop = nullptr;
  std::vector<DBusConnection *> clients;
  int base_blocks = 0;
  std::string guid;
};

// kernel statistics of the world that was torn down last (faults fired, bytes moved)
extern simk::Stats last_stats;

// Rebuild a wire::Msg from a DBusMessage using only public accessors and iterators.
bool message_via_api(DBusMessage *m, wire::Msg *out, std::string *problem);

}  // namespace lw
