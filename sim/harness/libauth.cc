// sim/harness/libauth.cc — C08: a peer counts as authenticated only after a
// valid SASL exchange.  A real DBusServer (every allowed-mechanism setting,
// anonymous on/off, optional unix-user function) against a scripted peer that
// sends generated command sequences in arbitrary chunking under every socket
// credential; the oracle is the specification's server state machine
// (AuthModel below, written from doc/dbus-specification.xml "Authentication
// Protocol") run over the same byte stream.
#include <stdio.h>
#include <stdlib.h>
#include <string.h>
#include <dirent.h>
#include <sys/stat.h>
#include <sys/syscall.h>
#include <unistd.h>

#include <algorithm>
#include <set>

#include "codec/wire.h"
#include "core/core.h"
#include "harness/libchecks.h"
#include "harness/libworld.h"
#include "kernel/kernel.h"

extern "C" {
#include <dbus/dbus.h>
}

using core::fail;
using core::Plan;
using core::Step;
using simk::K;

namespace libchecks {

namespace {

bool valid_utf8(const std::string &s) {
  size_t i = 0;
  while (i < s.size()) {
    unsigned char c = (unsigned char)s[i];
    size_t n = c < 0x80 ? 1 : (c >> 5) == 6 ? 2 : (c >> 4) == 14 ? 3 : (c >> 3) == 30 ? 4 : 0;
    if (n == 0 || i + n > s.size()) return false;
    uint32_t cp = n == 1 ? c : c & (0xff >> (n + 1));
    for (size_t k = 1; k < n; k++) { unsigned char d = (unsigned char)s[i + k]; if ((d >> 6) != 2) return false; cp = (cp << 6) | (d & 0x3f); }
    if (n == 2 && cp < 0x80) return false;
    if (n == 3 && cp < 0x800) return false;
    if (n == 4 && (cp < 0x10000 || cp > 0x10ffff)) return false;
    if (cp >= 0xd800 && cp <= 0xdfff) return false;
    if (cp == 0) return false;
    i += n;
  }
  return true;
}

void remove_tree(const std::string &path) {
  DIR *d = opendir(path.c_str());
  if (d) {
    while (struct dirent *e = readdir(d)) {
      std::string n = e->d_name;
      if (n == "." || n == "..") continue;
      std::string p = path + "/" + n;
      struct stat st;
      if (lstat(p.c_str(), &st) == 0 && S_ISDIR(st.st_mode)) remove_tree(p); else unlink(p.c_str());
    }
    closedir(d);
  }
  rmdir(path.c_str());
}

bool all_digits(const std::string &s) { return !s.empty() && s.size() < 10 && std::all_of(s.begin(), s.end(), [](char c) { return c >= '0' && c <= '9'; }); }

// ---------------------------------------------------------------- the reference model
struct Resp {
  enum Kind { REJECTED, ERROR, DATA_EMPTY, COOKIE_SECOND, OK, AGREE_OR_ERROR, REJECTED_OR_OK, REJECTED_OR_COOKIE, NOTHING } kind;
};

struct AuthModel {
  // configuration
  std::vector<std::string> allowed;     // in the library's order EXTERNAL DBUS_COOKIE_SHA1 ANONYMOUS
  bool have_creds = true;
  unsigned sock_uid = 0;
  unsigned server_uid = 0;
  std::map<std::string, unsigned> nss;  // user name -> uid
  // state
  enum St { WAIT_AUTH, WAIT_DATA, WAIT_BEGIN, DISCONNECT, AUTHENTICATED } st = WAIT_AUTH;
  std::string mech;
  bool asked = false;
  std::string identity;
  int rejections = 0;
  bool anon = false;
  unsigned uid = 0;
  bool cookie_challenged = false;
  unsigned pending_uid = 0;
  bool name_identity_choice = false;   // OK was reached through a spec-silent identity spelling

  std::string rejected_line() const { std::string s = "REJECTED"; for (auto &m : allowed) s += " " + m; return s; }
  bool mech_allowed(const std::string &m) const { return std::find(allowed.begin(), allowed.end(), m) != allowed.end(); }

  void reset_mech() { mech.clear(); asked = false; identity.clear(); cookie_challenged = false; anon = false; }
  Resp rejected() { reset_mech(); rejections++; st = WAIT_AUTH; return {Resp::REJECTED}; }

  // one mechanism step with decoded response data
  Resp mech_step(const std::string &data) {
    if (mech == "EXTERNAL") {
      if (!have_creds) return rejected();
      if (!data.empty()) { if (!identity.empty()) return rejected(); identity = data; }
      if (identity.empty() && !asked) { asked = true; st = WAIT_DATA; return {Resp::DATA_EMPTY}; }
      if (identity.empty()) { uid = sock_uid; anon = false; st = WAIT_BEGIN; return {Resp::OK}; }
      if (all_digits(identity) && !(identity.size() > 1 && identity[0] == '0')) {
        unsigned long v = strtoul(identity.c_str(), nullptr, 10);
        if (v == sock_uid) { uid = sock_uid; anon = false; st = WAIT_BEGIN; return {Resp::OK}; }
        return rejected();
      }
      // not plain digits: a user name, or a number in an unusual spelling.  The specification says "the
      // authorization identity"; whether names are resolved is not stated.  Never OK unless it can denote the
      // socket's own uid.
      bool may_denote_self = false;
      auto it = nss.find(identity);
      if (it != nss.end() && it->second == sock_uid) may_denote_self = true;
      {
        char *end = nullptr;
        unsigned long v = strtoul(identity.c_str(), &end, 10);
        if (end && *end == 0 && end != identity.c_str() && v == sock_uid) may_denote_self = true;
        // (a leading zero: "the string form of the UID" is decimal, the reference also reads C-style octal / hex;
        // either reading may denote the peer's own uid, no reading may denote anybody else's)
        v = strtoul(identity.c_str(), &end, 0);
        if (end && *end == 0 && end != identity.c_str() && v == sock_uid) may_denote_self = true;
      }
      if (!may_denote_self) return rejected();
      pending_uid = sock_uid;
      return {Resp::REJECTED_OR_OK};
    }
    if (mech == "ANONYMOUS") {
      if (!data.empty() && !valid_utf8(data)) return rejected();
      anon = true; st = WAIT_BEGIN;
      return {Resp::OK};
    }
    if (mech == "DBUS_COOKIE_SHA1") {
      if (!cookie_challenged) {
        unsigned long want;
        bool unusual = false;
        if (all_digits(data) && !(data.size() > 1 && data[0] == '0')) want = strtoul(data.c_str(), nullptr, 10);
        else {
          auto it = nss.find(data);
          if (it != nss.end()) want = it->second;
          else {
            // a number in an unusual spelling (" 0", "+0", a leading zero, C-style octal / hex): spec silent;
            // never for another user, whichever way it is read
            bool any = false, parses = false;
            for (int base : {10, 0}) {
              char *end = nullptr;
              unsigned long v = strtoul(data.c_str(), &end, base);
              if (data.empty() || !end || *end != 0 || end == data.c_str()) continue;
              parses = true;
              if (v == server_uid) any = true;
            }
            if (!parses || !any) return rejected();
            want = server_uid;
            unusual = true;
          }
        }
        if (want != server_uid) return rejected();
        (void)unusual;
        pending_uid = server_uid;
        // the keyring must be usable; in the simulated world it is when the server runs as the owner of its home
        return {Resp::REJECTED_OR_COOKIE};
      }
      // second step is judged by the harness (it knows the challenge and the cookie)
      return {Resp::COOKIE_SECOND};
    }
    return rejected();
  }

  // a complete line (without CRLF) arrives
  Resp line(const std::string &l) {
    for (unsigned char c : l) if (c == 0 || c >= 0x80) return {Resp::ERROR};
    size_t b = l.find_first_of(" \t");
    std::string cmd = l.substr(0, b);
    std::string args;
    if (b != std::string::npos) { size_t e = l.find_first_not_of(" \t", b); if (e != std::string::npos) args = l.substr(e); }
    bool is_auth = cmd == "AUTH", is_cancel = cmd == "CANCEL", is_data = cmd == "DATA", is_begin = cmd == "BEGIN", is_error = cmd == "ERROR", is_nego = cmd == "NEGOTIATE_UNIX_FD";
    switch (st) {
      case WAIT_AUTH:
        if (is_auth) {
          if (args.empty()) return rejected();
          size_t sp = args.find_first_of(" \t");
          std::string m = args.substr(0, sp), hex;
          if (sp != std::string::npos) { size_t e = args.find_first_not_of(" \t", sp); if (e != std::string::npos) hex = args.substr(e); }
          if (!mech_allowed(m)) return rejected();
          std::string data;
          if (!wire::hex_decode(hex, &data)) return {Resp::ERROR};   // spec silent: the implementation answers ERROR and stays; accepted as such (see judge)
          reset_mech();
          mech = m;
          return mech_step(data);
        }
        if (is_begin) { st = DISCONNECT; return {Resp::NOTHING}; }
        if (is_error) return rejected();
        return {Resp::ERROR};
      case WAIT_DATA:
        if (is_data) {
          std::string data;
          if (!wire::hex_decode(args, &data)) return {Resp::ERROR};
          return mech_step(data);
        }
        if (is_begin) { st = DISCONNECT; return {Resp::NOTHING}; }
        if (is_cancel || is_error) return rejected();
        return {Resp::ERROR};
      case WAIT_BEGIN:
        if (is_begin) { st = AUTHENTICATED; return {Resp::NOTHING}; }
        if (is_nego) return {Resp::AGREE_OR_ERROR};
        if (is_cancel || is_error) return rejected();
        return {Resp::ERROR};
      default:
        return {Resp::NOTHING};
    }
  }
};

const int MAX_REJECTIONS = 6;

struct Scenario {
  const Plan &plan;
  core::Trace tr;
  std::map<std::string, uint64_t> counters;
  std::string hist;
  std::string home;

  explicit Scenario(const Plan &p) : plan(p) {}
  void note(const std::string &s) { if (hist.size() < 2500) hist += s + " "; }

  static std::string printable(const std::string &s) {
    std::string o;
    for (unsigned char c : s.substr(0, 60)) { if (c >= 0x20 && c < 0x7f) o += (char)c; else { char b[8]; snprintf(b, sizeof b, "\\x%02x", c); o += b; } }
    if (s.size() > 60) o += "...(" + std::to_string(s.size()) + ")";
    return o;
  }

  // the cookie the server's keyring file holds for an id
  std::string read_cookie(const std::string &ctx, const std::string &id, std::string *other = nullptr) {
    std::string path = home + "/.dbus-keyrings/" + ctx;
    FILE *f = fopen(path.c_str(), "r");
    if (!f) return "";
    char buf[512];
    std::string found;
    while (fgets(buf, sizeof buf, f)) {
      char kid[64], ts[64], val[256];
      if (sscanf(buf, "%63s %63s %255s", kid, ts, val) == 3) {
        if (id == kid) found = val;
        else if (other) *other = val;
      }
    }
    fclose(f);
    return found;
  }

  core::RunResult run(bool log) {
    core::RunResult res;
    tr.reset(log);
    try {
      lw::LibWorld w(tr, plan.seed);
      // a private, empty home for the server owner (cookie keyring); the path never enters the trace
      home = "/verif/build/scratch/authhome." + std::to_string((long)syscall(SYS_getpid));
      remove_tree(home);
      mkdir("/verif/build/scratch", 0755);
      if (mkdir(home.c_str(), 0700) != 0) core::harness_error("cannot create %s", home.c_str());
      setenv("HOME", home.c_str(), 1);

      AuthModel m;
      unsigned suid = (unsigned)plan.C("suid", 0), puid = (unsigned)plan.C("puid", 0);
      K->self.uid = suid; K->self.gid = suid;
      K->add_user("alice", 1000, 1000);
      K->add_user("bob", 1001, 1001);
      m.nss = {{"root", 0}, {"alice", 1000}, {"bob", 1001}};
      m.server_uid = suid;
      m.sock_uid = puid;
      m.have_creds = plan.C("pcreds", 1) != 0;
      std::string mechs = plan.CS("mechs", "");
      for (const char *name : {"EXTERNAL", "DBUS_COOKIE_SHA1", "ANONYMOUS"})
        if (mechs.empty() || ("," + mechs + ",").find(std::string(",") + name + ",") != std::string::npos) m.allowed.push_back(name);
      bool allow_anon = plan.C("anon", 0) != 0;
      int userfn = (int)plan.C("userfn", 0);
      unsigned userfn_uid = (unsigned)plan.C("userfn.uid", 0);
      if (userfn == 1) w.unix_user_fn = [](unsigned long) { return true; };
      else if (userfn == 2) w.unix_user_fn = [userfn_uid](unsigned long u) { return u == userfn_uid; };
      else if (userfn == 3) w.unix_user_fn = [](unsigned long) { return false; };
      w.start_server(mechs, allow_anon);

      simk::Creds cr;
      cr.have = m.have_creds;
      cr.uid = puid; cr.gid = puid; cr.groups = {puid};
      cr.pid = 4242;
      int p0 = w.peer_connect(cr);
      w.iterate(2, 1, simk::IoProfile());

      // ---- drive
      std::string sent;                 // every byte the peer wrote, in order
      std::string got;                  // every byte the server wrote
      std::string last_challenge_line;  // most recent "DATA <hex>" from the server carrying a cookie challenge
      auto pump = [&]() { got += w.peer_read(p0); };
      bool nul_first = plan.C("nul", 1) != 0;
      std::string first(1, nul_first ? '\0' : (char)plan.C("firstbyte", 'A'));
      w.peer_write(p0, first);
      sent += first;
      size_t msgs_written = 0;
      for (auto &s : plan.steps) {
        tr.ev("step %s %s", s.t.c_str(), printable(s.S(0)).c_str());
        if (s.t == "line") { w.peer_write(p0, s.S(0) + "\r\n"); sent += s.S(0) + "\r\n"; note(printable(s.S(0))); }
        else if (s.t == "raw") { w.peer_write(p0, s.S(0)); sent += s.S(0); note("raw:" + printable(s.S(0))); }
        else if (s.t == "cookie") {
          // answer the latest cookie challenge the server sent (if any)
          w.settle();
          pump();
          std::string chal;
          size_t pos = got.rfind("DATA ");
          if (pos != std::string::npos) { size_t e = got.find("\r\n", pos); if (e != std::string::npos) { std::string dec; if (wire::hex_decode(got.substr(pos + 5, e - pos - 5), &dec)) chal = dec; } }
          std::string ctx, id, sc;
          {
            size_t a = chal.find(' '), b = a == std::string::npos ? a : chal.find(' ', a + 1);
            if (b != std::string::npos) { ctx = chal.substr(0, a); id = chal.substr(a + 1, b - a - 1); sc = chal.substr(b + 1); }
          }
          int kind = (int)s.N(0, 0);
          std::string other;
          std::string cookie = read_cookie(ctx.empty() ? "org_freedesktop_general" : ctx, id, &other);
          std::string cc = wire::hex_encode("client-challenge-" + std::to_string(s.N(1, 7)));
          std::string hash = wire::sha1_hex(sc + ":" + cc + ":" + cookie);
          std::string resp;
          if (kind == 1) { hash[0] = hash[0] == 'a' ? 'b' : 'a'; resp = cc + " " + hash; }
          else if (kind == 2) resp = cc + hash;                      // no blank
          else if (kind == 3) resp = cc + " " + wire::sha1_hex(sc + ":" + cc + ":" + (other.empty() ? std::string("00") : other));   // another cookie
          else if (kind == 4) resp = cc + " " + wire::sha1_hex(sc + ":" + cc + ":" + cookie + "x");   // right cookie, wrong composition
          else if (kind == 5) resp = cc + " ";                       // empty hash
          else if (kind == 6) resp = cc + " " + hash.substr(0, (size_t)(1 + s.N(1, 7) % 39));   // a proper prefix of the right answer
          else if (kind == 7) resp = cc + " " + hash + (s.N(1, 7) % 2 ? "0" : " 00");          // the right answer and more
          else if (kind == 8) { std::string up = hash; for (auto &ch : up) if (ch >= 'a' && ch <= 'f') ch = (char)(ch - 32); resp = cc + " " + up; if (up == hash) resp = cc + " " + hash + "f"; kind = 1; }
          else resp = cc + " " + hash;
          std::string l = "DATA " + wire::hex_encode(resp);
          w.peer_write(p0, l + "\r\n");
          sent += l + "\r\n";
          cookie_steps.push_back({sent.size() - l.size() - 2, kind == 0 && !cookie.empty() && !sc.empty()});
          note(std::string("cookie-response(kind=") + std::to_string(kind) + ")");
        } else if (s.t == "msg") {
          wire::Msg mm = wire::Msg::method_call((uint32_t)(++msgs_written), "", "/o", "com.example.I", "M");
          mm.remove_field(wire::F_DESTINATION);
          std::string b = wire::marshal(mm);
          w.peer_write(p0, b);
          sent += b;
          note("message");
        } else if (s.t == "run") {
          simk::IoProfile pr;
          pr.short_read_pct = (unsigned)s.N(2); pr.one_byte_read_pct = (unsigned)s.N(3); pr.eagain_read_pct = (unsigned)s.N(4);
          pr.eintr_pct = (unsigned)s.N(5); pr.poll_subset_pct = (unsigned)s.N(6); pr.short_write_pct = (unsigned)s.N(7);
          w.iterate((int)s.N(0, 1), (uint64_t)s.N(1, 1), pr);
          pump();
        } else if (s.t == "adv") w.advance_ms(s.N(0, 0));
        else core::harness_error("unknown step %s", s.t.c_str());
      }
      w.settle();
      pump();

      // ---- judge: run the model over the very bytes the peer wrote
      lw::ServerConn *sc = w.conn_of_peer(p0);
      bool eof = w.peer_sees_eof(p0);
      bool app_authenticated = sc && sc->conn && dbus_connection_get_is_authenticated(sc->conn);
      size_t app_messages = sc ? sc->seen.size() : 0;
      std::vector<std::string> got_lines;
      std::string got_binary;
      {
        size_t i = 0;
        while (i < got.size()) { size_t e = got.find("\r\n", i); if (e == std::string::npos) { got_binary = got.substr(i); break; } got_lines.push_back(got.substr(i, e - i)); i = e + 2; }
      }
      if (!nul_first) {
        // the credentials byte must be NUL: anything else ends the connection, nothing is answered
        if (app_authenticated || app_messages) fail("oracle:C08:authenticated-without-exchange", "a peer whose first byte was not NUL is treated as authenticated");
        if (!eof) fail("oracle:C08:not-disconnected", "a peer whose first byte was 0x%02x instead of NUL was not disconnected", (unsigned)(unsigned char)first[0]);
        counters["probe:bad_credentials_byte"]++;
      } else {
        size_t pos = 1, gi = 0;
        bool tolerant_tail = false;
        size_t auth_end = std::string::npos;   // offset in `sent` right after the BEGIN line that authenticated
        while (pos < sent.size() && m.st != AuthModel::DISCONNECT && m.st != AuthModel::AUTHENTICATED) {
          size_t e = sent.find("\r\n", pos);
          size_t linelen = (e == std::string::npos ? sent.size() : e) - pos;
          if (linelen > 16384 + 2048) { m.st = AuthModel::DISCONNECT; counters["probe:line_over_16k"]++; break; }
          if (e == std::string::npos) {
            if (linelen > 16384 - 2048) tolerant_tail = true;   // may or may not have crossed the cap yet
            break;
          }
          if (linelen > 16384 - 2048) { tolerant_tail = true; break; }   // between the two bounds: either is accepted, stop judging here
          std::string l = sent.substr(pos, linelen);
          bool is_cookie_step = false, cookie_good = false;
          for (auto &cs : cookie_steps) if (cs.first == pos) { is_cookie_step = true; cookie_good = cs.second; }
          AuthModel::St before = m.st;
          int rejections_before = m.rejections;
          Resp r = m.line(l);
          pos = e + 2;
          if (r.kind == Resp::COOKIE_SECOND) {
            // second cookie step: the harness knows whether the response was the correct one
            if (is_cookie_step && cookie_good) { counters["probe:cookie_authenticated"]++; m.uid = m.server_uid; m.anon = false; m.st = AuthModel::WAIT_BEGIN; r.kind = Resp::OK; }
            else r = m.rejected();
            if (!is_cookie_step) counters["probe:cookie_freehand_response"]++;
          }
          // compare with what the server said
          // "if the client is rejected too many times the server must disconnect": the bound itself is not in the
          // specification; pinned to the implementation's documented constant (6) so that it cannot drift either way
          bool gave_up = m.rejections > rejections_before && m.rejections >= MAX_REJECTIONS;
          if (gave_up) { m.st = AuthModel::DISCONNECT; counters["probe:rejection_bound_hit"]++; }
          if (gave_up && gi >= got_lines.size()) break;   // the last REJECTED may be lost: the server closes without flushing
          auto next_line = [&](const char *what) -> std::string {
            if (gi >= got_lines.size()) {
              fail("oracle:C08:missing-response", "after '%s' (state %d) the specification prescribes %s; the server sent nothing more", printable(l).c_str(), (int)before, what);
            }
            return got_lines[gi++];
          };
          switch (r.kind) {
            case Resp::NOTHING: break;
            case Resp::REJECTED: {
              std::string g = next_line("REJECTED");
              if (g != m.rejected_line()) fail("oracle:C08:wrong-response", "after '%s' expected '%s', the server sent '%s'", printable(l).c_str(), m.rejected_line().c_str(), printable(g).c_str());
              counters["rejections"]++;
              break;
            }
            case Resp::ERROR: {
              std::string g = next_line("ERROR");
              if (g.compare(0, 5, "ERROR") != 0) fail("oracle:C08:wrong-response", "after '%s' expected ERROR, the server sent '%s'", printable(l).c_str(), printable(g).c_str());
              counters["errors"]++;
              break;
            }
            case Resp::DATA_EMPTY: {
              std::string g = next_line("DATA");
              if (g != "DATA") fail("oracle:C08:wrong-response", "after '%s' expected an empty DATA challenge, the server sent '%s'", printable(l).c_str(), printable(g).c_str());
              break;
            }
            case Resp::OK: {
              std::string g = next_line("OK");
              if (g != "OK " + w.guid) fail("oracle:C08:wrong-response", "after '%s' expected 'OK <server guid>', the server sent '%s'", printable(l).c_str(), printable(g).c_str());
              counters["ok"]++;
              break;
            }
            case Resp::AGREE_OR_ERROR: {
              std::string g = next_line("AGREE_UNIX_FD or ERROR");
              if (g != "AGREE_UNIX_FD" && g.compare(0, 5, "ERROR") != 0) fail("oracle:C08:wrong-response", "after NEGOTIATE_UNIX_FD the server sent '%s'", printable(g).c_str());
              break;
            }
            case Resp::REJECTED_OR_OK: {
              std::string g = next_line("REJECTED or OK");
              if (g == "OK " + w.guid) { m.uid = m.pending_uid; m.anon = false; m.st = AuthModel::WAIT_BEGIN; counters["choice:unusual_identity_accepted"]++; }
              else if (g == m.rejected_line()) { m.rejected(); counters["choice:unusual_identity_rejected"]++; }
              else fail("oracle:C08:wrong-response", "after '%s' expected OK or REJECTED, the server sent '%s'", printable(l).c_str(), printable(g).c_str());
              break;
            }
            case Resp::REJECTED_OR_COOKIE: {
              std::string g = next_line("a cookie challenge or REJECTED");
              std::string dec;
              if (g.compare(0, 5, "DATA ") == 0 && wire::hex_decode(g.substr(5), &dec)) {
                // "context id hex(challenge)"
                size_t a = dec.find(' '), b = a == std::string::npos ? a : dec.find(' ', a + 1);
                std::string idpart = b == std::string::npos ? "" : dec.substr(a + 1, b - a - 1);
                if (b == std::string::npos || dec.substr(0, a) != "org_freedesktop_general" || idpart.empty() || idpart.find_first_not_of("0123456789") != std::string::npos || dec.size() - b - 1 != 32)
                  fail("oracle:C08:wrong-response", "malformed cookie challenge '%s'", printable(dec).c_str());
                if (m.pending_uid != m.server_uid) fail("oracle:C08:cookie-for-other-user", "a cookie challenge was issued for a user other than the server's owner");
                m.cookie_challenged = true; m.st = AuthModel::WAIT_DATA;
                counters["probe:cookie_challenge"]++;
              } else if (g == m.rejected_line()) m.rejected();
              else fail("oracle:C08:wrong-response", "after '%s' expected a cookie challenge or REJECTED, the server sent '%s'", printable(l).c_str(), printable(g).c_str());
              break;
            }
            case Resp::COOKIE_SECOND: break;
          }
          if (m.rejections > rejections_before && m.rejections >= MAX_REJECTIONS && m.st != AuthModel::DISCONNECT) { m.st = AuthModel::DISCONNECT; counters["probe:rejection_bound_hit"]++; }
          if (m.st == AuthModel::AUTHENTICATED) auth_end = pos;
        }
        // responses beyond what the model explains
        if (!tolerant_tail && m.st != AuthModel::DISCONNECT && gi < got_lines.size() && m.st != AuthModel::AUTHENTICATED)
          fail("oracle:C08:unexpected-response", "the server sent '%s' which no command explains", printable(got_lines[gi]).c_str());

        // ---- the authenticated flag and identity
        bool model_authed = m.st == AuthModel::AUTHENTICATED;
        bool admitted = false;
        if (model_authed) {
          counters["probe:model_authenticated"]++;
          if (m.anon) admitted = allow_anon;
          else if (userfn == 1) admitted = true;
          else if (userfn == 2) admitted = m.uid == userfn_uid;
          else if (userfn == 3) admitted = false;
          else admitted = allow_anon || m.uid == 0 || m.uid == m.server_uid;
          counters[admitted ? "probe:admitted" : "probe:admission_refused"]++;
        }
        if (app_authenticated && !(model_authed && admitted))
          fail("oracle:C08:authenticated-without-exchange", "the connection counts as authenticated although %s (model state %d, mechanism '%s')",
               model_authed ? "the admission rule refuses this identity" : "no permitted mechanism completed and BEGIN was not accepted", (int)m.st, m.mech.c_str());
        if (model_authed && admitted && !app_authenticated && !tolerant_tail)
          fail("oracle:C08:not-authenticated", "a valid %s exchange followed by BEGIN did not authenticate the peer (uid %u)", m.mech.c_str(), m.uid);
        if (app_authenticated) {
          unsigned long seen_uid = 0;
          bool has_uid = dbus_connection_get_unix_user(sc->conn, &seen_uid);
          bool is_anon = dbus_connection_get_is_anonymous(sc->conn);
          if (m.anon) {
            if (!is_anon || has_uid) fail("oracle:C08:wrong-identity", "ANONYMOUS authenticated, but the application sees %s", has_uid ? "a unix user" : "a non-anonymous connection");
          } else {
            if (is_anon || !has_uid || seen_uid != m.uid)
              fail("oracle:C08:wrong-identity", "mechanism %s established uid %u, the application sees %s%lu", m.mech.c_str(), m.uid, has_uid ? "uid " : "no uid ", seen_uid);
            unsigned long pid = 0;
            if (m.have_creds && dbus_connection_get_unix_process_id(sc->conn, &pid) && pid != 4242)
              fail("oracle:C08:wrong-identity", "the application sees process id %lu, the socket credentials say 4242", pid);
          }
          counters["identities_checked"]++;
        }
        // ---- no byte before BEGIN is message data; bytes after it are
        size_t msgs_after = 0;
        if (model_authed && admitted && auth_end != std::string::npos) {
          std::string rest = sent.substr(auth_end);
          while (!rest.empty()) { wire::ParseResult pr = wire::parse(rest); if (pr.status != wire::P_OK) break; msgs_after++; rest.erase(0, pr.total_len); }
        }
        if (app_messages > msgs_after) fail("oracle:C08:handshake-bytes-as-message", "the application received %zu messages, only %zu complete messages follow the accepted BEGIN", app_messages, msgs_after);
        if (model_authed && admitted && app_messages < msgs_after && !(sc && sc->disconnected)) fail("oracle:C11:lost-message", "%zu messages follow BEGIN, the application received %zu", msgs_after, app_messages);
        if (msgs_after) counters["probe:message_after_begin"]++;
        // ---- disconnects
        if (m.st == AuthModel::DISCONNECT && !eof) fail("oracle:C08:not-disconnected", "the handshake must have been abandoned (BEGIN out of place, too many rejections or an over-long line) but the connection is still open");
        if (model_authed && !admitted && !eof) fail("oracle:C08:not-disconnected", "an identity the admission rule refuses (uid %u%s) was not disconnected", m.uid, m.anon ? ", anonymous" : "");
        if ((m.st == AuthModel::WAIT_AUTH || m.st == AuthModel::WAIT_DATA || m.st == AuthModel::WAIT_BEGIN) && !tolerant_tail && eof)
          fail("oracle:C08:spurious-disconnect", "the server closed a handshake that was still in order (state %d, %d rejections)", (int)m.st, m.rejections);
      }
      counters["handshakes"]++;
      w.stop();
    } catch (core::Violation &v) {
      res.ok = false;
      res.cls = v.cls;
      res.detail = v.detail;
    }
    if (!home.empty()) remove_tree(home);
    res.hash = tr.h;
    res.counters = counters;
    for (auto &kv : lw::last_stats.faults) res.counters["fault:" + kv.first] += kv.second;
    res.nontrivial = plan.steps.size() > 2;
    res.sample = hist;
    if (tr.keep_text) res.sample = tr.text + "HISTORY " + hist + "\n";
    return res;
  }
  std::vector<std::pair<size_t, bool>> cookie_steps;   // offset in `sent` of a generated cookie response line, and whether it is the correct one
};

}  // namespace

core::RunResult run_auth(const Plan &plan, bool log) {
  Scenario sc(plan);
  return sc.run(log);
}

Plan gen_auth(uint64_t seed, bool th) {
  simk::Rng r(seed * 0x9e3779b1u + 8);
  Plan p;
  p.prop = "C08";
  p.seed = seed;
  static const char *mechsets[] = {"", "EXTERNAL", "DBUS_COOKIE_SHA1", "ANONYMOUS", "EXTERNAL,DBUS_COOKIE_SHA1", "EXTERNAL,ANONYMOUS", "DBUS_COOKIE_SHA1,ANONYMOUS"};
  std::string mechs = mechsets[r.below(7)];
  if (!mechs.empty()) p.cfg["mechs"] = mechs;
  unsigned uids[] = {0, 1000, 1001, 4711};
  unsigned suid = r.pct(60) ? 0 : uids[r.below(3)];
  unsigned puid = r.pct(55) ? suid : uids[r.below(4)];
  p.cfg["suid"] = std::to_string(suid);
  p.cfg["puid"] = std::to_string(puid);
  if (r.pct(12)) p.cfg["pcreds"] = "0";
  if (r.pct(30)) p.cfg["anon"] = "1";
  int uf = r.pct(60) ? 0 : (int)r.range(1, 3);
  if (uf) { p.cfg["userfn"] = std::to_string(uf); p.cfg["userfn.uid"] = std::to_string(uids[r.below(4)]); }
  if (r.pct(4)) { p.cfg["nul"] = "0"; p.cfg["firstbyte"] = std::to_string(r.range(1, 255)); }
  auto add = [&](const std::string &t, std::vector<int64_t> n = {}, std::vector<std::string> s = {}) { Step st; st.t = t; st.n = std::move(n); st.s = std::move(s); p.steps.push_back(st); };
  auto hex = [&](const std::string &s) { return wire::hex_encode(s); };
  auto run = [&]() {
    add("run", {(int64_t)r.range(1, 3), (int64_t)(r.next() & 0x7fffffff), r.pct(40) ? (int64_t)r.below(50) : 0, r.pct(30) ? (int64_t)r.below(40) : 0,
                r.pct(20) ? (int64_t)r.below(15) : 0, r.pct(20) ? (int64_t)r.below(10) : 0, r.pct(20) ? (int64_t)r.below(30) : 0, r.pct(25) ? (int64_t)r.below(40) : 0});
  };
  auto ident = [&]() -> std::string {
    int k = (int)r.below(100);
    if (k < 34) return std::to_string(puid);
    if (k < 40) {
      // near misses of the peer's own uid: one digit more, one digit less, leading zero, 2^32 more, trailing blank
      std::string own = std::to_string(puid);
      switch (r.below(6)) {
        case 0: return own + std::to_string(r.below(10));
        case 1: return own.size() > 1 ? own.substr(0, own.size() - 1) : own + "0";
        case 2: { if (r.pct(50)) return "0" + own; char b[32]; snprintf(b, sizeof b, r.pct(50) ? "0%lo" : "0x%lx", (unsigned long)puid); return std::string(b); }
        case 3: return std::to_string(4294967296ull + puid);
        case 4: return own + " ";
        default: return own + "x";
      }
    }
    if (k < 55) return std::to_string(suid);
    if (k < 70) return std::to_string(uids[r.below(4)]);
    if (k < 78) return r.pct(50) ? "root" : (r.pct(50) ? "alice" : "nosuchuser");
    if (k < 84) return " " + std::to_string(puid);
    if (k < 88) return "+" + std::to_string(puid);
    if (k < 92) return "-1";
    if (k < 96) return "99999999999999999999";
    return "";
  };
  auto one_line = [&]() {
    int k = (int)r.below(100);
    if (k < 22) { std::string id = ident(); add("line", {}, {"AUTH EXTERNAL" + (id.empty() && r.pct(60) ? std::string("") : " " + hex(id))}); }
    else if (k < 30) add("line", {}, {"AUTH ANONYMOUS" + (r.pct(50) ? std::string("") : " " + hex(r.pct(80) ? "trace@example.com" : std::string("\xff\xfe", 2)))});
    else if (k < 42) { std::string id = r.pct(70) ? std::to_string(suid) : ident(); add("line", {}, {"AUTH DBUS_COOKIE_SHA1" + (id.empty() ? std::string("") : " " + hex(id))}); }
    else if (k < 50) add("cookie", {r.pct(50) ? 0 : (int64_t)r.range(1, 7), (int64_t)r.below(100)});
    else if (k < 58) add("line", {}, {"DATA" + (r.pct(40) ? std::string("") : " " + (r.pct(75) ? hex(ident()) : std::string(r.pct(50) ? "zz" : "0g")))});
    else if (k < 63) add("line", {}, {"CANCEL"});
    else if (k < 67) add("line", {}, {r.pct(50) ? "ERROR" : "ERROR \"something\""});
    else if (k < 79) add("line", {}, {"BEGIN"});
    else if (k < 84) add("line", {}, {"NEGOTIATE_UNIX_FD"});
    else if (k < 87) add("line", {}, {r.pct(50) ? "AUTH" : (r.pct(50) ? "AUTH KERBEROS_V4 " + hex("x") : "AUTH EXTERNAL zz")});
    else if (k < 90) add("line", {}, {r.pct(30) ? std::string("") : r.pct(50) ? std::string("OK 1234") : r.pct(50) ? std::string("auth external") : std::string("REJECTED EXTERNAL")});
    else if (k < 93) { std::string s = "AUTH "; s += (char)(0x80 + r.below(0x7f)); add("line", {}, {s}); }
    else if (k < 95) { std::string s = "DATA"; s.push_back('\0'); s += "00"; add("line", {}, {s}); }
    else if (k < 97) add("line", {}, {std::string(r.pct(50) ? (size_t)r.range(3000, 12000) : (size_t)r.range(19000, 24000), 'A')});
    else if (k < 98) add("raw", {}, {std::string((size_t)r.range(19000, 30000), 'B')});
    else add("msg");
  };
  // a few well-formed conversations as backbone, perturbed
  int shape = (int)r.below(100);
  if (shape < 35) {
    std::string id = r.pct(75) ? std::to_string(puid) : ident();
    add("line", {}, {"AUTH EXTERNAL " + hex(id)});
    if (r.pct(40)) run();
    if (r.pct(30)) one_line();
    if (r.pct(25)) add("line", {}, {"NEGOTIATE_UNIX_FD"});
    add("line", {}, {"BEGIN"});
    if (r.pct(60)) add("msg");
  } else if (shape < 50) {
    add("line", {}, {"AUTH DBUS_COOKIE_SHA1 " + hex(r.pct(80) ? std::to_string(suid) : ident())});
    if (r.pct(50)) run();
    add("cookie", {r.pct(55) ? 0 : (int64_t)r.range(1, 7), (int64_t)r.below(100)});
    if (r.pct(30)) one_line();
    add("line", {}, {"BEGIN"});
    if (r.pct(60)) add("msg");
  } else if (shape < 60) {
    add("line", {}, {"AUTH ANONYMOUS " + hex("someone")});
    if (r.pct(30)) one_line();
    add("line", {}, {"BEGIN"});
    if (r.pct(60)) add("msg");
  } else if (shape < 72) {
    // OK obtained, then CANCEL, then another mechanism / identity: nothing of the abandoned exchange may survive
    // (every way of reaching OK first: identity in the initial response, in a DATA line, or none at all - the
    // credentials of the socket; a complete cookie exchange)
    auto reach_ok = [&]() {
      int v = (int)r.below(100);
      if (v < 35) add("line", {}, {"AUTH EXTERNAL " + hex(std::to_string(puid))});
      else if (v < 60) { add("line", {}, {"AUTH EXTERNAL"}); add("line", {}, {"DATA"}); }
      else if (v < 75) { add("line", {}, {"AUTH EXTERNAL"}); add("line", {}, {"DATA " + hex(std::to_string(puid))}); }
      else if (v < 90) { add("line", {}, {"AUTH DBUS_COOKIE_SHA1 " + hex(std::to_string(suid))}); add("cookie", {0, (int64_t)r.below(100)}); }
      else add("line", {}, {"AUTH ANONYMOUS"});
    };
    reach_ok();
    add("line", {}, {r.pct(60) ? "CANCEL" : "ERROR"});
    if (r.pct(30)) one_line();
    if (r.pct(75)) { if (r.pct(60)) add("line", {}, {r.pct(50) ? "AUTH ANONYMOUS" : "AUTH ANONYMOUS " + hex("x")}); else reach_ok(); }
    add("line", {}, {"BEGIN"});
    if (r.pct(60)) add("msg");
  } else if (shape < 77) {
    // message data before BEGIN
    add("line", {}, {"AUTH EXTERNAL " + hex(std::to_string(puid))});
    add("msg");
    add("raw", {}, {"\r\n"});
    add("line", {}, {"BEGIN"});
    add("msg");
  } else if (shape < 80) {
    int n = (int)r.range(4, 9);
    for (int i = 0; i < n; i++) add("line", {}, {r.pct(50) ? "AUTH EXTERNAL " + hex("4711") : (r.pct(50) ? std::string("AUTH") : std::string("ERROR"))});
    add("line", {}, {"AUTH EXTERNAL " + hex(std::to_string(puid))});
    add("line", {}, {"BEGIN"});
  }
  int extra = shape < 80 ? (int)r.below(3) : (int)r.range(2, th ? 30 : 14);
  for (int i = 0; i < extra; i++) { if (r.pct(25)) run(); else one_line(); }
  // randomly re-chunk: merge adjacent line steps into raw steps / split them
  if (r.pct(50)) {
    std::vector<Step> out;
    for (auto &s : p.steps) {
      if (s.t == "line" && r.pct(50)) {
        std::string b = s.S(0) + "\r\n";
        size_t cut = (size_t)r.range(1, (int64_t)b.size() - 1);
        Step a; a.t = "raw"; a.s = {b.substr(0, cut)};
        Step c; c.t = "raw"; c.s = {b.substr(cut)};
        out.push_back(a);
        if (r.pct(50)) { Step rr; rr.t = "run"; rr.n = {1, (int64_t)(r.next() & 0xffff), 0, 0, 0, 0, 0, 0}; out.push_back(rr); }
        out.push_back(c);
      } else out.push_back(s);
    }
    p.steps = out;
  }
  return p;
}

}  // namespace libchecks
