// sim/harness/libchecks.h — plan generators and executors of simlib.
#pragma once
#include <set>
#include <string>

#include "core/core.h"

namespace libchecks {

core::Plan generate(const std::string &prop, uint64_t seed, bool thorough);
core::RunResult execute(const core::Plan &plan, bool log);

core::Plan gen_stream(const std::string &prop, uint64_t seed, bool thorough);
core::RunResult run_stream(const core::Plan &plan, bool log);

core::Plan gen_pending(uint64_t seed, bool thorough);
core::RunResult run_pending(const core::Plan &plan, bool log);

core::Plan gen_tree(uint64_t seed, bool thorough);
core::RunResult run_tree(const core::Plan &plan, bool log);

core::Plan gen_auth(uint64_t seed, bool thorough);
core::RunResult run_auth(const core::Plan &plan, bool log);

core::Plan gen_oomlib(uint64_t seed, bool thorough);
core::RunResult run_oomlib(const core::Plan &plan, bool log);

}  // namespace libchecks
