// sim/harness/exec.h — executor state for simbus plans.
#pragma once
#include <map>
#include <set>
#include <string>
#include <vector>

#include "codec/wire.h"
#include "core/core.h"
#include "harness/busworld.h"
#include "kernel/kernel.h"
#include "model/busmodel.h"
#include "model/policy.h"

namespace checks {

wire::Value random_value(simk::Rng &r, int depth);
bool parse_literal(const std::string &lit, wire::Value *out);
simk::IoProfile profile_from(const core::Step &s, size_t first);

class Exec {
 public:
  Exec(const core::Plan &p, bool log);
  core::RunResult run();

  const core::Plan &plan;
  core::Trace tr;
  bw::World w;
  bm::Model md;
  std::map<std::string, uint64_t> counters;
  std::vector<uint64_t> states;
  std::string hist;
  std::vector<size_t> next_sent;                 // per client: next Sent record the bus has not processed yet
  std::vector<std::set<size_t>> answered;        // per client: indices into got[] of calls already answered
  std::vector<bool> fdpass_req;
  std::vector<bm::Choice> pending_choices;
  uint64_t token = 0;
  struct CallRec { int from; uint32_t serial; std::string dest; };
  std::vector<CallRec> all_calls;
  bool oom_retry_possible = false;
  // ---- C14: one operation processed under an injected allocation failure
  bool oom_armed = false;                 // between the oombus step and its resolution
  bm::Model md_before;                    // model state before the operation
  std::vector<size_t> cursor_before;      // per client: got_checked before the operation
  std::vector<size_t> next_sent_before;
  std::vector<std::set<size_t>> answered_before;   // taken when the operation step ran (a failed reply is not an answer)
  int oom_client = -1;                    // who issued the operation
  core::Step oom_op;                      // the operation step (for the retry)
  bool oom_op_valid = false;
  std::string oom_outcome;                // "complete" | "nomemory"
  void resolve_oom();
  void check_state_whitebox(const char *when);

  int pick(int a) const;
  std::string resolve_name(const std::string &s);
  void note(const std::string &s);
  void setup();
  void finish();
  void forget_unspecified_window();
  void step(const core::Step &s);
  void connect_step(const core::Step &s);
  void send_msg(int ci, wire::Msg m, long deliver, std::vector<int> fds = {});
  wire::Msg driver_call(int ci, const std::string &member, std::vector<wire::Value> body);
  void on_dispatch(int ci, DBusConnection *conn, DBusMessage *msg);
  void after_event();
  void resolve_choices();
  void check_limits_whitebox();
  bool have_policy = false;
  pol::Policy policy;
  std::vector<pol::Who> whos;
  std::vector<std::vector<const pol::Rule *>> rules_of;   // effective rules per connection
  // ---- configuration reload (C14): the file ReloadConfig will read, and the rule sets it brings
  bool have_cfg2 = false, have_policy2 = false;
  pol::Policy policy2;
  std::vector<std::vector<const pol::Rule *>> rules_of2;
  std::string cfg2_xml;
  bm::Limits lim2_model;
  std::set<std::string> activatable2;
  bool lim_cfg_reloaded = false;
  bw::BusLimits lim2_cfg;
  bool oom_op_locked = false;
  int config_loads_before = 0;       // at the operation under the injected failure
  bool skip_until_retry = false;     // listed finding C14-reload-not-atomic: which configuration governs is unspecified until the retry
  const std::vector<const pol::Rule *> *active_rules(int c);   // nullptr: everything is allowed by the configuration in force
  std::vector<std::string> names_of(int c);               // names connection c holds (any queue position) + unique name
  void install_policy_hooks();
  std::string known_validator_gap(const std::string &bytes, const std::string &reason);
  // ---- C15: descriptors
  struct FdIdent { unsigned long dev, ino; };
  std::map<std::pair<int, uint32_t>, std::vector<FdIdent>> fd_idents;   // (sender, serial) -> the open files attached, in order
  std::map<int, uint32_t> fd_surplus_sent;    // sender -> serial of its message that attached more descriptors than announced
  std::map<int, long> fd_pending_surplus;     // sender -> descriptors it has attached beyond what its messages announced so far
  std::map<int, int64_t> fd_surplus;          // sender that attached more descriptors than announced -> when
  std::vector<size_t> fd_checked;             // per client: got[] index up to which descriptors were compared
  void check_fds(int ci);
  std::map<int, int64_t> hello_done_us;       // when the bus processed each client's Hello
  // ---- C19: activation
  size_t procs_seen = 0;
  std::map<std::string, int> activation_pid;   // name -> pid of the process started for its current / last activation
  void check_activation_starts();
  bool tainted = false;            // a listed finding made the model lose track: no further comparisons in this run
  bw::BusLimits lim_cfg;
  void sync_names();
  std::map<std::string, int> ever_names;   // unique name -> connection it was first seen on
  std::vector<int> actual_queue(const std::string &name);
  void check_point(bool final);
  void compare_client(int ci);
  void check_hostile(int ci);
  bool take_floating(int ci, const wire::Msg &o);
};

}  // namespace checks
