// sim/codec/diff_libdbus.cc — differential test: wire.cc (written from the
// spec) against the real libdbus public API.
//
// build: clang++ -std=c++17 -O1 -g -fsanitize=address,undefined -I/verif/sim/codec -I/repo -I/repo/_build \
//          wire.cc diff_libdbus.cc /repo/_build/lib/libdbus-1.so -o /tmp/diff_libdbus
// run:   LD_LIBRARY_PATH=/repo/_build/lib /tmp/diff_libdbus [n_messages] [seed] [-v]
//
// Any disagreement is printed, grouped by (wire verdict, libdbus verdict),
// with the shortest witness found.  Known, documented disagreements (see
// DISAGREEMENTS.md) are recognised by classify() and reported separately;
// the exit status is non-zero only for UNEXPLAINED disagreements.
#include <dbus/dbus.h>
#include <setjmp.h>
#include <signal.h>
#include <unistd.h>

#include <cstdio>
#include <cstdlib>
#include <cstring>
#include <map>

#include "gen.h"
#include "wire.h"

using namespace wire;
using wiregen::Rng;

static bool g_verbose = false;
static long g_early = 0, g_compared = 0, g_both_ok = 0, g_both_bad = 0, g_both_need = 0, g_value_checks = 0;

struct Witness { std::string bytes; std::string detail; long count = 0; };
static std::map<std::string, Witness> g_known, g_unknown;

static const char *vname(int v) { return v == P_OK ? "OK" : v == P_NEED_MORE ? "NEED_MORE" : v == P_INVALID ? "INVALID" : "ABORT"; }

// ---------------------------------------------------------------- running libdbus code that may abort()
//
// This libdbus build has assertions enabled; an assertion failure on
// attacker-controlled input is itself a finding, so calls are guarded:
// SIGABRT inside a guarded region longjmps out and the text libdbus printed
// on stderr (captured in a temp file) becomes the verdict.

extern "C" const char *__asan_default_options() { return "detect_leaks=0"; }  // aborted calls leak by design
extern "C" void __sanitizer_set_death_callback(void (*)(void));

static sigjmp_buf g_jb;
static volatile sig_atomic_t g_in_lib = 0;
static int g_real_stderr = -1;
static FILE *g_capture = nullptr;
static const int P_ABORT = 3;

static void dump_capture() {
  if (!g_capture || g_real_stderr < 0) return;
  char buf[4096];
  ssize_t n;
  lseek(2, 0, SEEK_SET);
  while ((n = read(2, buf, sizeof buf)) > 0) { ssize_t ignored = write(g_real_stderr, buf, size_t(n)); (void)ignored; }
}
static void on_abort(int) {
  if (g_in_lib) siglongjmp(g_jb, 1);
  dump_capture();
  signal(SIGABRT, SIG_DFL);
  raise(SIGABRT);
}
static void guard_setup() {
  g_real_stderr = dup(2);
  g_capture = tmpfile();
  dup2(fileno(g_capture), 2);
  struct sigaction sa;
  std::memset(&sa, 0, sizeof sa);
  sa.sa_handler = on_abort;
  sa.sa_flags = SA_NODEFER;
  sigaction(SIGABRT, &sa, nullptr);
  __sanitizer_set_death_callback(dump_capture);
}
// first interesting line libdbus printed since `from`, then forget the capture
static std::string captured_since(off_t from) {
  std::string all(4096, '\0');
  ssize_t n = pread(2, &all[0], all.size(), from);
  all.resize(n > 0 ? size_t(n) : 0);
  if (ftruncate(2, from) == 0) lseek(2, from, SEEK_SET);
  size_t nl = all.find('\n');
  std::string line = all.substr(0, nl);
  size_t br = line.find("]: ");
  if (br != std::string::npos) line = line.substr(br + 3);
  return line;
}
// Runs f(); returns "" or the abort message.
template <class F> static std::string guarded(F f) {
  off_t from = lseek(2, 0, SEEK_CUR);
  g_in_lib = 1;
  if (sigsetjmp(g_jb, 0) == 0) { f(); g_in_lib = 0; return ""; }
  g_in_lib = 0;
  std::string m = captured_since(from);
  return m.empty() ? "abort()" : m;
}

// ---------------------------------------------------------------- libdbus side

struct LibResult { int verdict; DBusMessage *msg; std::string err; std::string dest, sender; };

static std::string nn(const char *s) { return s ? s : ""; }

static LibResult lib_parse(const std::string &x) {
  LibResult r{P_NEED_MORE, nullptr, "", "", ""};
  int need = dbus_message_demarshal_bytes_needed(x.data(), int(x.size()));
  if (need < 0) { r.verdict = P_INVALID; r.err = "bytes_needed=-1"; return r; }
  if (need == 0 || size_t(need) > x.size()) return r;
  DBusError e;
  dbus_error_init(&e);
  r.msg = dbus_message_demarshal(x.data(), need, &e);
  if (r.msg) {
    r.verdict = P_OK; r.err = "len=" + std::to_string(need);
    r.dest = nn(dbus_message_get_destination(r.msg)); r.sender = nn(dbus_message_get_sender(r.msg));
  }
  else { r.verdict = P_INVALID; r.err = e.message ? e.message : "?"; }
  dbus_error_free(&e);
  return r;
}

// compare a libdbus iterator position with a wire::Value; returns "" or a description
static std::string cmp_value(DBusMessageIter *it, const Value &v) {
  g_value_checks++;
  int t = dbus_message_iter_get_arg_type(it);
  if (t != int(v.type)) return std::string("type ") + char(t ? t : '0') + " vs " + v.type;
  char *s = dbus_message_iter_get_signature(it);
  std::string lsig = nn(s);
  dbus_free(s);
  if (lsig != v.signature()) return "sig " + lsig + " vs " + v.signature();
  switch (v.type) {
    case 's': case 'o': case 'g': {
      const char *p = nullptr;
      dbus_message_iter_get_basic(it, &p);
      return nn(p) == v.str ? "" : "text " + nn(p) + " vs " + v.str;
    }
    case 'h': return "";  // would dup() a descriptor that does not exist here
    case 'a': case 'r': case 'e': case 'v': {
      DBusMessageIter sub;
      dbus_message_iter_recurse(it, &sub);
      size_t i = 0;
      while (dbus_message_iter_get_arg_type(&sub) != DBUS_TYPE_INVALID) {
        if (i >= v.kids.size()) return "more elements in libdbus";
        std::string d = cmp_value(&sub, v.kids[i++]);
        if (!d.empty()) return d;
        dbus_message_iter_next(&sub);
      }
      return i == v.kids.size() ? "" : "fewer elements in libdbus";
    }
    default: {
      DBusBasicValue b;
      std::memset(&b, 0, sizeof b);
      dbus_message_iter_get_basic(it, &b);
      uint64_t u = 0;
      switch (v.type) {
        case 'y': u = b.byt; break;
        case 'b': u = b.bool_val; break;
        case 'n': case 'q': u = b.u16; break;
        case 'i': case 'u': u = b.u32; break;
        default: u = b.u64; break;
      }
      return u == v.u ? "" : "fixed value differs for " + std::string(1, v.type);
    }
  }
}

// deep comparison of an accepted message; "" when identical
static std::string cmp_msg(DBusMessage *lm, const Msg &m, const std::string &bytes) {
  if (dbus_message_get_type(lm) != int(m.type)) return "type";
  if (dbus_message_get_serial(lm) != m.serial) return "serial";
  if (dbus_message_get_reply_serial(lm) != m.reply_serial()) return "reply_serial";
  if (bool(dbus_message_get_no_reply(lm)) != bool(m.flags & FL_NO_REPLY_EXPECTED)) return "flag no_reply";
  if (bool(dbus_message_get_auto_start(lm)) == bool(m.flags & FL_NO_AUTO_START)) return "flag auto_start";
  if (bool(dbus_message_get_allow_interactive_authorization(lm)) != bool(m.flags & FL_ALLOW_INTERACTIVE_AUTH)) return "flag interactive";
  if (nn(dbus_message_get_path(lm)) != m.path() || (dbus_message_get_path(lm) != nullptr) != m.has_field(F_PATH)) return "path";
  if (nn(dbus_message_get_interface(lm)) != m.interface() || (dbus_message_get_interface(lm) != nullptr) != m.has_field(F_INTERFACE)) return "interface";
  if (nn(dbus_message_get_member(lm)) != m.member() || (dbus_message_get_member(lm) != nullptr) != m.has_field(F_MEMBER)) return "member";
  if (nn(dbus_message_get_error_name(lm)) != m.error_name() || (dbus_message_get_error_name(lm) != nullptr) != m.has_field(F_ERROR_NAME)) return "error_name";
  if (nn(dbus_message_get_destination(lm)) != m.destination() || (dbus_message_get_destination(lm) != nullptr) != m.has_field(F_DESTINATION)) return "destination";
  if (nn(dbus_message_get_sender(lm)) != m.sender() || (dbus_message_get_sender(lm) != nullptr) != m.has_field(F_SENDER)) return "sender";
  if (nn(dbus_message_get_signature(lm)) != m.body_sig) return "signature " + nn(dbus_message_get_signature(lm)) + " vs " + m.body_sig;
  DBusMessageIter it;
  dbus_message_iter_init(lm, &it);
  size_t i = 0;
  while (dbus_message_iter_get_arg_type(&it) != DBUS_TYPE_INVALID) {
    if (i >= m.body.size()) return "more body args in libdbus";
    std::string d = cmp_value(&it, m.body[i++]);
    if (!d.empty()) return "body arg " + std::to_string(i - 1) + ": " + d;
    dbus_message_iter_next(&it);
  }
  if (i != m.body.size()) return "fewer body args in libdbus";
  // libdbus' own re-marshalling must describe the same message (it may byte-swap)
  char *out = nullptr;
  int len = 0;
  if (dbus_message_marshal(lm, &out, &len)) {
    std::string again(out, size_t(len));
    dbus_free(out);
    ParseResult r = parse(again, [] { Limits l; l.max_unix_fds_available = 0; return l; }());
    if (r.status != P_OK) return "libdbus re-marshal does not parse: " + r.reason;
    Msg a = r.msg, b = m;
    a.big_endian = b.big_endian = false;
    if (!(a == b)) return "libdbus re-marshal differs: " + a.repr();
    if (again[0] == bytes[0] && again != bytes.substr(0, again.size())) return "libdbus re-marshal bytes differ";
  }
  return "";
}

// ---------------------------------------------------------------- known disagreement classes (DISAGREEMENTS.md)

// Returns the DISAGREEMENTS.md id when the witness belongs to a documented class, else "".
static std::string classify(const ParseResult &w, const LibResult &l, const std::string &x);

static void compare(const std::string &x, const char *origin) {
  static Limits lim = [] { Limits l; l.max_unix_fds_available = 0; return l; }();
  g_compared++;
  ParseResult w = parse(x, lim);
  LibResult l{P_NEED_MORE, nullptr, "", "", ""};
  std::string detail;
  bool agree = false;
  const char *volatile phase = "demarshal";
  std::string aborted = guarded([&] {
    l = lib_parse(x);
    agree = int(w.status) == l.verdict;
    if (l.verdict == P_OK) phase = "inspecting the accepted message";
    if (agree && w.status == P_OK) {
      if (size_t(std::atoi(l.err.c_str() + 4)) != w.total_len) { agree = false; detail = "length " + l.err + " vs " + std::to_string(w.total_len); }
      else { detail = cmp_msg(l.msg, w.msg, x); agree = detail.empty(); }
    } else if (l.verdict == P_OK) {   // exercise the accepted message anyway: libdbus must survive its own verdict
      Msg none;
      (void)cmp_msg(l.msg, none, x);
    }
    if (l.msg) dbus_message_unref(l.msg);
    l.msg = nullptr;
  });
  if (!aborted.empty()) { agree = false; l.verdict = P_ABORT; l.err = std::string("while ") + phase + ": " + aborted; l.msg = nullptr; }
  // wire.h lets parse() reject from the first 16 bytes; libdbus' bytes_needed only reports the length.  The
  // final verdict on the complete message is compared by big_header_array() instead.
  if (w.status == P_INVALID && l.verdict == P_NEED_MORE && w.reason == "header-array-len") { g_early++; return; }
  if (agree) {
    (w.status == P_OK ? g_both_ok : w.status == P_INVALID ? g_both_bad : g_both_need)++;
  } else {
    std::string known = classify(w, l, x);
    std::string key = known.empty() ? std::string("wire=") + vname(w.status) + "(" + w.reason + ") lib=" + vname(l.verdict) + "(" + (l.verdict == P_OK ? "" : l.err) + ")" +
                                          (detail.empty() ? "" : " content: " + detail.substr(0, 40))
                                    : known;
    Witness &wi = (known.empty() ? g_unknown : g_known)[key];
    wi.count++;
    if (wi.bytes.empty() || x.size() < wi.bytes.size()) {
      wi.bytes = x;
      wi.detail = std::string(origin) + "; wire=" + vname(w.status) + "(" + w.reason + ") lib=" + vname(l.verdict) + "(" + l.err + ") " + detail +
                  (w.status == P_OK ? "\n      " + w.msg.repr() : "");
    }
  }
}

// ---------------------------------------------------------------- grammar predicates

static long g_gram = 0;
static std::map<std::string, Witness> g_gram_known, g_gram_unknown;

static std::string classify_grammar(const std::string &what, const std::string &s, bool w, bool l);

static void gram(const char *what, const std::string &s, bool w, bool l) {
  g_gram++;
  if (w == l) return;
  std::string known = classify_grammar(what, s, w, l);
  std::string key = known.empty() ? std::string(what) + (w ? " wire=valid lib=invalid" : " wire=invalid lib=valid") : known;
  Witness &wi = (known.empty() ? g_gram_unknown : g_gram_known)[key];
  wi.count++;
  if (wi.bytes.empty() || s.size() < wi.bytes.size()) { wi.bytes = s; wi.detail = std::string(what) + (w ? " wire=valid lib=invalid" : " wire=invalid lib=valid"); }
}

static void grammar_one(const std::string &s) {
  if (s.find('\0') != std::string::npos) return;  // the libdbus API takes C strings
  const char *c = s.c_str();
  bool l[8] = {false};
  std::string aborted = guarded([&] {
    l[0] = dbus_validate_utf8(c, nullptr);
    // dbus_validate_* reject invalid UTF-8 first; every wire grammar is ASCII-only so the conjunction is implied
    l[1] = dbus_validate_path(c, nullptr);
    l[2] = dbus_validate_interface(c, nullptr);
    l[3] = dbus_validate_member(c, nullptr);
    l[4] = dbus_validate_error_name(c, nullptr);
    l[5] = dbus_validate_bus_name(c, nullptr);
    l[6] = dbus_signature_validate(c, nullptr);
    l[7] = dbus_signature_validate_single(c, nullptr);
  });
  if (!aborted.empty()) { Witness &wi = g_gram_unknown["libdbus ABORT in validators: " + aborted]; wi.count++; wi.bytes = s; return; }
  gram("utf8", s, valid_utf8(s), l[0]);
  gram("path", s, valid_path(s), l[1]);
  gram("interface", s, valid_interface(s), l[2]);
  gram("member", s, valid_member(s), l[3]);
  gram("error_name", s, valid_error_name(s), l[4]);
  gram("bus_name", s, valid_bus_name(s), l[5]);
  gram("signature", s, valid_signature(s), l[6]);
  gram("single_type", s, valid_single_type(s), l[7]);
}

// a valid signature with two of its closing brackets (or two openers) exchanged: "(a{ss})" -> "(a{ss)}"
static std::string swap_brackets(Rng &r, std::string s) {
  for (const char *pair : {")}", "({"}) {
    std::vector<size_t> a, b;
    for (size_t i = 0; i < s.size(); i++) { if (s[i] == pair[0]) a.push_back(i); if (s[i] == pair[1]) b.push_back(i); }
    if (!a.empty() && !b.empty() && r.chance(70)) { std::swap(s[a[r.below(uint32_t(a.size()))]], s[b[r.below(uint32_t(b.size()))]]); return s; }
  }
  if (!s.empty()) s[r.below(uint32_t(s.size()))] = "(){}"[r.below(4)];
  return s;
}
static std::string gen_bracketed_type(Rng &r) {
  for (;;) { std::string t = wiregen::gen_type(r, 4); if (t.find('(') != std::string::npos && t.find('{') != std::string::npos) return t; }
}

static std::string rnd_from(Rng &r, const char *alphabet, uint32_t maxlen) {
  std::string s;
  size_t al = std::strlen(alphabet);
  for (uint32_t i = 0, n = r.below(maxlen + 1); i < n; i++) s += alphabet[r.below(uint32_t(al))];
  return s;
}

static void grammar_diff(Rng &r, int n) {
  static const char *const alph[] = {"ab.", "a1._-:", "/a_1", "/a/.-", "a.b:1-_Z9 ", "ai(){}vs", "a{}sv(i)yg", "ybnqiuxtdsoghva(){}rem*?", "aaaa((({s"};
  for (int i = 0; i < n; i++) {
    grammar_one(rnd_from(r, alph[r.below(sizeof alph / sizeof *alph)], 1 + r.below(10)));
    // valid things and single-character mutations of them
    std::string s;
    switch (r.below(7)) {
      case 0: s = wiregen::gen_busname(r); break;
      case 1: s = wiregen::gen_interface(r); break;
      case 2: s = wiregen::gen_member(r); break;
      case 3: s = wiregen::gen_path(r); break;
      case 4: s = wiregen::gen_type(r, 4) + (r.chance(50) ? wiregen::gen_type(r, 3) : ""); break;
      case 5: s = wiregen::gen_utf8(r); break;
      default: { s = wiregen::gen_utf8(r, 4); if (!s.empty()) s[r.below(uint32_t(s.size()))] = char(0x80 + r.below(0x80)); break; }
    }
    grammar_one(s);
    if (i % 4 == 0) grammar_one(swap_brackets(r, gen_bracketed_type(r)));
    if (!s.empty()) {
      static const char repl[] = ".-:/_09aZ {}()\x7f\x80\xc3";
      std::string t = s;
      size_t at = r.below(uint32_t(t.size()));
      switch (r.below(3)) {
        case 0: t[at] = repl[r.below(sizeof repl - 1)]; break;
        case 1: t.insert(at, 1, repl[r.below(sizeof repl - 1)]); break;
        default: t.erase(at, 1); break;
      }
      grammar_one(t);
    }
  }
  // every 1-, 2- and 3-byte UTF-8-ish sequence class boundary, exhaustively for 2 bytes
  for (int a = 1; a < 256; a++) {
    grammar_one(std::string(1, char(a)));
    for (int b = 1; b < 256; b++) grammar_one(std::string(1, char(a)) + char(b));
  }
  for (int a = 0xe0; a < 0xf8; a++)
    for (int b = 0x80; b < 0xc0; b++) {
      grammar_one(std::string(1, char(a)) + char(b) + "\x80");
      grammar_one(std::string(1, char(a)) + char(b) + "\xbf");
      grammar_one(std::string(1, char(a)) + char(b) + "\x80\x80");
      grammar_one(std::string(1, char(a)) + char(b) + "\xbf\xbf");
      grammar_one(std::string(1, char(a)) + char(b) + "\xbf\xbe");
    }
  // length limits
  for (int len : {254, 255, 256}) {
    grammar_one("a." + std::string(size_t(len - 2), 'b'));
    grammar_one(":1." + std::string(size_t(len - 3), '2'));
    grammar_one(std::string(size_t(len), 'm'));
    grammar_one(std::string(size_t(len), 'i'));
    grammar_one("/" + std::string(size_t(len - 1), 'p'));
  }
  // nesting limits
  auto rep = [](const std::string &s, int k) { std::string o; while (k-- > 0) o += s; return o; };
  for (int k : {31, 32, 33}) {
    grammar_one(rep("a", k) + "i");
    grammar_one(rep("(", k) + "i" + rep(")", k));
    grammar_one(rep("a", k) + rep("(", 32) + "i" + rep(")", 32));
    grammar_one(rep("a", 32) + rep("(", k) + "i" + rep(")", k));
    grammar_one(rep("a(", k) + "i" + rep(")", k));
    grammar_one(rep("a{s", k) + "i" + rep("}", k));
    grammar_one(rep("(", k) + "a{sv}" + rep(")", k));
    grammar_one(rep("(", k - 1) + "a{s(i)}" + rep(")", k - 1));
    grammar_one(rep("(", k) + "i" + rep(")", k) + rep("a", k) + "i");
  }
}

// ---------------------------------------------------------------- mutations

static void put32(std::string &b, size_t at, uint32_t v) {
  bool be = b[0] == 'B';
  for (int i = 0; i < 4; i++) b[at + size_t(i)] = char((v >> (be ? 8 * (3 - i) : 8 * i)) & 0xff);
}
static uint32_t get32(const std::string &b, size_t at) {
  bool be = b[0] == 'B';
  uint32_t v = 0;
  for (int i = 0; i < 4; i++) v |= uint32_t(uint8_t(b[at + size_t(i)])) << (be ? 8 * (3 - i) : 8 * i);
  return v;
}

static Value *random_node(Rng &r, Value &v, char want) {  // some node of type `want` below v, or null
  std::vector<Value *> found, stack{&v};
  while (!stack.empty()) {
    Value *c = stack.back(); stack.pop_back();
    if (c->type == want) found.push_back(c);
    for (Value &k : c->kids) stack.push_back(&k);
  }
  return found.empty() ? nullptr : found[r.below(uint32_t(found.size()))];
}

static std::string mutate_text(Rng &r, std::string s) {
  static const char repl[] = ".-:/_09aZ {}()\x7f\x80\xc3\xff";
  switch (r.below(6)) {
    case 0: if (!s.empty()) s[r.below(uint32_t(s.size()))] = repl[r.below(sizeof repl - 1)]; break;
    case 1: s.insert(r.below(uint32_t(s.size() + 1)), 1, repl[r.below(sizeof repl - 1)]); break;
    case 2: if (!s.empty()) s.erase(r.below(uint32_t(s.size())), 1); break;
    case 3: s = ""; break;
    case 4: s += std::string(256 - std::min<size_t>(s.size(), 255) + r.below(2) - 1, 'x'); break;  // length 255 or 256
    default: s.insert(r.below(uint32_t(s.size() + 1)), 1, '\0'); break;
  }
  return s;
}

// hostile edits at the Msg level, marshalled faithfully by wire::marshal
static Msg mutate_msg(Rng &r, Msg m, std::string *what) {
  switch (r.below(17)) {
    case 0: {
      *what = "bool-range";
      for (Value &b : m.body) if (Value *n = random_node(r, b, 'b')) { n->u = r.chance(50) ? 2 : uint32_t(r.next()); return m; }
      Value v = Value::boolean(true); v.u = 2 + r.below(3);
      m.body.push_back(v); m.set_field(F_SIGNATURE, Value::sigval(m.body_sig + "b"));
      return m;
    }
    case 1: { *what = "dup-field"; if (!m.fields.empty()) { Field f = m.fields[r.below(uint32_t(m.fields.size()))]; m.fields.insert(m.fields.begin() + r.below(uint32_t(m.fields.size() + 1)), f); } return m; }
    case 2: {
      *what = "field-wrong-type";
      if (m.fields.empty()) return m;
      Field &f = m.fields[r.below(uint32_t(m.fields.size()))];
      int budget = 3;
      Value nv = wiregen::gen_value(r, wiregen::gen_type(r, 1), budget, 0);
      if (f.code == F_SIGNATURE) return m;
      f.val = nv;
      return m;
    }
    case 3: { *what = "remove-field"; if (!m.fields.empty()) m.fields.erase(m.fields.begin() + r.below(uint32_t(m.fields.size()))); return m; }
    case 4: { *what = "serial-zero"; m.serial = 0; return m; }
    case 5: { *what = "version"; m.version = uint8_t(r.chance(50) ? 0 : r.next()); return m; }
    case 6: { *what = "type-zero"; m.type = 0; return m; }
    case 7: {
      *what = "field-text";
      std::vector<Field *> t;
      for (Field &f : m.fields) if (f.code <= 10 && (f.val.type == 's' || f.val.type == 'o' || f.val.type == 'g')) t.push_back(&f);
      if (!t.empty()) { Field *f = t[r.below(uint32_t(t.size()))]; if (f->code != F_SIGNATURE) f->val.str = mutate_text(r, f->val.str); }
      return m;
    }
    case 8: {
      *what = "body-text";
      for (char want : {'s', 'o', 'g'})
        for (Value &b : m.body) if (r.chance(50)) if (Value *n = random_node(r, b, want)) { n->str = mutate_text(r, n->str); return m; }
      return m;
    }
    case 9: { *what = "reply-serial-zero"; m.set_field(F_REPLY_SERIAL, Value::u32(0)); return m; }
    case 10: { *what = "unix-fds"; m.set_field(F_UNIX_FDS, Value::u32(1 + r.below(3))); return m; }
    case 11: {
      *what = "local";
      if (r.chance(50)) m.set_field(F_PATH, Value::path(r.chance(80) ? "/org/freedesktop/DBus/Local" : "/org/freedesktop/DBus/Local/x"));
      else m.set_field(F_INTERFACE, Value::string(r.chance(80) ? "org.freedesktop.DBus.Local" : "org.freedesktop.DBus.Locale"));
      return m;
    }
    case 12: {
      *what = "signature-mismatch";
      std::string s = m.body_sig;
      if (r.chance(25)) {   // mis-nested brackets in the SIGNATURE field, in a 'g' value, or in a variant
        std::string t = swap_brackets(r, gen_bracketed_type(r));
        switch (r.below(3)) {
          case 0: m.set_field(F_SIGNATURE, Value::sigval(m.body_sig + t)); m.body.push_back(Value::u64(0)); break;
          case 1: m.body.push_back(Value::sigval(t)); m.set_field(F_SIGNATURE, Value::sigval(m.body_sig + "g")); break;
          default: { Value v = Value::variant(Value::u64(0)); v.sig = t; m.body.push_back(v); m.set_field(F_SIGNATURE, Value::sigval(m.body_sig + "v")); }
        }
        return m;
      }
      if (r.chance(50) && !s.empty()) s.erase(r.below(uint32_t(s.size())), 1); else s.insert(r.below(uint32_t(s.size() + 1)), 1, "ybnqiuxtdsogha(){}v"[r.below(19)]);
      m.set_field(F_SIGNATURE, Value::sigval(s));
      return m;
    }
    case 13: {
      *what = "variant-sig";
      for (Value &b : m.body) if (Value *n = random_node(r, b, 'v')) { n->sig = mutate_text(r, n->sig); return m; }
      Value v = Value::variant(Value::u32(1)); v.sig = r.chance(50) ? "uu" : ""; if (v.sig.empty()) v.kids.clear();
      m.body.push_back(v); m.set_field(F_SIGNATURE, Value::sigval(m.body_sig + "v"));
      return m;
    }
    case 14: {
      *what = "unknown-field-bad-content";
      Field f; f.code = uint8_t(r.chance(20) ? 0 : 11 + r.below(245));
      switch (r.below(5)) {
        case 0: f.val = Value::string("\xff"); break;
        case 1: f.val = Value::path("a"); break;
        case 2: f.val = Value::sigval("a"); break;
        case 3: f.val = Value::boolean(true); f.val.u = 3; break;
        default: f.val = Value::string("fine"); break;
      }
      m.fields.insert(m.fields.begin() + r.below(uint32_t(m.fields.size() + 1)), f);
      return m;
    }
    case 15: {
      *what = "deep";
      Value v = Value::byte(1);
      int k = 60 + int(r.below(8));
      if (r.chance(50)) for (int i = 0; i < k; i++) v = Value::variant(v);
      else { for (int i = 0; i < 30 + int(r.below(4)); i++) v = Value::strukt({v}); for (int i = 0; i < 30 + int(r.below(4)); i++) v = Value::array(v.signature(), {v}); if (r.chance(50)) v = Value::variant(v); }
      if (r.chance(70)) { m.body.push_back(v); std::string s; for (const Value &b : m.body) s += b.signature(); m.set_field(F_SIGNATURE, Value::sigval(s)); }
      else { Field f; f.code = uint8_t(11 + r.below(245)); f.val = v; m.fields.push_back(f); }
      return m;
    }
    default: {
      *what = "flip-endian-flag-only";  // same bytes, other endianness mark
      return m;
    }
  }
}

static void run_mutants(Rng &r, const Msg &m, const std::string &b) {
  static const char interesting[] = {0, 1, 2, 4, 8, 0x7f, char(0x80), char(0xff), 'a', '(', ')', '{', '}', 'v', 's', 'o', 'g', 'y', 'b', '.', '/', ':', '-', 'l', 'B', 'r', 'e'};
  // (a) bit flips, (b) byte replacement
  for (int i = 0; i < 8; i++) { std::string c = b; size_t at = r.below(uint32_t(c.size())); c[at] = char(c[at] ^ (1 << r.below(8))); compare(c, "bitflip"); }
  for (int i = 0; i < 8; i++) { std::string c = b; c[r.below(uint32_t(c.size()))] = interesting[r.below(sizeof interesting)]; compare(c, "byte-replace"); }
  // (c) +-1 (and friends) on aligned 32-bit words; offsets 4 (body length) and 12 (field array length) always
  for (int i = 0; i < 8; i++) {
    std::string c = b;
    size_t at = i == 0 ? 4 : i == 1 ? 12 : 4 * size_t(r.below(uint32_t(c.size() / 4)));
    static const int32_t delta[] = {1, -1, 1, -1, 2, 4, 8, -4, -8, 0x100, 1 << 26, 1 << 27};
    put32(c, at, get32(c, at) + uint32_t(delta[r.below(sizeof delta / sizeof *delta)]));
    compare(c, "word+-");
    if (at == 4 || at == 12) {  // keep the message "complete" under the new lengths
      ParseResult p = parse(c);
      if (p.total_len > c.size() && p.total_len < c.size() + 64) { c.append(p.total_len - c.size(), r.chance(50) ? '\0' : char(r.next())); compare(c, "word+-extended"); }
    }
  }
  // (d) zero bytes (padding, NUL terminators, high length bytes) made non-zero
  {
    std::vector<size_t> zeros;
    for (size_t i = 0; i < b.size(); i++) if (b[i] == 0) zeros.push_back(i);
    for (int i = 0; i < 8 && !zeros.empty(); i++) { std::string c = b; c[zeros[r.below(uint32_t(zeros.size()))]] = char(1 + r.below(255)); compare(c, "zero->nonzero"); }
  }
  // (e) truncation, with and without patching the body length
  for (int i = 0; i < 3; i++) compare(b.substr(0, r.below(uint32_t(b.size()))), "truncate");
  {
    uint32_t bl = get32(b, 4);
    if (bl) { uint32_t cut = 1 + r.below(bl); std::string c = b.substr(0, b.size() - cut); put32(c, 4, bl - cut); compare(c, "truncate-body-patched"); }
    std::string c = b;
    uint32_t add = 1 + r.below(9);
    for (uint32_t k = 0; k < add; k++) c += r.chance(50) ? '\0' : char(r.next());
    put32(c, 4, bl + add);
    compare(c, "extend-body-patched");
    compare(b + std::string(1 + r.below(20), char(r.next())), "junk-after");
  }
  // (g) hostile Msg edits
  for (int i = 0; i < 12; i++) {
    std::string what;
    Msg h = mutate_msg(r, m, &what);
    std::string c = marshal(h);
    if (what == "flip-endian-flag-only") c[0] = c[0] == 'l' ? 'B' : 'l';
    compare(c, what.c_str());
  }
}

// hand-picked boundary cases that random generation reaches rarely
static void targeted() {
  auto nestv = [](int k) { Value v = Value::byte(1); for (int i = 0; i < k; i++) v = Value::variant(v); return v; };
  for (bool be : {false, true}) {
    Msg base = Msg::method_call(1, "a.b", "/p", "i.f", "M");
    base.big_endian = be;
    auto go = [&](Msg m, const char *what) { compare(marshal(m), what); };
    for (int k = 60; k <= 67; k++) { Msg m = base; m.set_body({nestv(k)}); go(m, "variant-depth-body"); }
    for (int k = 58; k <= 66; k++) { Msg m = base; Field f; f.code = 77; f.val = nestv(k); m.fields.push_back(f); go(m, "variant-depth-header"); }
    for (int a = 30; a <= 33; a++)
      for (int s = 30; s <= 33; s++)
        for (int var = 0; var < 2; var++)
          for (int empty = 0; empty < 2; empty++) {
            Value v = var ? Value::variant(Value::byte(1)) : Value::byte(1);
            for (int i = 0; i < s; i++) v = Value::strukt({v});
            for (int i = 0; i < a; i++) v = (empty && i == a - 1) ? Value::array(v.signature()) : Value::array(v.signature(), {v});
            Msg m = base; m.set_body({v}); go(m, "container-depth");
          }
    // empty arrays of every alignment at every offset mod 8, padding zero and non-zero
    for (const char *es : {"y", "n", "u", "t", "s", "g", "v", "(y)", "{yy}", "ay", "at"})
      for (int lead = 0; lead < 8; lead++) {
        std::vector<Value> body;
        for (int i = 0; i < lead; i++) body.push_back(Value::byte(uint8_t(i + 1)));
        body.push_back(Value::array(es));
        body.push_back(Value::byte(9));
        Msg m = base; m.set_body(body);
        std::string b = marshal(m);
        compare(b, "empty-array");
        for (size_t i = b.size() - get32(b, 4); i < b.size(); i++)
          if (b[i] == 0) { std::string c = b; c[i] = 1; compare(c, "empty-array-dirty"); }
      }
    // name length limits inside messages
    for (int len : {255, 256}) {
      Msg m = base; m.set_field(F_MEMBER, Value::string(std::string(size_t(len), 'm'))); go(m, "member-len");
      m = base; m.set_field(F_INTERFACE, Value::string("a." + std::string(size_t(len - 2), 'b'))); go(m, "iface-len");
      m = base; m.set_field(F_DESTINATION, Value::string("a." + std::string(size_t(len - 2), 'b'))); go(m, "dest-len");
      m = base; m.set_field(F_SENDER, Value::string(":1." + std::string(size_t(len - 3), '2'))); go(m, "sender-len");
      m = base; m.set_body({Value::sigval(std::string(size_t(len), 'i'))}); go(m, "sig-len");
    }
    // every message type x every single missing / present field
    for (int type : {1, 2, 3, 4, 5, 200})
      for (int mask = 0; mask < 32; mask++) {
        Msg m; m.big_endian = be; m.type = uint8_t(type); m.serial = 9;
        if (mask & 1) m.set_field(F_PATH, Value::path("/p"));
        if (mask & 2) m.set_field(F_INTERFACE, Value::string("i.f"));
        if (mask & 4) m.set_field(F_MEMBER, Value::string("M"));
        if (mask & 8) m.set_field(F_ERROR_NAME, Value::string("e.r"));
        if (mask & 16) m.set_field(F_REPLY_SERIAL, Value::u32(4));
        go(m, "required-fields");
      }
    // every known field code with every basic type and a few containers
    for (uint8_t code = 0; code <= 12; code++)
      for (const Value &v : {Value::byte(1), Value::boolean(true), Value::i16(1), Value::u16(1), Value::i32(1), Value::u32(1), Value::i64(1), Value::u64(1),
                             Value::dbl_bits(1), Value::fd_index(0), Value::string("q.r"), Value::string("Q"), Value::path("/q"), Value::sigval(""), Value::sigval("i"),
                             Value::variant(Value::string("q.r")), Value::array("s"), Value::strukt({Value::string("q.r")})}) {
        Msg m = base;
        if (code == F_SIGNATURE && v.type == 'g' && !v.str.empty()) m.body.push_back(Value::i32(5));
        Field f; f.code = code; f.val = v;
        bool replaced = false;
        for (Field &g : m.fields) if (g.code == code) { g = f; replaced = true; }
        if (!replaced) m.fields.push_back(f);
        go(m, "field-type-matrix");
      }
    // fixed header bytes: all 256 values of each of the first four bytes
    for (int pos = 0; pos < 4; pos++)
      for (int v = 0; v < 256; v++) { std::string b = marshal(base); b[size_t(pos)] = char(v); compare(b, "fixed-header-byte"); }
    // length sanity from 16 bytes only
    for (uint32_t fl : {0u, 1u, 8u, (1u << 26) - 1, 1u << 26, (1u << 26) + 1, 1u << 27, 0x80000000u, 0xffffffffu})
      for (uint32_t bl : {0u, 1u, (1u << 26), (1u << 27) - 24, (1u << 27) - 16, (1u << 27) - 15, 1u << 27, 0x7fffffffu, 0x80000000u, 0xffffffffu}) {
        std::string b = marshal(base).substr(0, 16); put32(b, 4, bl); put32(b, 12, fl); compare(b, "length-sanity");
      }
  }
}

// Complete messages around the 2^26 array limit (64 MiB each; wire rejects them without decoding).
static void big_messages() {
  for (int which = 0; which < 3; which++) {
    // unknown message type 5, serial 1; either a huge header field (code 200, 'ay') or a huge body 'ay'
    const uint32_t n = which == 0 ? (1u << 26) - 4 : which == 1 ? (1u << 26) - 11 : (1u << 26) + 1;
    std::string b;
    if (which < 2) {  // field array = code, sig "ay", pad, length, n bytes  (12 + n bytes: 2^26+8 / 2^26+1)
      b = std::string("l\5\0\1", 4) + std::string(12, '\0') + std::string("\310\2ay\0\0\0\0", 8) + std::string(4, '\0') + std::string(n, 'x');
      put32(b, 8, 1); put32(b, 12, 12 + n); put32(b, 24, n);
      while (b.size() % 8) b += '\0';
    } else {          // SIGNATURE "ay", body = length n, n bytes
      b = std::string("l\5\0\1", 4) + std::string(12, '\0') + std::string("\10\1g\0\2ay\0", 8) + std::string(4, '\0') + std::string(n, 'x');
      put32(b, 8, 1); put32(b, 12, 8); put32(b, 4, 4 + n); put32(b, 24, n);
    }
    compare(b, which < 2 ? "big-header-field-array" : "big-body-array");
  }
}

// ---------------------------------------------------------------- known classes

static bool starts_with(const std::string &s, const std::string &p) { return s.compare(0, p.size(), p) == 0; }
static bool lax_unique(const std::string &s) {  // what libdbus takes for a unique name but the spec does not
  return !s.empty() && s[0] == ':' && !valid_unique_name(s);
}

// brackets balance in number but close in the wrong order, e.g. "a{y(yy})"
static bool misnested(const std::string &s) {
  std::string stack;
  bool wrong = false;
  if (s.find_first_not_of("ybnqiuxtdsoghav(){}") != std::string::npos) return false;
  for (char c : s) {
    if (c == '(' || c == '{') stack += c;
    else if (c == ')' || c == '}') {
      if (stack.empty()) return false;
      if (stack.back() != (c == ')' ? '(' : '{')) wrong = true;
      stack.pop_back();
    }
  }
  return wrong && stack.empty() && std::count(s.begin(), s.end(), '(') == std::count(s.begin(), s.end(), ')');
}
// does the byte string contain a marshalled SIGNATURE (len, text, NUL) whose text is mis-nested?
static bool contains_misnested_signature(const std::string &x) {
  for (size_t i = 0; i + 1 < x.size(); i++) {
    size_t len = uint8_t(x[i]);
    if (len >= 4 && i + 1 + len < x.size() && x[i + 1 + len] == 0 && misnested(x.substr(i + 1, len))) return true;
  }
  return false;
}

static std::string classify(const ParseResult &w, const LibResult &l, const std::string &x) {
  if (w.status == P_INVALID && contains_misnested_signature(x)) {
    if (l.verdict == P_OK && (w.reason == "sig" || w.reason == "variant-sig")) return "D6 mis-nested brackets in a signature accepted";
    if (l.verdict == P_ABORT && l.err.find("map_type_char_to_type") != std::string::npos) return "D6 mis-nested brackets in a signature: assertion failure";
  }
  if (l.verdict == P_ABORT && l.err.find("byteswap unix fds") != std::string::npos) return "D5 abort byte-swapping a UNIX_FD ('h') in a foreign-endian message";
  if (w.status == P_OK && l.verdict == P_INVALID) {
    const std::string li = "org.freedesktop.DBus.Local", lp = "/org/freedesktop/DBus/Local";
    if (l.err.find("Uses local interface") != std::string::npos && starts_with(w.msg.interface(), li) && w.msg.interface() != li) return "D3 Local interface matched by prefix";
    if (l.err.find("Uses local path") != std::string::npos && starts_with(w.msg.path(), lp) && w.msg.path() != lp) return "D3 Local path matched by prefix";
  }
  if (w.status == P_INVALID && l.verdict == P_OK) {
    if (w.reason == "field-value" && (lax_unique(l.dest) || lax_unique(l.sender))) return "D1 unique name without '.' / with empty element accepted";
    if (w.reason == "array-len-multiple") return "D4 fixed-size array length not a multiple of the element size accepted";
  }
  return "";
}
static std::string classify_grammar(const std::string &what, const std::string &s, bool w, bool l) {
  if (what == "bus_name" && !w && l && lax_unique(s)) return "D1 unique name without '.' / with empty element accepted";
  if ((what == "signature" || what == "single_type") && !w && l && misnested(s)) return "D6 mis-nested brackets in a signature accepted";
  if ((what == "signature" || what == "single_type") && !w && l) {
    // valid once dict entries stop counting as struct levels?
    std::string t = s;
    for (char &c : t) if (c == '{') c = '<';   // count manually below
    int ad = 0, sd = 0, dd = 0, maxs = 0, maxd = 0, maxsum = 0;
    (void)ad;
    for (char c : s) {
      if (c == '(') sd++; else if (c == ')') sd--; else if (c == '{') dd++; else if (c == '}') dd--;
      maxs = std::max(maxs, sd); maxd = std::max(maxd, dd); maxsum = std::max(maxsum, sd + dd);
    }
    if (maxs <= 32 && maxd <= 32 && maxsum > 32) return "D2 dict entries not counted against the 32-struct nesting limit";
  }
  return "";
}

static void report(const char *title, const std::map<std::string, Witness> &m, bool text) {
  std::printf("---- %s: %zu classes\n", title, m.size());
  for (const auto &kv : m) {
    std::printf("  [%ld x] %s\n", kv.second.count, kv.first.c_str());
    if (g_verbose || title[0] == 'U') {
      std::printf("      %s\n", kv.second.detail.c_str());
      std::printf("      witness (%zu bytes): %s%s\n", kv.second.bytes.size(), hex_encode(kv.second.bytes).c_str(),
                  text ? (" = \"" + kv.second.bytes + "\"").c_str() : "");
    }
  }
}

int main(int argc, char **argv) {
  int count = argc > 1 ? std::atoi(argv[1]) : 10000;
  uint64_t seed = argc > 2 ? std::strtoull(argv[2], nullptr, 0) : 1;
  g_verbose = argc > 3 && std::strcmp(argv[3], "-v") == 0;
  guard_setup();
  Rng gr(seed ^ 0x1234);
  grammar_diff(gr, count * 5);
  targeted();
  big_messages();
  for (int i = 0; i < count; i++) {
    Rng r(seed + uint64_t(i));
    wiregen::MsgOpts opts;
    opts.fd_type = i % 2 == 0;   // D5 (abort on 'h' in big-endian messages) would otherwise hide half of the deep comparisons
    Msg m = wiregen::gen_msg(r, opts);
    std::string b = marshal(m);
    compare(b, "valid");
    run_mutants(r, m, b);
  }
  std::printf("grammar comparisons: %ld\n", g_gram);
  std::printf("early length rejections by wire while libdbus still waits for bytes: %ld\n", g_early);
  std::printf("message comparisons: %ld (both OK %ld, both INVALID %ld, both NEED_MORE %ld; %ld values compared deeply)\n", g_compared, g_both_ok, g_both_bad,
              g_both_need, g_value_checks);
  report("Known grammar disagreements (DISAGREEMENTS.md)", g_gram_known, true);
  report("Known message disagreements (DISAGREEMENTS.md)", g_known, false);
  report("UNEXPLAINED grammar disagreements", g_gram_unknown, true);
  report("UNEXPLAINED message disagreements", g_unknown, false);
  dump_capture();   // anything left on the captured stderr (sanitizer reports, libdbus warnings)
  return (g_unknown.empty() && g_gram_unknown.empty()) ? 0 : 1;
}
