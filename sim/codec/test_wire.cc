// sim/codec/test_wire.cc — unit + property tests for wire.cc.
// clang++ -std=c++17 -O1 -g -fsanitize=address,undefined -I/verif/sim/codec wire.cc test_wire.cc -o /tmp/test_wire
#include <cstdio>
#include <cstdlib>
#include <functional>

#include "gen.h"
#include "wire.h"

using namespace wire;

static long g_checks = 0, g_fail = 0;
#define CHECK(cond)                                                         \
  do {                                                                      \
    g_checks++;                                                             \
    if (!(cond)) {                                                          \
      if (++g_fail <= 40) std::printf("FAIL %s:%d: %s\n", __FILE__, __LINE__, #cond); \
    }                                                                       \
  } while (0)
#define CHECK_MSG(cond, ...)                                                \
  do {                                                                      \
    g_checks++;                                                             \
    if (!(cond)) {                                                          \
      if (++g_fail <= 40) { std::printf("FAIL %s:%d: %s -- ", __FILE__, __LINE__, #cond); std::printf(__VA_ARGS__); std::printf("\n"); } \
    }                                                                       \
  } while (0)

static std::string unhex(const std::string &spaced) {
  std::string h, out;
  for (char c : spaced) if (c != ' ' && c != '\n') h += c;
  if (!hex_decode(h, &out)) { std::printf("bad hex in test: %s\n", spaced.c_str()); std::exit(2); }
  return out;
}
static std::string rep(const std::string &s, int n) { std::string o; while (n-- > 0) o += s; return o; }
static std::string S(const char *p, size_t n) { return std::string(p, n); }

static void put32(std::string &b, size_t at, uint32_t v) {
  bool be = b[0] == 'B';
  for (int i = 0; i < 4; i++) b[at + size_t(i)] = char((v >> (be ? 8 * (3 - i) : 8 * i)) & 0xff);
}
static uint32_t get32(const std::string &b, size_t at) {
  bool be = b[0] == 'B';
  uint32_t v = 0;
  for (int i = 0; i < 4; i++) v |= uint32_t(uint8_t(b[at + size_t(i)])) << (be ? 8 * (3 - i) : 8 * i);
  return v;
}

// ---------------------------------------------------------------- grammar predicates

static void test_utf8() {
  for (const char *ok : {"", "abc", "\xc3\xa9", "\xc2\x80", "\xdf\xbf", "\xe0\xa0\x80", "\xef\xbf\xbe" /*U+FFFE*/,
                         "\xef\xbf\xbf" /*U+FFFF*/, "\xef\xb7\x90" /*U+FDD0*/, "\xef\xb7\xaf" /*U+FDEF*/,
                         "\xf4\x8f\xbf\xbf" /*U+10FFFF*/, "\xf0\x9f\xbf\xbe" /*U+1FFFE*/, "\xf0\x90\x80\x80",
                         "\xed\x9f\xbf" /*U+D7FF*/, "\xee\x80\x80" /*U+E000*/, "\x01\x7f", "a\xe2\x82\xacz"})
    CHECK_MSG(valid_utf8(ok), "%s", hex_encode(ok).c_str());
  for (const char *bad : {"\xc0\x80", "\xc0\xaf", "\xc1\xbf", "\xe0\x80\x80", "\xe0\x9f\xbf", "\xf0\x80\x80\x80",
                          "\xf0\x8f\xbf\xbf", "\xed\xa0\x80" /*D800*/, "\xed\xbf\xbf" /*DFFF*/, "\xed\xaf\xbf",
                          "\xf4\x90\x80\x80" /*110000*/, "\xf5\x80\x80\x80", "\xf8\x88\x80\x80\x80",
                          "\xfc\x84\x80\x80\x80\x80", "\x80", "\xbf", "\xc3", "\xe2\x82", "\xf0\x9f\x98", "\xc3(",
                          "\xe2(\xa1", "\xe2\x82(", "\xf0(\x8c\xbc", "\xf0\x90(\xbc", "\xf0\x90\x8c(", "\xff", "\xfe",
                          "a\x80", "\xc3\xa9\xa9"})
    CHECK_MSG(!valid_utf8(bad), "%s", hex_encode(bad).c_str());
  CHECK(!valid_utf8(S("a\0b", 3)));
  CHECK(!valid_utf8(S("\0", 1)));
}

static void test_names() {
  // bus names
  for (const char *ok : {"a.b", "org.freedesktop.DBus", ":1.42", ":1.2.3", ":a.b", "a-b.c-d", "_a._b", "a1.b2",
                         ":0.0", ":-.-", "-a.b", "a.-", "A.B", ":1-2.3-4", "foo.bar_baz.Q9"})
    CHECK_MSG(valid_bus_name(ok), "%s", ok);
  for (const char *bad : {"", "a", ":", ":1", ":a", ".a.b", "a.b.", "a..b", ":.a", ":a.", ":a..b", "1a.b", "a.1b",
                          "a.b c", "a.b/c", "a:b.c", "::1.2", "a.b:", "a.\xc3\xa9", "a.b!", "org", " a.b", "a.b\n"})
    CHECK_MSG(!valid_bus_name(bad), "%s", bad);
  CHECK(valid_unique_name(":1.2") && !valid_wellknown_name(":1.2"));
  CHECK(!valid_unique_name("a.b") && valid_wellknown_name("a.b"));
  CHECK(!valid_unique_name("") && !valid_wellknown_name(""));
  std::string n255 = "a." + rep("b", 253), n256 = "a." + rep("b", 254);
  CHECK(n255.size() == 255 && valid_bus_name(n255) && valid_interface(n255) && valid_error_name(n255));
  CHECK(!valid_bus_name(n256) && !valid_interface(n256) && !valid_error_name(n256));
  CHECK(valid_bus_name(":" + rep("1.", 126) + "12") && !valid_bus_name(":" + rep("1.", 126) + "123"));
  // interfaces / errors
  for (const char *ok : {"a.b", "org.freedesktop.DBus", "_a._1", "a1.b2.c3", "A.B.C.D.E", "org._7_zip.Plugin"})
    CHECK_MSG(valid_interface(ok) && valid_error_name(ok), "%s", ok);
  for (const char *bad : {"", "a", ".a.b", "a.b.", "a..b", "1a.b", "a.1b", "a-b.c", "a.b-c", ":1.2", "a.b c", "a.b/",
                          "a.\xc3\xa9", ".", "..", "a.", ".a"})
    CHECK_MSG(!valid_interface(bad) && !valid_error_name(bad), "%s", bad);
  // members
  for (const char *ok : {"a", "Hello", "_", "_1", "a1", "GetAll_2"}) CHECK_MSG(valid_member(ok), "%s", ok);
  for (const char *bad : {"", "1a", "a.b", "a-b", "a b", ".", "a.", "\xc3\xa9", "a!", "9"}) CHECK_MSG(!valid_member(bad), "%s", bad);
  CHECK(valid_member(rep("m", 255)) && !valid_member(rep("m", 256)));
  // paths
  for (const char *ok : {"/", "/a", "/a/b", "/_", "/1", "/0/1/2", "/org/freedesktop/DBus", "/A_b/C9"})
    CHECK_MSG(valid_path(ok), "%s", ok);
  for (const char *bad : {"", "a", "a/b", "//", "/a/", "/a//b", "//a", "/a-b", "/a.b", "/a b", "/a/b/", "/\xc3\xa9", "/a\n", " /a"})
    CHECK_MSG(!valid_path(bad), "%s", bad);
  CHECK(valid_path("/" + rep("a", 1000) + rep("/b", 1000)));  // any length
}

static void test_signatures() {
  for (const char *ok : {"", "i", "ai", "aai", "a{sv}", "(ii)", "a(ii)", "(i(ii))", "((ii)i)", "a{s(ii)}", "a{sa{sv}}", "v",
                         "av", "(v)", "ybnqiuxtdsoghv", "a{yv}a{bv}a{nv}a{qv}a{iv}a{uv}a{xv}a{tv}a{dv}a{sv}a{ov}a{gv}a{hv}",
                         "aa{ss}", "(a{ss})", "a(a{s(v)})", "iiai(ii)"})
    CHECK_MSG(valid_signature(ok), "%s", ok);
  for (const char *bad : {"a", "aa", "(ii", "ii)", "()", "(", ")", "{sv}", "{", "}", "a{s}", "a{sii}", "a{vs}", "a{(i)s}",
                          "a{ass}", "a{a{ss}s}", "a{}", "a{sv", "a{sv)", "(i}", "a(i}", "r", "e", "m", "*", "?", "@", "&", "^", "(r)",
                          "ar", "z", " ", "i i", "I", "S", "a{sv}}", "(())", "(i())", "ia", "(ia)", "a{sa}", "({sv})", "v{sv}",
                          "a{s{sv}}", "a{e}", "1"})
    CHECK_MSG(!valid_signature(bad), "%s", bad);
  CHECK(!valid_signature(S("i\0i", 3)));
  CHECK(valid_signature(rep("a", 32) + "i") && !valid_signature(rep("a", 33) + "i"));
  CHECK(valid_signature(rep("(", 32) + "i" + rep(")", 32)) && !valid_signature(rep("(", 33) + "i" + rep(")", 33)));
  CHECK(valid_signature(rep("a", 32) + rep("(", 32) + "i" + rep(")", 32)));
  CHECK(valid_signature(rep("a(", 32) + "i" + rep(")", 32)) && !valid_signature(rep("a(", 32) + "ai" + rep(")", 32)));
  CHECK(!valid_signature(rep("a(", 32) + "(i)" + rep(")", 32)));
  CHECK(valid_signature(rep("(", 31) + "a{sv}" + rep(")", 31)));   // dict entry counts as a struct level
  CHECK(!valid_signature(rep("(", 32) + "a{sv}" + rep(")", 32)));
  CHECK(valid_signature(rep("a{s", 32) + "i" + rep("}", 32)) && !valid_signature(rep("a{s", 33) + "i" + rep("}", 33)));
  CHECK(valid_signature(rep("(", 32) + "i" + rep(")", 32) + rep("(", 32) + "i" + rep(")", 32)));  // siblings do not add up
  CHECK(valid_signature(rep("i", 255)) && !valid_signature(rep("i", 256)));
  CHECK(valid_single_type("i") && valid_single_type("a{sv}") && valid_single_type("(ii)") && valid_single_type("v") && valid_single_type("aai"));
  CHECK(!valid_single_type("") && !valid_single_type("ii") && !valid_single_type("aiai") && !valid_single_type("(ii)(ii)") && !valid_single_type("a"));
  CHECK((split_signature("ia{sv}(i(ii))aaiv") == std::vector<std::string>{"i", "a{sv}", "(i(ii))", "aai", "v"}));
  CHECK(split_signature("").empty());
  const char *codes = "ybnqiuxtdsogav({hre";
  const int aligns[] = {1, 4, 2, 2, 4, 4, 8, 8, 8, 4, 4, 1, 4, 1, 8, 8, 4, 8, 8};
  for (int i = 0; codes[i]; i++) CHECK_MSG(alignment_of(codes[i]) == aligns[i], "%c", codes[i]);
}

static void test_misc() {
  CHECK(sha1_hex("") == "da39a3ee5e6b4b0d3255bfef95601890afd80709");
  CHECK(sha1_hex("abc") == "a9993e364706816aba3e25717850c26c9cd0d89d");
  CHECK(sha1_hex("abcdbcdecdefdefgefghfghighijhijkijkljklmklmnlmnomnopnopq") == "84983e441c3bd26ebaae4aa1f95129e5e54670f1");
  CHECK(sha1_hex(rep("a", 1000000)) == "34aa973cd4c4daa4f61eeb2bdbad27316534016f");
  CHECK(sha1_hex(rep("x", 55)).size() == 40 && sha1_hex(rep("x", 56)) != sha1_hex(rep("x", 55)));
  CHECK(sha1_hex("The quick brown fox jumps over the lazy dog") == "2fd4e1c67a2d28fced849ee1bb76e7391b93eb12");
  CHECK(hex_encode(S("\x00\xff\x10z", 4)) == "00ff107a");
  std::string out;
  CHECK(hex_decode("00FF107a", &out) && out == S("\x00\xff\x10z", 4));
  CHECK(hex_decode("", &out) && out.empty());
  CHECK(!hex_decode("0", &out) && !hex_decode("0g", &out) && !hex_decode("0 ", &out));
}

// ---------------------------------------------------------------- marshal vs hand-written bytes (spec examples)

static void test_marshal_known() {
  // spec "Marshalling basic types": strings 'foo', '+', 'bar' little endian at an 8-aligned position
  CHECK(marshal_body({Value::string("foo"), Value::string("+"), Value::string("bar")}, false) ==
        unhex("03000000 666f6f00 01000000 2b00 0000 03000000 62617200"));
  // spec "Marshalling containers": big-endian array with the 64-bit integer 5
  CHECK(marshal_body({Value::array("t", {Value::u64(5)})}, true) == unhex("00000008 00000000 0000000000000005"));
  // spec: big-endian variant containing 64-bit integer 5
  CHECK(marshal_body({Value::variant(Value::u64(5))}, true) == unhex("017400 0000000000 0000000000000005"));
  // empty arrays: padding to element alignment present even when empty
  CHECK(marshal_body({Value::array("t")}, false) == unhex("00000000 00000000"));
  CHECK(marshal_body({Value::array("(y)")}, false) == unhex("00000000 00000000"));
  CHECK(marshal_body({Value::array("{ss}")}, true) == unhex("00000000 00000000"));
  CHECK(marshal_body({Value::array("i")}, false) == unhex("00000000"));
  CHECK(marshal_body({Value::array("y")}, false) == unhex("00000000"));
  CHECK(marshal_body({Value::u32(7), Value::array("x")}, false) == unhex("07000000 00000000"));
  CHECK(marshal_body({Value::byte(1), Value::array("q"), Value::byte(2)}, false) == unhex("01000000 00000000 02"));
  // array of struct: inter-element padding counts, trailing does not
  CHECK(marshal_body({Value::array("(y)", {Value::strukt({Value::byte(1)}), Value::strukt({Value::byte(2)})}), Value::byte(9)}, false) ==
        unhex("09000000 00000000 01 00000000000000 02 09"));
  CHECK(marshal_body({Value::byte(1), Value::i16(-2), Value::boolean(true), Value::i64(-1), Value::sigval("ai"), Value::dbl_bits(0x3ff0000000000000ull)}, false) ==
        unhex("01 00 feff 01000000 ffffffffffffffff 02616900 00000000 000000000000f03f"));
  CHECK(marshal_body({Value::u16(0x1234), Value::u32(0x01020304), Value::fd_index(2)}, true) == unhex("1234 0000 01020304 00000002"));
  // the classic Hello method call
  Msg hello = Msg::method_call(1, "org.freedesktop.DBus", "/org/freedesktop/DBus", "org.freedesktop.DBus", "Hello");
  std::string expect = unhex(
      "6c010001 00000000 01000000 6e000000"
      "01016f00 15000000 2f6f72672f667265656465736b746f702f4442757300 0000"
      "06017300 14000000 6f72672e667265656465736b746f702e4442757300 000000"
      "02017300 14000000 6f72672e667265656465736b746f702e4442757300 000000"
      "03017300 05000000 48656c6c6f00 0000");
  CHECK_MSG(marshal(hello) == expect, "%s", hex_encode(marshal(hello)).c_str());
  ParseResult r = parse(expect);
  CHECK(r.status == P_OK && r.total_len == expect.size() && r.msg == hello);
  // a hand-written big-endian signal with a body "su"
  std::string sig = unhex(
      "42040001 0000000c 00000002 00000038"
      "01016f00 00000002 2f6100 00 00000000"
      "02017300 00000003 612e6200 00000000"
      "03017300 00000001 5800 0000 00000000"
      "08016700 02737500"
      "00000003 61626300 0000002a");
  r = parse(sig);
  CHECK_MSG(r.status == P_OK, "%s", r.reason.c_str());
  Msg s = Msg::signal(2, "/a", "a.b", "X", {Value::string("abc"), Value::u32(42)});
  s.big_endian = true;
  CHECK(r.msg == s && marshal(s) == sig);
  CHECK(s.path() == "/a" && s.interface() == "a.b" && s.member() == "X" && s.body_sig == "su" && !s.has_field(F_SENDER));
}

// ---------------------------------------------------------------- message validity rules

static ParseStatus st(const std::string &b, const Limits &l = Limits()) { return parse(b, l).status; }

static void expect_bad(const Msg &m, const char *reason, int line, const Limits &l = Limits()) {
  ParseResult r = parse(marshal(m), l);
  g_checks++;
  if (r.status != P_INVALID || (reason && r.reason != reason)) {
    g_fail++;
    std::printf("FAIL line %d: expected INVALID(%s) got status=%d reason=%s for %s\n", line, reason ? reason : "*", int(r.status),
                r.reason.c_str(), m.repr().c_str());
  }
}
static void expect_bad_bytes(const std::string &b, const char *reason, int line, const Limits &l = Limits()) {
  ParseResult r = parse(b, l);
  g_checks++;
  if (r.status != P_INVALID || (reason && r.reason != reason)) {
    g_fail++;
    std::printf("FAIL line %d: expected INVALID(%s) got status=%d reason=%s for %s\n", line, reason ? reason : "*", int(r.status),
                r.reason.c_str(), hex_encode(b).c_str());
  }
}
static void expect_ok(const Msg &m, int line, const Limits &l = Limits()) {
  std::string b = marshal(m);
  ParseResult r = parse(b, l);
  g_checks++;
  if (r.status != P_OK || r.total_len != b.size() || marshal(r.msg) != b) {
    g_fail++;
    std::printf("FAIL line %d: expected OK got status=%d reason=%s for %s\n", line, int(r.status), r.reason.c_str(), m.repr().c_str());
  }
}
#define BAD(m, why) expect_bad(m, why, __LINE__)
#define BADL(m, why, lim) expect_bad(m, why, __LINE__, lim)
#define BADB(b, why) expect_bad_bytes(b, why, __LINE__)
#define OK(m) expect_ok(m, __LINE__)
#define OKL(m, lim) expect_ok(m, __LINE__, lim)

static Msg base(uint8_t type, bool be) {
  Msg m;
  switch (type) {
    case T_CALL: m = Msg::method_call(7, "a.b", "/p", "i.f", "M"); break;
    case T_RETURN: m = Msg::method_return(7, 3, ":1.1"); break;
    case T_ERROR: m = Msg::error(7, 3, ":1.1", "e.r"); break;
    case T_SIGNAL: m = Msg::signal(7, "/p", "i.f", "M"); break;
    default: m.type = type; m.serial = 7; break;
  }
  m.big_endian = be;
  return m;
}
static Msg with(Msg m, uint8_t code, Value v) { m.set_field(code, std::move(v)); return m; }
static Msg without(Msg m, uint8_t code) { m.remove_field(code); return m; }
static Msg plus(Msg m, uint8_t code, Value v) { Field f; f.code = code; f.val = std::move(v); m.fields.push_back(f); return m; }
static Msg body(Msg m, std::vector<Value> b) { m.set_body(std::move(b)); return m; }

static Value nest_variants(int k, Value inner) { for (int i = 0; i < k; i++) inner = Value::variant(inner); return inner; }

static void test_header_rules(bool be) {
  for (uint8_t t : {T_CALL, T_RETURN, T_ERROR, T_SIGNAL}) OK(base(t, be));
  // fixed header
  { Msg m = base(T_CALL, be); m.version = 0; BAD(m, "version"); m.version = 2; BAD(m, "version"); }
  { Msg m = base(T_CALL, be); m.type = 0; BAD(m, "type-invalid"); }
  { Msg m = base(T_CALL, be); m.serial = 0; BAD(m, "serial-zero"); m.serial = 0xffffffffu; OK(m); }
  { Msg m = base(T_CALL, be); m.flags = 0xff; OK(m); CHECK(parse(marshal(m)).msg.flags == 0xff); }
  { std::string b = marshal(base(T_CALL, be)); b[0] = be ? 'b' : 'L'; BADB(b, "bad-endian"); b[0] = 0; BADB(b, "bad-endian"); }
  // unknown message types accepted, no required fields
  for (int t : {5, 6, 100, 255}) { Msg m = base(uint8_t(t), be); OK(m); OK(with(m, F_MEMBER, Value::string("M"))); }
  { Msg m = base(9, be); BAD(with(m, F_MEMBER, Value::string("1")), "field-value"); }  // ... but still well-formed
  // required fields
  BAD(without(base(T_CALL, be), F_PATH), "missing-field");
  BAD(without(base(T_CALL, be), F_MEMBER), "missing-field");
  OK(without(without(base(T_CALL, be), F_INTERFACE), F_DESTINATION));
  BAD(without(base(T_SIGNAL, be), F_PATH), "missing-field");
  BAD(without(base(T_SIGNAL, be), F_INTERFACE), "missing-field");
  BAD(without(base(T_SIGNAL, be), F_MEMBER), "missing-field");
  BAD(without(base(T_ERROR, be), F_ERROR_NAME), "missing-field");
  BAD(without(base(T_ERROR, be), F_REPLY_SERIAL), "missing-field");
  BAD(without(base(T_RETURN, be), F_REPLY_SERIAL), "missing-field");
  OK(without(base(T_RETURN, be), F_DESTINATION));
  // known fields in unexpected messages are accepted (but validated)
  OK(with(base(T_SIGNAL, be), F_REPLY_SERIAL, Value::u32(5)));
  OK(with(base(T_RETURN, be), F_PATH, Value::path("/x")));
  BAD(with(base(T_SIGNAL, be), F_REPLY_SERIAL, Value::u32(0)), "field-value");
  // field code 0
  BAD(plus(base(T_CALL, be), 0, Value::string("x")), "field-code-zero");
  BAD(plus(base(T_CALL, be), 0, Value::u32(1)), "field-code-zero");
  // wrong types for every known field, right types accepted
  const char *types = "?osssussguo";
  for (uint8_t code = 1; code <= 10; code++) {
    std::vector<Value> cands = {Value::path("/q"), Value::string("q.r"), Value::u32(1), Value::sigval(""), Value::byte(1), Value::i32(1),
                                Value::variant(Value::string("q.r")), Value::array("s", {Value::string("q.r")}), Value::strukt({Value::string("q.r")}),
                                Value::u64(1), Value::boolean(true), Value::fd_index(0)};
    for (Value v : cands) {
      if (code == F_MEMBER && v.type == 's') v.str = "Q";
      Msg m = with(base(T_CALL, be), code, v);
      if (code == F_SIGNATURE) { m.body.clear(); }
      if (v.signature() == std::string(1, types[code])) OK(m);
      else BAD(m, "field-type");
    }
  }
  // duplicates of every known field
  for (uint8_t code = 1; code <= 10; code++) {
    Value v = types[code] == 'o' ? Value::path("/q") : types[code] == 's' ? Value::string(code == F_MEMBER ? "Q" : "q.r") : types[code] == 'u' ? Value::u32(1) : Value::sigval("");
    Msg m = with(base(T_CALL, be), code, v);
    OK(m);
    BAD(plus(m, code, v), "field-dup");
    Msg front = m; Field f; f.code = code; f.val = v; front.fields.insert(front.fields.begin(), f);
    BAD(front, "field-dup");
  }
  // unknown fields: any valid variant, kept in order, duplicates fine
  {
    Msg m = base(T_CALL, be);
    m = plus(m, 11, Value::string("not a name!"));
    m = plus(m, 200, Value::array("{sv}", {Value::dict_entry(Value::string("k"), Value::variant(Value::u64(1)))}));
    m = plus(m, 11, Value::u32(0));
    m = plus(m, 255, Value::strukt({Value::byte(1), Value::array("t")}));
    OK(m);
    ParseResult r = parse(marshal(m));
    CHECK(r.status == P_OK && r.msg == m && r.msg.fields.size() == 8 && r.msg.fields[4].code == 11 && r.msg.fields[6].code == 11);
    { Value v = Value::boolean(false); v.u = 2; BAD(plus(base(T_CALL, be), 11, v), "bool-range"); }
    BAD(plus(base(T_CALL, be), 12, Value::string("\xff")), "utf8");
    BAD(plus(base(T_CALL, be), 12, Value::path("/a/")), "path");
    BAD(plus(base(T_CALL, be), 12, Value::sigval("a")), "sig");
    { Value v = Value::variant(Value::u32(1)); v.sig = "uu"; BAD(plus(base(T_CALL, be), 12, v), "variant-sig"); }
  }
  // field value grammars
  for (const char *s : {"", "a", "a..b", "1a.b", "a-b.c", ":1.2"}) {
    BAD(with(base(T_CALL, be), F_INTERFACE, Value::string(s)), "field-value");
    BAD(with(base(T_ERROR, be), F_ERROR_NAME, Value::string(s)), "field-value");
  }
  for (const char *s : {"", "a.b", "1a", "a-b"}) BAD(with(base(T_CALL, be), F_MEMBER, Value::string(s)), "field-value");
  for (const char *s : {"", "a", ":1", "a..b", "1a.b", ".a.b", "a.b."}) {
    BAD(with(base(T_CALL, be), F_DESTINATION, Value::string(s)), "field-value");
    BAD(with(base(T_CALL, be), F_SENDER, Value::string(s)), "field-value");
  }
  OK(with(with(base(T_CALL, be), F_DESTINATION, Value::string(":1.7")), F_SENDER, Value::string("x-y.z")));
  for (const char *s : {"", "a", "/a/", "//", "/a-b"}) {
    BAD(with(base(T_CALL, be), F_PATH, Value::path(s)), "path");
    BAD(with(base(T_CALL, be), F_CONTAINER_INSTANCE, Value::path(s)), "path");
  }
  BAD(with(base(T_CALL, be), F_SIGNATURE, Value::sigval("a")), "sig");
  BAD(with(base(T_CALL, be), F_SIGNATURE, Value::sigval("()")), "sig");
  BAD(with(base(T_CALL, be), F_MEMBER, Value::string("M\xc0\x80")), "utf8");
  BAD(with(base(T_CALL, be), F_MEMBER, Value::string(S("M\0", 2))), "utf8");
  BAD(with(base(T_CALL, be), F_MEMBER, Value::string(rep("m", 256))), "field-value");
  OK(with(base(T_CALL, be), F_MEMBER, Value::string(rep("m", 255))));
  // reserved Local names
  {
    Limits off; off.reject_local = false;
    Msg a = with(base(T_SIGNAL, be), F_INTERFACE, Value::string("org.freedesktop.DBus.Local"));
    Msg b = with(base(T_SIGNAL, be), F_PATH, Value::path("/org/freedesktop/DBus/Local"));
    BAD(a, "local-reserved"); BAD(b, "local-reserved"); OKL(a, off); OKL(b, off);
    OK(with(base(T_SIGNAL, be), F_INTERFACE, Value::string("org.freedesktop.DBus.Local2")));
    OK(with(base(T_SIGNAL, be), F_PATH, Value::path("/org/freedesktop/DBus/Local/x")));
    OK(with(base(T_SIGNAL, be), F_PATH, Value::path("/org/freedesktop/DBus")));
  }
  // UNIX_FDS limit
  {
    Limits l; l.max_unix_fds_available = 2;
    OKL(with(base(T_CALL, be), F_UNIX_FDS, Value::u32(2)), l);
    BADL(with(base(T_CALL, be), F_UNIX_FDS, Value::u32(3)), "unix-fds", l);
    OK(with(base(T_CALL, be), F_UNIX_FDS, Value::u32(0xffffffffu)));
    l.max_unix_fds_available = 0;
    OKL(with(base(T_CALL, be), F_UNIX_FDS, Value::u32(0)), l);
    BADL(with(base(T_CALL, be), F_UNIX_FDS, Value::u32(1)), "unix-fds", l);
  }
  // raw header corruptions
  {
    Msg m = body(base(T_CALL, be), {Value::u32(1)});   // fields: PATH DEST IFACE MEMBER SIGNATURE
    std::string b = marshal(m);
    CHECK(st(b) == P_OK);
    uint32_t flen = get32(b, 12);
    size_t hdr_end = 16 + flen;
    CHECK(hdr_end % 8 != 0);
    for (size_t i = hdr_end; i % 8; i++) { std::string c = b; c[i] = 1; BADB(c, "padding-nonzero"); }
    // padding between header field structs: field 0 is (1,'o',"/p") = 16+1+3+4+3=27 -> 5 pad bytes to 32
    for (size_t i = 27; i < 32; i++) { std::string c = b; CHECK(c[i] == 0); c[i] = char(0x80); BADB(c, "padding-nonzero"); }
    { std::string c = b; put32(c, 12, flen + 1); CHECK(st(c) != P_OK); }
    { std::string c = b; put32(c, 12, flen - 1); CHECK(st(c) == P_INVALID); }
    { std::string c = b; put32(c, 12, (1u << 26) + 1); BADB(c, "header-array-len"); BADB(c.substr(0, 16), "header-array-len"); }
    { std::string c = b; put32(c, 12, 1u << 26); CHECK(st(c) == P_NEED_MORE && parse(c).total_len == 16 + (1u << 26) + 4); }
    { std::string c = b; put32(c, 4, 0xffffffffu); BADB(c, "too-long"); BADB(c.substr(0, 16), "too-long"); }
    { std::string c = b; put32(c, 4, get32(b, 4) + 1); CHECK(st(c) == P_NEED_MORE); c += '\0'; BADB(c, "body-trailing"); }
    { std::string c = b; put32(c, 4, get32(b, 4) - 1); BADB(c, nullptr); }
    { Limits l; l.max_message_size = uint32_t(b.size()); CHECK(st(b, l) == P_OK); l.max_message_size--; CHECK(st(b, l) == P_INVALID && parse(b, l).reason == "too-long"); }
    // exact 2^27 boundary on total length (decided from 16 bytes)
    size_t hl = (hdr_end + 7) / 8 * 8;
    { std::string c = b.substr(0, 16); put32(c, 4, uint32_t((1u << 27) - hl)); ParseResult r = parse(c); CHECK(r.status == P_NEED_MORE && r.total_len == (1u << 27)); }
    { std::string c = b.substr(0, 16); put32(c, 4, uint32_t((1u << 27) - hl + 1)); BADB(c, "too-long"); }
    // field array length that stops inside trailing struct padding / includes padding after last element
    { Msg e = base(T_CALL, be); std::string c = marshal(e); uint32_t fl = get32(c, 12); if ((16 + fl) % 8) { put32(c, 12, uint32_t((16 + fl + 7) / 8 * 8 - 16)); BADB(c, "array-len"); } }
  }
  // header with zero fields is fine for unknown types, invalid for known ones
  { Msg m; m.big_endian = be; m.type = 77; m.serial = 1; CHECK(marshal(m).size() == 16); OK(m); m.type = T_CALL; BAD(m, "missing-field"); }
  // variant depth inside header fields: a(yv) already contributes array+struct+variant = 3
  OK(plus(base(T_CALL, be), 42, nest_variants(61, Value::byte(1))));
  BAD(plus(base(T_CALL, be), 42, nest_variants(62, Value::byte(1))), "depth");
}

static void test_body_rules(bool be) {
  auto M = [&](std::vector<Value> b) { return body(base(T_CALL, be), std::move(b)); };
  // every basic type, containers
  OK(M({Value::byte(255), Value::boolean(false), Value::boolean(true), Value::i16(-1), Value::u16(65535), Value::i32(-5), Value::u32(5),
        Value::i64(-9), Value::u64(~0ull), Value::dbl_bits(0x7ff8000000000001ull), Value::fd_index(0), Value::string(""), Value::string("h\xc3\xa9"),
        Value::path("/"), Value::sigval(""), Value::sigval("a{sv}")}));
  OK(M({Value::array("y"), Value::array("n"), Value::array("u"), Value::array("t"), Value::array("s"), Value::array("g"), Value::array("v"),
        Value::array("(i)"), Value::array("{sv}"), Value::array("ai"), Value::array("at")}));
  OK(M({Value::byte(1), Value::array("t"), Value::byte(1), Value::array("(y)"), Value::byte(1), Value::array("{yy}")}));
  OK(M({Value::array("ay", {Value::array("y"), Value::array("y", {Value::byte(1)})}), Value::variant(Value::array("{sv}")),
        Value::variant(Value::strukt({Value::i32(1), Value::variant(Value::string("x"))})),
        Value::array("{sv}", {Value::dict_entry(Value::string("a"), Value::variant(Value::u64(1))), Value::dict_entry(Value::string("a"), Value::variant(Value::byte(1)))}),
        Value::strukt({Value::byte(1), Value::strukt({Value::byte(2), Value::u64(3)})})}));
  // bool range
  for (uint64_t v : {2ull, 7ull, 0x100ull, 0x80000000ull, 0xffffffffull}) { Value b = Value::boolean(true); b.u = v; BAD(M({b}), "bool-range");
    BAD(M({Value::array("b", {Value::boolean(true), b})}), "bool-range"); BAD(M({Value::variant(b)}), "bool-range"); }
  // strings
  BAD(M({Value::string("\xc0\x80")}), "utf8");
  BAD(M({Value::string("\xed\xa0\x80")}), "utf8");
  BAD(M({Value::string(S("a\0b", 3))}), "utf8");
  OK(M({Value::string("\xef\xbf\xbe\xef\xb7\x90")}));  // noncharacters allowed
  BAD(M({Value::path("/a/")}), "path");
  BAD(M({Value::path("")}), "path");
  BAD(M({Value::path("/\xc3\xa9")}), "path");
  BAD(M({Value::sigval("a")}), "sig");
  BAD(M({Value::sigval("{sv}")}), "sig");
  BAD(M({Value::sigval(rep("a", 33) + "i")}), "sig");
  {
    Msg m = M({Value::string("abc"), Value::path("/abc"), Value::sigval("ii")});
    std::string b = marshal(m);
    size_t bs = b.size() - get32(b, 4);
    CHECK(b[bs + 7] == 0 && b[bs + 8 + 4 + 4] == 0 && b[bs + 17 + 1 + 2] == 0);
    { std::string c = b; c[bs + 7] = 'x'; BADB(c, "string-nul"); }
    { std::string c = b; c[bs + 16] = 'x'; BADB(c, "string-nul"); }
    { std::string c = b; c[bs + 20] = 'x'; BADB(c, "string-nul"); }
    { std::string c = b; c[bs + 5] = 0; BADB(c, "utf8"); }         // embedded NUL
    { std::string c = b; put32(c, bs, 2); BADB(c, nullptr); }      // shorter length: NUL check hits 'c'
    { std::string c = b; put32(c, bs, 0xfffffff0u); BADB(c, "overrun"); }
    { std::string c = b; c[bs + 17] = char(200); BADB(c, "overrun"); }
  }
  // alignment padding must be zero
  {
    Msg m = M({Value::byte(1), Value::u64(2), Value::byte(3), Value::u16(4), Value::byte(5), Value::u32(6), Value::byte(7), Value::strukt({Value::byte(8)}),
               Value::byte(9), Value::u32(10), Value::array("t", {Value::u64(1)}), Value::variant(Value::u64(1))});
    std::string b = marshal(m);
    CHECK(st(b) == P_OK);
    size_t bs = b.size() - get32(b, 4);
    int pads = 0;
    for (size_t i : {1, 7, 17, 21, 23, 29, 31, 34, 35, 44, 47, 59, 60, 63}) {
      std::string c = b;
      CHECK_MSG(c[bs + i] == 0, "offset %zu", i);
      c[bs + i] = 1;
      ParseResult r = parse(c);
      CHECK_MSG(r.status == P_INVALID && r.reason == "padding-nonzero", "offset %zu -> %d %s", i, int(r.status), r.reason.c_str());
      pads++;
    }
    CHECK(pads == 14);
  }
  // arrays
  {
    Msg m = M({Value::array("u", {Value::u32(1), Value::u32(2)})});
    std::string b = marshal(m);
    size_t bs = b.size() - get32(b, 4);
    for (uint32_t bad : {7u, 9u, 1u, 5u}) { std::string c = b; put32(c, bs, bad); CHECK_MSG(st(c) == P_INVALID, "len %u", bad); }
    { std::string c = b; put32(c, bs, 4); BADB(c, "body-trailing"); }
    { std::string c = b; put32(c, bs, 12); BADB(c, "overrun"); }
    { std::string c = b; put32(c, bs, (1u << 26) + 1); BADB(c, "array-len"); }
    { std::string c = b; put32(c, bs, 0xffffffffu); BADB(c, "array-len"); }
    { std::string c = b; put32(c, bs, 1u << 26); BADB(c, "overrun"); }
    Limits l; l.max_array_len = 8; CHECK(st(b, l) == P_OK); l.max_array_len = 7; CHECK(st(b, l) == P_INVALID && parse(b, l).reason == "array-len");
  }
  {
    // empty "at": length word then 4 bytes of padding which are NOT counted in n
    std::string good, bad1, bad2;
    std::vector<Value> out; std::string why;
    good = unhex("00000000 00000000");
    CHECK(parse_body(reinterpret_cast<const uint8_t *>(good.data()), good.size(), be, "at", &out, &why) && out.size() == 1 && out[0] == Value::array("t"));
    bad1 = unhex("00000000");
    CHECK(!parse_body(reinterpret_cast<const uint8_t *>(bad1.data()), bad1.size(), be, "at", &out, &why) && why == "overrun");
    bad2 = unhex("00000000 00000100");
    CHECK(!parse_body(reinterpret_cast<const uint8_t *>(bad2.data()), bad2.size(), be, "at", &out, &why) && why == "padding-nonzero");
    std::string cnt = be ? unhex("00000004 00000000") : unhex("04000000 00000000");  // counting the padding in n is wrong
    CHECK(!parse_body(reinterpret_cast<const uint8_t *>(cnt.data()), cnt.size(), be, "at", &out, &why));
    // a(y) with two elements: n = 9 (includes inter-element padding, excludes trailing)
    std::string two = be ? unhex("00000009 00000000 01 00000000000000 02") : unhex("09000000 00000000 01 00000000000000 02");
    CHECK(parse_body(reinterpret_cast<const uint8_t *>(two.data()), two.size(), be, "a(y)", &out, &why) && out[0].kids.size() == 2);
    std::string pad = be ? unhex("00000008 00000000 01 00000000000000") : unhex("08000000 00000000 01 00000000000000");
    CHECK(!parse_body(reinterpret_cast<const uint8_t *>(pad.data()), pad.size(), be, "a(y)", &out, &why));
    CHECK(!parse_body(nullptr, 0, be, "a", &out, &why) && why == "sig");
    CHECK(parse_body(nullptr, 0, be, "", &out, &why) && out.empty());
    CHECK(!parse_body(reinterpret_cast<const uint8_t *>(pad.data()), 1, be, "", &out, &why) && why == "body-trailing");
  }
  // variants
  { Value v = Value::variant(Value::u32(1)); v.sig = "uu"; v.kids.push_back(Value::u32(2)); BAD(M({v}), "variant-sig"); }
  { Value v = Value::variant(Value::u32(1)); v.sig = ""; v.kids.clear(); BAD(M({v}), "variant-sig"); }
  { Value v = Value::variant(Value::u32(1)); v.sig = "a"; BAD(M({v}), "variant-sig"); }
  { Value v = Value::variant(Value::u32(1)); v.sig = "{su}"; BAD(M({v}), "variant-sig"); }
  { Value v = Value::variant(Value::u32(1)); v.sig = "r"; BAD(M({v}), "variant-sig"); }
  { Value v = Value::variant(Value::u32(1)); v.sig = S("u\0u", 3); BAD(M({v}), "variant-sig"); }
  { Msg m = M({Value::variant(Value::byte(1))}); std::string b = marshal(m); size_t bs = b.size() - get32(b, 4); b[bs + 2] = 'y'; BADB(b, "string-nul"); }
  // body / signature agreement
  { Msg m = M({Value::u32(1)}); m.body.push_back(Value::u32(2)); BAD(m, "body-trailing"); }
  { Msg m = M({Value::u32(1), Value::u32(2)}); m.body.pop_back(); BAD(m, "overrun"); }
  { Msg m = M({Value::u32(1)}); m.remove_field(F_SIGNATURE); BAD(m, "body-trailing"); }
  { Msg m = M({}); m.set_field(F_SIGNATURE, Value::sigval("")); OK(m); CHECK(parse(marshal(m)).msg.has_field(F_SIGNATURE)); }
  { Msg m = M({Value::byte(1)}); m.body[0] = Value::boolean(true); BAD(m, nullptr); }
  // depth limits while decoding
  OK(M({nest_variants(64, Value::byte(1))}));
  BAD(M({nest_variants(65, Value::byte(1))}), "depth");
  {
    Value v = Value::byte(1);
    for (int i = 0; i < 32; i++) v = Value::strukt({v});
    for (int i = 0; i < 32; i++) v = Value::array(v.signature(), {v});
    OK(M({v}));                                     // 32 arrays of 32 structs = depth 64
    Value w = Value::variant(Value::byte(1));
    for (int i = 0; i < 32; i++) w = Value::strukt({w});
    for (int i = 0; i < 31; i++) w = Value::array(w.signature(), {w});
    OK(M({w}));                                     // 31 + 32 + variant = 64
    w = Value::array(w.signature(), {w});
    BAD(M({w}), "depth");                           // 32 + 32 + variant = 65
    Value e = Value::variant(Value::byte(1));
    for (int i = 0; i < 32; i++) e = Value::strukt({e});
    for (int i = 0; i < 32; i++) e = Value::array(e.signature());
    OK(M({e}));                                     // empty outer array: the deep variant is never decoded
    Value s33 = Value::byte(1);
    for (int i = 0; i < 33; i++) s33 = Value::strukt({s33});
    BAD(M({s33}), "sig");
  }
}

// ---------------------------------------------------------------- DISAGREEMENTS.md witnesses: wire keeps the spec verdict

static void test_disagreement_witnesses() {
  Limits l; l.max_unix_fds_available = 0;
  auto verdict = [&](const char *hex) { ParseResult r = parse(unhex(hex), l); return std::string(r.status == P_OK ? "OK" : r.status == P_INVALID ? "INVALID:" + r.reason : "NEED_MORE"); };
  CHECK(verdict("6c020001000000000100000012000000050175000100000006017300010000003a00000000000000") == "INVALID:field-value");  // D1 DESTINATION ":"
  CHECK(verdict("6c020001000000000100000014000000050175000100000007017300030000003a2e310000000000") == "INVALID:field-value");  // D1 SENDER ":.1"
  CHECK(!valid_bus_name(":") && !valid_bus_name(":1") && !valid_bus_name(":.1"));
  CHECK(!valid_signature(rep("(", 32) + rep("a{s", 32) + "i" + rep("}", 32) + rep(")", 32)));                                   // D2 depth 96
  CHECK(verdict("6c04000100000000010000004200000001016f00020000002f61000000000000020173001b0000006f72672e667265656465736b746f702e444275732e4c6f63616c58000000000003017300010000004d00000000000000") == "OK");  // D3
  CHECK(verdict("6c04000100000000010000004200000001016f001c0000002f6f72672f667265656465736b746f702f444275732f4c6f63616c65000000000201730003000000612e62000000000003017300010000004d00000000000000") == "OK");  // D3
  CHECK(verdict("6c020001050000000100000010000000050175000100000008016700026171000100000000") == "INVALID:array-len-multiple");  // D4 aq, n=1
  CHECK(verdict("6c0200010b0000000100000010000000050175000100000008016700026175000700000004030201080706") == "INVALID:array-len-multiple");  // D4 au, n=7
  CHECK(verdict("4202000100000004000000010000000f0501750000000001080167000168000000000000") == "OK");                            // D5 big-endian 'h'
  CHECK(verdict("6c0200010a000000010000000f0000000501750001000000080167000167000008617b792879797d2900") == "INVALID:sig");        // D6 'g' value "a{y(yy})"
  CHECK(verdict("6c020001080000000100000016000000050175000100000008016700082869617b7373297d0000000000000000000000") == "INVALID:sig");  // D6 SIGNATURE "(ia{ss)}"
  CHECK(verdict("6c02000110000000010000000f0000000501750001000000080167000176000008617b792879797d2900000000000000") == "INVALID:variant-sig");  // D6 variant
  CHECK(!valid_signature("a{y(yy})") && !valid_signature("(ia{ss)}") && !valid_signature("a{s(ii})"));
}

// ---------------------------------------------------------------- chunking contract

static void test_chunking_examples() {
  Msg m = Msg::method_call(1, "a.b", "/p", "i.f", "M", {Value::string("hello"), Value::array("t", {Value::u64(1)})});
  for (bool be : {false, true}) {
    m.big_endian = be;
    std::string b = marshal(m);
    for (size_t k = 0; k < b.size(); k++) {
      ParseResult r = parse(b.substr(0, k));
      CHECK_MSG(r.status == P_NEED_MORE, "prefix %zu", k);
      CHECK(r.total_len == (k >= 16 ? b.size() : 0));
    }
    for (const char *junk : {"x", "l\1\0\1", "\0\0\0\0\0\0\0\0\0\0\0\0\0\0\0\0\0"}) {
      ParseResult r = parse(b + junk + std::string(20, '\7'));
      CHECK(r.status == P_OK && r.total_len == b.size() && r.msg == m);
    }
    // an invalid message stays NEED_MORE until complete, then INVALID, with or without trailing junk
    Msg bad = m; bad.body[0] = Value::string("\xff"); bad.flags = 3;
    std::string c = marshal(bad);
    for (size_t k = 0; k < c.size(); k++) CHECK(parse(c.substr(0, k)).status == P_NEED_MORE);
    CHECK(parse(c).status == P_INVALID && parse(c + "junk").status == P_INVALID && parse(c + "junk").reason == parse(c).reason);
    Msg v0 = m; v0.version = 3; v0.serial = 0;
    c = marshal(v0);
    for (size_t k = 0; k < c.size(); k++) CHECK(parse(c.substr(0, k)).status == P_NEED_MORE);
    CHECK(parse(c).status == P_INVALID);
  }
  CHECK(parse("").status == P_NEED_MORE && parse("X").status == P_NEED_MORE && parse(std::string(15, 'X')).status == P_NEED_MORE);
  CHECK(parse(std::string(16, 'X')).status == P_INVALID);
}

// ---------------------------------------------------------------- random properties

static void test_random(uint64_t seed0, int count) {
  long elems = 0;
  for (int i = 0; i < count; i++) {
    wiregen::Rng r(seed0 + uint64_t(i));
    Msg m = wiregen::gen_msg(r);
    std::string b = marshal(m);
    ParseResult p = parse(b);
    CHECK_MSG(p.status == P_OK, "seed %llu: %s: %s", (unsigned long long)(seed0 + uint64_t(i)), p.reason.c_str(), m.repr().c_str());
    if (p.status != P_OK) continue;
    CHECK_MSG(p.msg == m, "seed %llu:\n  %s\n  %s", (unsigned long long)(seed0 + uint64_t(i)), m.repr().c_str(), p.msg.repr().c_str());
    CHECK(p.total_len == b.size());
    CHECK(marshal(p.msg) == b);
    CHECK(p.msg.repr() == m.repr());
    elems += long(m.body.size());
    // body alone
    std::vector<Value> vals; std::string why;
    std::string bb = marshal_body(m.body, m.big_endian);
    CHECK(b.compare(b.size() - bb.size(), bb.size(), bb) == 0);
    CHECK(parse_body(reinterpret_cast<const uint8_t *>(bb.data()), bb.size(), m.big_endian, m.body_sig, &vals, &why) && vals == m.body);
    for (const Value &v : m.body) CHECK(valid_single_type(v.signature()));
    // prefixes: all for small messages, a sample for bigger ones
    size_t step = b.size() <= 300 ? 1 : 1 + r.below(7);
    for (size_t k = 0; k < b.size(); k += step) {
      ParseResult q = parse(b.substr(0, k));
      CHECK_MSG(q.status == P_NEED_MORE && q.total_len == (k >= 16 ? b.size() : 0), "seed %llu prefix %zu/%zu", (unsigned long long)(seed0 + uint64_t(i)), k, b.size());
    }
    // junk after the message changes nothing
    std::string junk;
    for (uint32_t k = 0, n = 1 + r.below(40); k < n; k++) junk += char(r.next());
    ParseResult q = parse(b + junk);
    CHECK(q.status == P_OK && q.total_len == b.size() && q.msg == m);
    // single-byte corruption: verdict (whatever it is) is chunking independent and junk independent
    std::string c = b;
    size_t at = r.below(uint32_t(c.size()));
    c[at] = char(c[at] ^ (1 << r.below(8)));
    ParseResult full = parse(c);
    ParseResult withjunk = parse(c + junk);
    if (full.status != P_NEED_MORE) {
      CHECK(withjunk.status == full.status && withjunk.reason == full.reason && withjunk.total_len == full.total_len);
      if (full.status == P_OK) { CHECK(withjunk.msg == full.msg); CHECK(marshal(full.msg) == c.substr(0, full.total_len)); }
      if (full.total_len)
        for (size_t k = 16; k < full.total_len && k < c.size(); k += 1 + r.below(9)) CHECK(parse(c.substr(0, k)).status == P_NEED_MORE);
    }
  }
  CHECK(elems > count);
}

int main(int argc, char **argv) {
  int count = argc > 1 ? std::atoi(argv[1]) : 4000;
  uint64_t seed = argc > 2 ? std::strtoull(argv[2], nullptr, 0) : 1;
  test_utf8();
  test_names();
  test_signatures();
  test_misc();
  test_marshal_known();
  for (bool be : {false, true}) { test_header_rules(be); test_body_rules(be); }
  test_chunking_examples();
  test_disagreement_witnesses();
  long unit = g_checks;
  test_random(seed, count);
  std::printf("unit checks: %ld, random-property checks: %ld (%d messages, seed %llu), failures: %ld\n", unit, g_checks - unit, count,
              (unsigned long long)seed, g_fail);
  return g_fail ? 1 : 0;
}
