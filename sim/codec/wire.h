// sim/codec/wire.h — independent D-Bus wire codec and grammar predicates.
//
// Written from doc/dbus-specification.xml ("Type System", "Marshaling",
// "Message Protocol", "Valid Names").  MUST NOT include any dbus header and
// MUST NOT be derived from the libdbus sources: it is the oracle the real
// code is compared against.
//
// Everything is in namespace wire.  No exceptions escape the public
// functions; no global state; deterministic.
#pragma once
#include <cstdint>
#include <cstddef>
#include <string>
#include <vector>

namespace wire {

// ---------------------------------------------------------------- values

// One D-Bus value.  `type` is the type code of the value:
//   fixed:      'y' 'b' 'n' 'q' 'i' 'u' 'x' 't' 'd' 'h'   -> u holds the raw
//               bits zero-extended (for 'n','i','x' the two's-complement bits
//               truncated to the width; for 'd' the IEEE bits; 'b' 0/1)
//   string-ish: 's' 'o' 'g'                               -> str
//   'a' array:  sig = signature of ONE element (e.g. "s", "{sv}", "(ii)");
//               kids = elements (each of that type)
//   'r' struct: sig = full signature including parentheses "(...)";
//               kids = fields
//   'e' dict entry: sig = "{kv}" full; kids = exactly [key, value]
//   'v' variant: sig = signature of contained single complete type;
//               kids = exactly [contained value]
struct Value {
  char type = 0;
  uint64_t u = 0;
  std::string str;
  std::string sig;
  std::vector<Value> kids;

  // signature of this value as a single complete type ("i", "as", "(ii)", "v" ...)
  std::string signature() const;
  bool operator==(const Value &o) const;
  bool operator!=(const Value &o) const { return !(*this == o); }
  // human readable rendering, for logs / replay files (strings escaped)
  std::string repr() const;

  static Value byte(uint8_t v);
  static Value boolean(bool v);
  static Value i16(int16_t v);
  static Value u16(uint16_t v);
  static Value i32(int32_t v);
  static Value u32(uint32_t v);
  static Value i64(int64_t v);
  static Value u64(uint64_t v);
  static Value dbl_bits(uint64_t bits);
  static Value fd_index(uint32_t v);                 // 'h'
  static Value string(const std::string &s);         // 's'
  static Value path(const std::string &s);           // 'o'
  static Value sigval(const std::string &s);         // 'g'
  static Value array(const std::string &elem_sig, std::vector<Value> elems = {});
  static Value strukt(std::vector<Value> fields);    // sig computed from fields
  static Value dict_entry(Value k, Value v);
  static Value variant(Value inner);
};

// ---------------------------------------------------------------- messages

enum : uint8_t { T_INVALID = 0, T_CALL = 1, T_RETURN = 2, T_ERROR = 3, T_SIGNAL = 4 };
enum : uint8_t {
  F_PATH = 1, F_INTERFACE = 2, F_MEMBER = 3, F_ERROR_NAME = 4, F_REPLY_SERIAL = 5,
  F_DESTINATION = 6, F_SENDER = 7, F_SIGNATURE = 8, F_UNIX_FDS = 9, F_CONTAINER_INSTANCE = 10
};
enum : uint8_t { FL_NO_REPLY_EXPECTED = 1, FL_NO_AUTO_START = 2, FL_ALLOW_INTERACTIVE_AUTH = 4 };

struct Field {
  uint8_t code = 0;
  Value val;          // the value INSIDE the variant (e.g. type 'o' for PATH)
};

struct Msg {
  bool big_endian = false;
  uint8_t type = T_CALL;
  uint8_t flags = 0;
  uint8_t version = 1;
  uint32_t serial = 1;
  std::vector<Field> fields;      // wire order; may hold unknown codes / duplicates when built by hand
  std::vector<Value> body;        // values, in order
  // Signature of the body.  On parse: the SIGNATURE field ("" if absent).
  // On marshal: NOT used — the body is marshalled from `body`, and the
  // SIGNATURE header field is whatever is in `fields` (helpers below keep
  // them consistent; hostile builders may make them disagree).
  std::string body_sig;

  // ---- getters (first field with that code; nullptr / 0 / "" if absent or wrong type)
  const Field *field(uint8_t code) const;
  std::string str_field(uint8_t code) const;    // s/o/g field text, "" if absent
  bool has_field(uint8_t code) const;
  uint32_t u32_field(uint8_t code) const;       // 0 if absent
  std::string path() const { return str_field(F_PATH); }
  std::string interface() const { return str_field(F_INTERFACE); }
  std::string member() const { return str_field(F_MEMBER); }
  std::string error_name() const { return str_field(F_ERROR_NAME); }
  std::string destination() const { return str_field(F_DESTINATION); }
  std::string sender() const { return str_field(F_SENDER); }
  uint32_t reply_serial() const { return u32_field(F_REPLY_SERIAL); }
  uint32_t unix_fds() const { return u32_field(F_UNIX_FDS); }

  // ---- setters: replace first field with that code or append
  void set_field(uint8_t code, Value v);
  void remove_field(uint8_t code);              // removes all with that code
  // sets `body`, `body_sig` and the SIGNATURE field (removed when body empty)
  void set_body(std::vector<Value> vals);

  // ---- builders (valid messages, little endian, flags 0, serial as given)
  static Msg method_call(uint32_t serial, const std::string &dest, const std::string &path,
                         const std::string &iface, const std::string &member,
                         std::vector<Value> body = {});
  static Msg method_return(uint32_t serial, uint32_t reply_serial, const std::string &dest,
                           std::vector<Value> body = {});
  static Msg error(uint32_t serial, uint32_t reply_serial, const std::string &dest,
                   const std::string &error_name, std::vector<Value> body = {});
  static Msg signal(uint32_t serial, const std::string &path, const std::string &iface,
                    const std::string &member, std::vector<Value> body = {});

  bool operator==(const Msg &o) const;          // all members, field order included
  std::string repr() const;                     // one-line human readable
};

// Marshal exactly what `m` says (no validation, no normalisation): fixed
// header, header field array in the given order, zero padding to 8, body.
// Body length / field array length words are computed. Never fails.
std::string marshal(const Msg &m);

// Marshal a sequence of values (a message body) at offset 0.
std::string marshal_body(const std::vector<Value> &vals, bool big_endian);

enum ParseStatus { P_OK = 0, P_NEED_MORE = 1, P_INVALID = 2 };

struct ParseResult {
  ParseStatus status = P_NEED_MORE;
  size_t total_len = 0;     // full message length when known (>= 16 bytes seen and lengths sane), else 0
  Msg msg;                  // valid when status == P_OK
  std::string reason;       // short machine-friendly tag when P_INVALID, e.g. "bad-endian", "bool-range",
                            // "padding-nonzero", "array-len", "utf8", "path", "sig", "field-dup",
                            // "field-type", "missing-field", "serial-zero", "too-long", "depth", ...
};

struct Limits {
  uint32_t max_message_size = 1u << 27;   // header + body
  uint32_t max_array_len = 1u << 26;
  bool reject_local = true;               // reference-implementation extra: interface org.freedesktop.DBus.Local
                                          // and path /org/freedesktop/DBus/Local are refused
  uint32_t max_unix_fds_available = 0xffffffffu; // UNIX_FDS field must be <= this (descriptors received so far)
};

// Parse ONE message from the front of [p, p+n).  P_NEED_MORE when the bytes
// so far are a proper prefix of something that could still be valid (the
// verdict must never depend on bytes beyond total_len).  A message is
// declared P_INVALID as early as the spec allows it to be known?  NO —
// to keep the verdict chunking-independent: P_INVALID is reported only from
// (a) the first 16 bytes (endianness byte, version, type 0, serial 0 is NOT
// checked here, length sanity: field array length > 2^26, header+body > max),
// or (b) once all total_len bytes are present.  With fewer than total_len
// bytes and a sane fixed header the answer is P_NEED_MORE.
ParseResult parse(const uint8_t *p, size_t n, const Limits &lim = Limits());
inline ParseResult parse(const std::string &s, const Limits &lim = Limits()) {
  return parse(reinterpret_cast<const uint8_t *>(s.data()), s.size(), lim);
}

// Validate + decode a body given its signature (used by parse; exposed for tests)
bool parse_body(const uint8_t *p, size_t n, bool big_endian, const std::string &sig,
                std::vector<Value> *out, std::string *reason);

// ---------------------------------------------------------------- grammars (spec "Valid Names", "Valid Object Paths", signatures, UTF-8)

bool valid_utf8(const std::string &s);               // no NUL, no overlong, no surrogates, <= U+10FFFF; noncharacters ARE allowed
bool valid_bus_name(const std::string &s);           // unique or well-known, <= 255
bool valid_unique_name(const std::string &s);
// Would these bytes parse as one valid message if a listed deviation of the reference were the rule?
// which = 1: dict entries on a nesting budget of their own; 2: unique names of a single element.
bool valid_if_relaxed(const std::string &bytes, int which, const Limits &lim = Limits());        // starts with ':' and valid
bool valid_wellknown_name(const std::string &s);     // valid and not starting with ':'
bool valid_interface(const std::string &s);
bool valid_member(const std::string &s);
bool valid_error_name(const std::string &s);         // same as interface
bool valid_path(const std::string &s);
bool valid_signature(const std::string &s);          // zero or more single complete types, <= 255, nesting limits
bool valid_single_type(const std::string &s);        // exactly one complete type
// split a valid signature into single complete types
std::vector<std::string> split_signature(const std::string &s);
int alignment_of(char type_code);                    // 1,2,4,8

// ---------------------------------------------------------------- misc helpers

std::string sha1_hex(const std::string &data);       // lower-case hex of SHA-1
std::string hex_encode(const std::string &data);     // lower-case
bool hex_decode(const std::string &hex, std::string *out);

}  // namespace wire
