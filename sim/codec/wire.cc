// sim/codec/wire.cc — independent D-Bus wire codec, written from
// doc/dbus-specification.xml only (see wire.h).  No dbus headers.
#include "wire.h"

#include <algorithm>
#include <cstdio>
#include <cstring>

namespace wire {
namespace {

const size_t NPOS = std::string::npos;
const uint32_t kMaxArray = 1u << 26;   // spec: "Arrays have a maximum length defined to be 2 to the 26th power"
const uint32_t kMaxMessage = 1u << 27; // spec: "maximum length of a message ... 2 to the 27th power"
const int kMaxDepth = 64;              // spec: "total message depth [not] larger than 64"
const int kMaxSigNest = 32;            // spec: "32 array type codes and 32 open parentheses"
const size_t kMaxName = 255;

bool is_basic(char c) { return c != 0 && std::strchr("ybnqiuxtdsogh", c) != nullptr; }

int fixed_width(char c) {
  switch (c) {
    case 'y': return 1;
    case 'n': case 'q': return 2;
    case 'b': case 'i': case 'u': case 'h': return 4;
    case 'x': case 't': case 'd': return 8;
  }
  return 0;
}

size_t align_up(size_t v, size_t a) { return (v + a - 1) / a * a; }

// ------------------------------------------------------------ signatures

// Validate one single complete type starting at s[i]; returns the index one
// past its end or NPOS.  ad/sd = number of enclosing arrays / structs+dict entries.
// Relaxations used ONLY to recognise two listed findings by their exact condition ("would this input be valid if
// the reference's known deviation were the rule?"); both are off except inside wire::valid_if_relaxed().
static bool g_relax_dict_budget = false;       // the reference's depth accounting: dict entries on a third budget of their own, array depth = run of consecutive 'a' only
static bool g_relax_unique_period = false;     // a unique name may consist of a single element (":abc")
static int g_dict_depth = 0;

size_t check_single(const char *s, size_t n, size_t i, int ad, int sd) {
  if (i >= n) return NPOS;
  char c = s[i];
  if (is_basic(c) || c == 'v') return i + 1;
  if (c == 'a') {
    if (ad + 1 > kMaxSigNest) return NPOS;
    if (i + 1 < n && s[i + 1] == '{') {            // dict entry: only as array element
      if (g_relax_dict_budget) { if (g_dict_depth + 1 > kMaxSigNest) return NPOS; }
      else if (sd + 1 > kMaxSigNest) return NPOS;
      size_t k = i + 2;
      if (k >= n || !is_basic(s[k])) return NPOS;  // key must be a basic type
      if (g_relax_dict_budget) g_dict_depth++;
      size_t v = check_single(s, n, k + 1, g_relax_dict_budget ? 0 : ad + 1, g_relax_dict_budget ? sd : sd + 1);
      if (g_relax_dict_budget) g_dict_depth--;
      if (v == NPOS || v >= n || s[v] != '}') return NPOS;  // exactly two fields
      return v + 1;
    }
    return check_single(s, n, i + 1, ad + 1, sd);
  }
  if (c == '(') {
    if (sd + 1 > kMaxSigNest) return NPOS;
    size_t j = i + 1;
    int fields = 0;
    while (j < n && s[j] != ')') {
      j = check_single(s, n, j, g_relax_dict_budget ? 0 : ad, sd + 1);
      if (j == NPOS) return NPOS;
      fields++;
    }
    if (j >= n || fields == 0) return NPOS;        // unterminated, or empty struct
    return j + 1;
  }
  return NPOS;  // ')' '}' '{' outside array, 'r', 'e', 'm', '*', NUL, anything else
}

// End of the single complete type at s[i] in an ALREADY VALID signature.
size_t skip_single(const char *s, size_t n, size_t i) {
  while (i < n && s[i] == 'a') i++;
  if (i >= n) return n;
  if (s[i] != '(' && s[i] != '{') return i + 1;
  int depth = 0;
  for (; i < n; i++) {
    if (s[i] == '(' || s[i] == '{') depth++;
    else if (s[i] == ')' || s[i] == '}') { if (--depth == 0) return i + 1; }
  }
  return n;
}

bool check_signature(const char *s, size_t n) {
  if (n > 255) return false;
  for (size_t i = 0; i < n;) {
    i = check_single(s, n, i, 0, 0);
    if (i == NPOS) return false;
  }
  return true;
}

int align_of(char c) {
  switch (c) {
    case 'y': case 'g': case 'v': return 1;
    case 'n': case 'q': return 2;
    case 'b': case 'i': case 'u': case 'h': case 's': case 'o': case 'a': return 4;
    case 'x': case 't': case 'd': case '(': case '{': case 'r': case 'e': return 8;
  }
  return 1;
}

// ------------------------------------------------------------ name grammars

bool is_alpha_(char c) { return (c >= 'A' && c <= 'Z') || (c >= 'a' && c <= 'z') || c == '_'; }
bool is_digit(char c) { return c >= '0' && c <= '9'; }

// Dotted name: elements separated by '.', none empty, chars [A-Za-z0-9_] (+ '-'
// if hyphen), element may begin with a digit only if digit_first; at least
// min_elems elements.
bool dotted(const char *s, size_t n, bool hyphen, bool digit_first, int min_elems) {
  int elems = 0;
  size_t i = 0;
  for (;;) {
    size_t start = i;
    while (i < n && s[i] != '.') {
      char c = s[i];
      if (!(is_alpha_(c) || is_digit(c) || (hyphen && c == '-'))) return false;
      if (i == start && is_digit(c) && !digit_first) return false;
      i++;
    }
    if (i == start) return false;  // empty element (also leading/trailing/double '.')
    elems++;
    if (i == n) break;
    i++;                           // skip '.'
    if (i == n) return false;      // trailing '.'
  }
  return elems >= min_elems;
}

// ------------------------------------------------------------ rendering helpers

std::string quote(const std::string &s) {
  std::string o = "\"";
  for (unsigned char c : s) {
    if (c == '"' || c == '\\') { o += '\\'; o += char(c); }
    else if (c < 0x20 || c >= 0x7f) { char b[8]; std::snprintf(b, sizeof b, "\\x%02x", c); o += b; }
    else o += char(c);
  }
  return o + "\"";
}

// ------------------------------------------------------------ writer

struct Writer {
  std::string b;
  bool be = false;
  void pad(size_t a) { while (b.size() % a) b.push_back('\0'); }
  void raw(uint64_t v, int w) {
    for (int i = 0; i < w; i++) b.push_back(char((v >> (be ? 8 * (w - 1 - i) : 8 * i)) & 0xff));
  }
  void put(uint64_t v, int w) { pad(size_t(w)); raw(v, w); }
  void patch32(size_t at, uint32_t v) {
    for (int i = 0; i < 4; i++) b[at + size_t(i)] = char((v >> (be ? 8 * (3 - i) : 8 * i)) & 0xff);
  }
  void sig(const std::string &s) { b.push_back(char(s.size() & 0xff)); b += s; b.push_back('\0'); }
  void value(const Value &v) {
    switch (v.type) {
      case 's': case 'o':
        put(uint32_t(v.str.size()), 4); b += v.str; b.push_back('\0');
        break;
      case 'g': sig(v.str); break;
      case 'a': {
        put(0, 4);
        size_t len_at = b.size() - 4;
        pad(size_t(v.sig.empty() ? 1 : align_of(v.sig[0])));
        size_t start = b.size();
        for (const Value &k : v.kids) value(k);
        patch32(len_at, uint32_t(b.size() - start));
        break;
      }
      case 'r': case 'e':
        pad(8);
        for (const Value &k : v.kids) value(k);
        break;
      case 'v':
        sig(v.sig);
        for (const Value &k : v.kids) value(k);
        break;
      default: {
        int w = fixed_width(v.type);
        if (w) put(v.u, w);       // unknown tags emit nothing
      }
    }
  }
};

// ------------------------------------------------------------ reader

struct Reader {
  const uint8_t *p;
  size_t pos, end;
  bool be;
  uint32_t max_array;
  std::string *why;
  bool fail(const char *tag) { if (why && why->empty()) *why = tag; return false; }
  bool align(size_t a) {
    size_t np = align_up(pos, a);
    if (np > end) return fail("overrun");
    for (; pos < np; pos++) if (p[pos] != 0) return fail("padding-nonzero");
    return true;
  }
  bool fixed(int w, uint64_t *out) {
    if (!align(size_t(w))) return false;
    if (end - pos < size_t(w)) return fail("overrun");
    uint64_t v = 0;
    for (int i = 0; i < w; i++) v |= uint64_t(p[pos + size_t(i)]) << (be ? 8 * (w - 1 - i) : 8 * i);
    pos += size_t(w);
    *out = v;
    return true;
  }
  // length-prefixed text + NUL; lw = width of the length (4 or 1)
  bool text(int lw, std::string *out) {
    uint64_t len;
    if (!fixed(lw, &len)) return false;
    if (end - pos < len + 1) return fail("overrun");
    out->assign(reinterpret_cast<const char *>(p + pos), size_t(len));
    pos += size_t(len);
    if (p[pos++] != 0) return fail("string-nul");
    return true;
  }
  // Decode one value of the (valid) single complete type sig[0..sn) ; depth =
  // number of containers already enclosing this value.
  bool value(const char *sig, size_t sn, int depth, Value *out) {
    char c = sig[0];
    out->type = c;
    if (int w = fixed_width(c)) {
      if (!fixed(w, &out->u)) return false;
      if (c == 'b' && out->u > 1) return fail("bool-range");
      return true;
    }
    if (c == 's' || c == 'o') {
      if (!text(4, &out->str)) return false;
      if (!valid_utf8(out->str)) return fail("utf8");
      if (c == 'o' && !valid_path(out->str)) return fail("path");
      return true;
    }
    if (c == 'g') {
      if (!text(1, &out->str)) return false;
      if (!valid_signature(out->str)) return fail("sig");
      return true;
    }
    if (depth + 1 > kMaxDepth) return fail("depth");
    if (c == 'a') {
      uint64_t len;
      if (!fixed(4, &len)) return false;
      if (len > max_array) return fail("array-len");
      if (!align(size_t(align_of(sig[1])))) return false;   // present even when empty
      if (end - pos < len) return fail("overrun");
      if (int ew = fixed_width(sig[1])) if (len % uint64_t(ew)) return fail("array-len-multiple");  // whole elements only
      out->sig.assign(sig + 1, sn - 1);
      size_t saved_end = end;
      end = pos + size_t(len);
      bool ok = true;
      while (ok && pos < end) {
        out->kids.emplace_back();
        ok = value(sig + 1, sn - 1, depth + 1, &out->kids.back());
      }
      if (!ok && why && *why == "overrun") *why = "array-len";  // element crosses the declared end
      end = saved_end;
      return ok;
    }
    if (c == '(' || c == '{') {
      out->type = c == '(' ? 'r' : 'e';
      out->sig.assign(sig, sn);
      if (!align(8)) return false;
      for (size_t i = 1; i + 1 < sn;) {
        size_t j = skip_single(sig, sn - 1, i);
        out->kids.emplace_back();
        if (!value(sig + i, j - i, depth + 1, &out->kids.back())) return false;
        i = j;
      }
      return true;
    }
    if (c == 'v') {
      if (!text(1, &out->sig)) return false;
      if (!valid_single_type(out->sig)) return fail("variant-sig");
      out->kids.emplace_back();
      return value(out->sig.data(), out->sig.size(), depth + 1, &out->kids.back());
    }
    return fail("sig");
  }
  // sequence of values for a valid signature
  bool values(const std::string &sig, int depth, std::vector<Value> *out) {
    for (size_t i = 0; i < sig.size();) {
      size_t j = skip_single(sig.data(), sig.size(), i);
      out->emplace_back();
      if (!value(sig.data() + i, j - i, depth, &out->back())) return false;
      i = j;
    }
    return true;
  }
};

const char *const kFieldType = "?osssussguo";  // index = field code 1..10
const uint8_t kLastKnownField = 10;

ParseResult invalid(ParseResult r, const std::string &why) {
  r.status = P_INVALID;
  r.reason = why;
  r.msg = Msg();
  return r;
}

}  // namespace

// ---------------------------------------------------------------- Value

std::string Value::signature() const {
  switch (type) {
    case 'a': return "a" + sig;
    case 'r': case 'e': return sig;
    case 0: return "";
    default: return std::string(1, type);
  }
}

bool Value::operator==(const Value &o) const {
  return type == o.type && u == o.u && str == o.str && sig == o.sig && kids == o.kids;
}

std::string Value::repr() const {
  char buf[64];
  std::string o;
  switch (type) {
    case 's': case 'o': case 'g': return std::string(1, type) + ":" + quote(str);
    case 'a': case 'r': case 'e': case 'v': {
      o = type == 'a' ? "a" + sig + "[" : type == 'v' ? "v<" : type == 'r' ? "(" : "{";
      for (size_t i = 0; i < kids.size(); i++) o += (i ? ", " : "") + kids[i].repr();
      return o + (type == 'a' ? "]" : type == 'v' ? ">" : type == 'r' ? ")" : "}");
    }
    case 'n': std::snprintf(buf, sizeof buf, "n:%d", int(int16_t(u))); return buf;
    case 'i': std::snprintf(buf, sizeof buf, "i:%d", int(int32_t(u))); return buf;
    case 'x': std::snprintf(buf, sizeof buf, "x:%lld", (long long)(int64_t(u))); return buf;
    case 'd': std::snprintf(buf, sizeof buf, "d:0x%016llx", (unsigned long long)u); return buf;
    case 0: return "<none>";
    default: std::snprintf(buf, sizeof buf, "%c:%llu", type, (unsigned long long)u); return buf;
  }
}

static Value fixed_value(char t, uint64_t u) { Value v; v.type = t; v.u = u; return v; }
static Value text_value(char t, const std::string &s) { Value v; v.type = t; v.str = s; return v; }

Value Value::byte(uint8_t v) { return fixed_value('y', v); }
Value Value::boolean(bool v) { return fixed_value('b', v ? 1 : 0); }
Value Value::i16(int16_t v) { return fixed_value('n', uint16_t(v)); }
Value Value::u16(uint16_t v) { return fixed_value('q', v); }
Value Value::i32(int32_t v) { return fixed_value('i', uint32_t(v)); }
Value Value::u32(uint32_t v) { return fixed_value('u', v); }
Value Value::i64(int64_t v) { return fixed_value('x', uint64_t(v)); }
Value Value::u64(uint64_t v) { return fixed_value('t', v); }
Value Value::dbl_bits(uint64_t bits) { return fixed_value('d', bits); }
Value Value::fd_index(uint32_t v) { return fixed_value('h', v); }
Value Value::string(const std::string &s) { return text_value('s', s); }
Value Value::path(const std::string &s) { return text_value('o', s); }
Value Value::sigval(const std::string &s) { return text_value('g', s); }

Value Value::array(const std::string &elem_sig, std::vector<Value> elems) {
  Value v; v.type = 'a'; v.sig = elem_sig; v.kids = std::move(elems); return v;
}
Value Value::strukt(std::vector<Value> fields) {
  Value v; v.type = 'r'; v.sig = "(";
  for (const Value &f : fields) v.sig += f.signature();
  v.sig += ")";
  v.kids = std::move(fields);
  return v;
}
Value Value::dict_entry(Value k, Value val) {
  Value v; v.type = 'e'; v.sig = "{" + k.signature() + val.signature() + "}";
  v.kids.push_back(std::move(k));
  v.kids.push_back(std::move(val));
  return v;
}
Value Value::variant(Value inner) {
  Value v; v.type = 'v'; v.sig = inner.signature();
  v.kids.push_back(std::move(inner));
  return v;
}

// ---------------------------------------------------------------- Msg

const Field *Msg::field(uint8_t code) const {
  for (const Field &f : fields) if (f.code == code) return &f;
  return nullptr;
}
std::string Msg::str_field(uint8_t code) const {
  const Field *f = field(code);
  if (!f || !(f->val.type == 's' || f->val.type == 'o' || f->val.type == 'g')) return "";
  return f->val.str;
}
bool Msg::has_field(uint8_t code) const { return field(code) != nullptr; }
uint32_t Msg::u32_field(uint8_t code) const {
  const Field *f = field(code);
  return (f && f->val.type == 'u') ? uint32_t(f->val.u) : 0;
}
void Msg::set_field(uint8_t code, Value v) {
  for (Field &f : fields) if (f.code == code) { f.val = std::move(v); return; }
  Field f; f.code = code; f.val = std::move(v);
  fields.push_back(std::move(f));
}
void Msg::remove_field(uint8_t code) {
  fields.erase(std::remove_if(fields.begin(), fields.end(), [code](const Field &f) { return f.code == code; }),
               fields.end());
}
void Msg::set_body(std::vector<Value> vals) {
  body = std::move(vals);
  body_sig.clear();
  for (const Value &v : body) body_sig += v.signature();
  if (body.empty()) remove_field(F_SIGNATURE);
  else set_field(F_SIGNATURE, Value::sigval(body_sig));
}

Msg Msg::method_call(uint32_t serial, const std::string &dest, const std::string &path,
                     const std::string &iface, const std::string &member, std::vector<Value> body) {
  Msg m; m.type = T_CALL; m.serial = serial;
  m.set_field(F_PATH, Value::path(path));
  if (!dest.empty()) m.set_field(F_DESTINATION, Value::string(dest));
  if (!iface.empty()) m.set_field(F_INTERFACE, Value::string(iface));
  m.set_field(F_MEMBER, Value::string(member));
  m.set_body(std::move(body));
  return m;
}
Msg Msg::method_return(uint32_t serial, uint32_t reply_serial, const std::string &dest, std::vector<Value> body) {
  Msg m; m.type = T_RETURN; m.serial = serial;
  m.set_field(F_REPLY_SERIAL, Value::u32(reply_serial));
  if (!dest.empty()) m.set_field(F_DESTINATION, Value::string(dest));
  m.set_body(std::move(body));
  return m;
}
Msg Msg::error(uint32_t serial, uint32_t reply_serial, const std::string &dest, const std::string &error_name,
               std::vector<Value> body) {
  Msg m; m.type = T_ERROR; m.serial = serial;
  m.set_field(F_ERROR_NAME, Value::string(error_name));
  m.set_field(F_REPLY_SERIAL, Value::u32(reply_serial));
  if (!dest.empty()) m.set_field(F_DESTINATION, Value::string(dest));
  m.set_body(std::move(body));
  return m;
}
Msg Msg::signal(uint32_t serial, const std::string &path, const std::string &iface, const std::string &member,
                std::vector<Value> body) {
  Msg m; m.type = T_SIGNAL; m.serial = serial;
  m.set_field(F_PATH, Value::path(path));
  m.set_field(F_INTERFACE, Value::string(iface));
  m.set_field(F_MEMBER, Value::string(member));
  m.set_body(std::move(body));
  return m;
}

bool Msg::operator==(const Msg &o) const {
  if (big_endian != o.big_endian || type != o.type || flags != o.flags || version != o.version ||
      serial != o.serial || body_sig != o.body_sig || fields.size() != o.fields.size() || !(body == o.body))
    return false;
  for (size_t i = 0; i < fields.size(); i++)
    if (fields[i].code != o.fields[i].code || fields[i].val != o.fields[i].val) return false;
  return true;
}

std::string Msg::repr() const {
  static const char *const tn[] = {"INVALID", "CALL", "RETURN", "ERROR", "SIGNAL"};
  char buf[96];
  std::snprintf(buf, sizeof buf, "%s(%u) %s v%u flags=0x%02x serial=%u", type <= 4 ? tn[type] : "UNKNOWN",
                unsigned(type), big_endian ? "BE" : "LE", unsigned(version), unsigned(flags), serial);
  std::string o = buf;
  o += " fields=[";
  for (size_t i = 0; i < fields.size(); i++)
    o += (i ? ", " : "") + std::to_string(unsigned(fields[i].code)) + "=" + fields[i].val.repr();
  o += "] sig=" + quote(body_sig) + " body=[";
  for (size_t i = 0; i < body.size(); i++) o += (i ? ", " : "") + body[i].repr();
  return o + "]";
}

// ---------------------------------------------------------------- marshal

std::string marshal_body(const std::vector<Value> &vals, bool big_endian) {
  Writer w;
  w.be = big_endian;
  for (const Value &v : vals) w.value(v);
  return w.b;
}

std::string marshal(const Msg &m) {
  Writer w;
  w.be = m.big_endian;
  w.b.push_back(m.big_endian ? 'B' : 'l');
  w.b.push_back(char(m.type));
  w.b.push_back(char(m.flags));
  w.b.push_back(char(m.version));
  w.put(0, 4);            // body length, patched below
  w.put(m.serial, 4);
  w.put(0, 4);            // field array length, patched below; offset 16 is already 8-aligned
  size_t start = w.b.size();
  for (const Field &f : m.fields) {
    w.pad(8);
    w.b.push_back(char(f.code));
    w.sig(f.val.signature());
    w.value(f.val);
  }
  w.patch32(12, uint32_t(w.b.size() - start));
  w.pad(8);
  size_t body_start = w.b.size();
  for (const Value &v : m.body) w.value(v);
  w.patch32(4, uint32_t(w.b.size() - body_start));
  return w.b;
}

// ---------------------------------------------------------------- parse

bool parse_body(const uint8_t *p, size_t n, bool big_endian, const std::string &sig, std::vector<Value> *out,
                std::string *reason) {
  std::string why;
  std::vector<Value> vals;
  bool ok = valid_signature(sig);
  if (!ok) why = "sig";
  if (ok) {
    Reader r{p, 0, n, big_endian, kMaxArray, &why};
    ok = r.values(sig, 0, &vals);
    if (ok && r.pos != n) { ok = false; why = "body-trailing"; }
  }
  if (reason) *reason = ok ? "" : why;
  if (ok && out) *out = std::move(vals);
  return ok;
}

ParseResult parse(const uint8_t *p, size_t n, const Limits &lim) {
  ParseResult r;
  if (n < 16) return r;
  // ---- decidable from the fixed 16 bytes
  if (p[0] != 'l' && p[0] != 'B') return invalid(r, "bad-endian");
  const bool be = p[0] == 'B';
  auto u32at = [&](size_t at) {
    uint32_t v = 0;
    for (int i = 0; i < 4; i++) v |= uint32_t(p[at + size_t(i)]) << (be ? 8 * (3 - i) : 8 * i);
    return v;
  };
  const uint32_t body_len = u32at(4), serial = u32at(8), fields_len = u32at(12);
  const uint32_t max_array = std::min(lim.max_array_len, kMaxArray);
  if (fields_len > kMaxArray) return invalid(r, "header-array-len");
  const uint64_t header_len = align_up(16 + size_t(fields_len), 8);
  const uint64_t total = header_len + body_len;
  if (total > std::min(lim.max_message_size, kMaxMessage)) return invalid(r, "too-long");
  r.total_len = size_t(total);
  if (n < total) return r;

  // ---- everything else, with the complete message in hand
  if (p[3] != 1) return invalid(r, "version");
  if (p[1] == T_INVALID) return invalid(r, "type-invalid");
  if (serial == 0) return invalid(r, "serial-zero");

  Msg &m = r.msg;
  m.big_endian = be; m.type = p[1]; m.flags = p[2]; m.version = p[3]; m.serial = serial;

  // header fields: the elements of an a(yv) whose length word (already checked) sits at offset 12
  std::string why;
  Value arr;
  Reader hr{p, 16, 16 + size_t(fields_len), be, max_array, &why};
  while (hr.pos < hr.end) {
    arr.kids.emplace_back();
    if (!hr.value("(yv)", 4, 1, &arr.kids.back())) return invalid(r, why == "overrun" ? "array-len" : why);
  }
  for (size_t i = 16 + size_t(fields_len); i < header_len; i++)
    if (p[i] != 0) return invalid(r, "padding-nonzero");

  bool seen[kLastKnownField + 1] = {false};
  for (Value &st : arr.kids) {
    Field f;
    f.code = uint8_t(st.kids[0].u);
    f.val = std::move(st.kids[1].kids[0]);
    const Value &v = f.val;
    if (f.code == 0) return invalid(r, "field-code-zero");
    if (f.code <= kLastKnownField) {
      if (seen[f.code]) return invalid(r, "field-dup");
      seen[f.code] = true;
      if (v.signature() != std::string(1, kFieldType[f.code])) return invalid(r, "field-type");
      bool ok = true;
      switch (f.code) {
        case F_INTERFACE: ok = valid_interface(v.str); break;
        case F_MEMBER: ok = valid_member(v.str); break;
        case F_ERROR_NAME: ok = valid_error_name(v.str); break;
        case F_DESTINATION: case F_SENDER: ok = valid_bus_name(v.str); break;
        case F_REPLY_SERIAL: ok = v.u != 0; break;
        default: break;  // 'o' and 'g' grammars were enforced while decoding the value
      }
      if (!ok) return invalid(r, "field-value");
      if (f.code == F_UNIX_FDS && v.u > lim.max_unix_fds_available) return invalid(r, "unix-fds");
      if (lim.reject_local && ((f.code == F_INTERFACE && v.str == "org.freedesktop.DBus.Local") ||
                               (f.code == F_PATH && v.str == "/org/freedesktop/DBus/Local")))
        return invalid(r, "local-reserved");
    }
    m.fields.push_back(std::move(f));
  }

  auto need = [&](uint8_t code) { return seen[code]; };
  bool have = true;
  switch (m.type) {
    case T_CALL: have = need(F_PATH) && need(F_MEMBER); break;
    case T_SIGNAL: have = need(F_PATH) && need(F_INTERFACE) && need(F_MEMBER); break;
    case T_ERROR: have = need(F_ERROR_NAME) && need(F_REPLY_SERIAL); break;
    case T_RETURN: have = need(F_REPLY_SERIAL); break;
    default: break;
  }
  if (!have) return invalid(r, "missing-field");

  m.body_sig = m.str_field(F_SIGNATURE);
  Reader br{p + header_len, 0, body_len, be, max_array, &why};
  if (!br.values(m.body_sig, 0, &m.body)) return invalid(r, why);
  if (br.pos != body_len) return invalid(r, "body-trailing");
  r.status = P_OK;
  return r;
}

// ---------------------------------------------------------------- grammars

bool valid_utf8(const std::string &s) {
  const size_t n = s.size();
  for (size_t i = 0; i < n;) {
    unsigned char c = static_cast<unsigned char>(s[i]);
    if (c == 0) return false;
    if (c < 0x80) { i++; continue; }
    int extra; uint32_t cp, min;
    if (c >= 0xc2 && c <= 0xdf) { extra = 1; cp = c & 0x1f; min = 0x80; }
    else if (c >= 0xe0 && c <= 0xef) { extra = 2; cp = c & 0x0f; min = 0x800; }
    else if (c >= 0xf0 && c <= 0xf4) { extra = 3; cp = c & 0x07; min = 0x10000; }
    else return false;  // continuation byte as lead, 0xc0/0xc1 (overlong), 0xf5.. (> U+10FFFF)
    if (n - i < size_t(extra) + 1) return false;
    for (int k = 1; k <= extra; k++) {
      unsigned char cc = static_cast<unsigned char>(s[i + size_t(k)]);
      if ((cc & 0xc0) != 0x80) return false;
      cp = (cp << 6) | (cc & 0x3f);
    }
    if (cp < min || cp > 0x10ffff || (cp >= 0xd800 && cp <= 0xdfff)) return false;
    i += size_t(extra) + 1;
  }
  return true;
}

// the reference's unique-name branch as listed in finding C01-unique-name-without-period: after ':' only "every '.'
// is followed by a name character" is checked - no minimum of two elements, and the first element may be empty
static bool lax_unique_tail(const char *p, size_t n) {
  auto ok = [](char c) { return (c >= 'a' && c <= 'z') || (c >= 'A' && c <= 'Z') || (c >= '0' && c <= '9') || c == '_' || c == '-'; };
  for (size_t i = 0; i < n; i++) {
    if (p[i] == '.') {
      if (i + 1 == n || !ok(p[i + 1])) return false;
      i++;
    } else if (!ok(p[i])) return false;
  }
  return true;
}

bool valid_unique_name(const std::string &s) {
  if (g_relax_unique_period) return !s.empty() && s.size() <= kMaxName && s[0] == ':' && lax_unique_tail(s.data() + 1, s.size() - 1);
  return !s.empty() && s.size() <= kMaxName && s[0] == ':' && dotted(s.data() + 1, s.size() - 1, true, true, 2);
}

bool valid_if_relaxed(const std::string &bytes, int which, const Limits &lim) {
  g_relax_dict_budget = which == 1;
  g_relax_unique_period = which == 2;
  g_dict_depth = 0;
  ParseResult r = parse(reinterpret_cast<const uint8_t *>(bytes.data()), bytes.size(), lim);
  g_relax_dict_budget = g_relax_unique_period = false;
  return r.status == P_OK;
}
bool valid_wellknown_name(const std::string &s) {
  return !s.empty() && s.size() <= kMaxName && s[0] != ':' && dotted(s.data(), s.size(), true, false, 2);
}
bool valid_bus_name(const std::string &s) { return valid_unique_name(s) || valid_wellknown_name(s); }
bool valid_interface(const std::string &s) {
  return s.size() <= kMaxName && dotted(s.data(), s.size(), false, false, 2);
}
bool valid_error_name(const std::string &s) { return valid_interface(s); }
bool valid_member(const std::string &s) {
  return s.size() <= kMaxName && s.find('.') == NPOS && dotted(s.data(), s.size(), false, false, 1);
}

bool valid_path(const std::string &s) {
  if (s.empty() || s[0] != '/') return false;
  if (s.size() == 1) return true;
  for (size_t i = 1; i < s.size(); i++) {
    char c = s[i];
    if (c == '/') { if (s[i - 1] == '/') return false; }
    else if (!(is_alpha_(c) || is_digit(c))) return false;
  }
  return s.back() != '/';
}

bool valid_signature(const std::string &s) { return check_signature(s.data(), s.size()); }
bool valid_single_type(const std::string &s) {
  return !s.empty() && s.size() <= 255 && check_single(s.data(), s.size(), 0, 0, 0) == s.size();
}

std::vector<std::string> split_signature(const std::string &s) {
  std::vector<std::string> out;
  for (size_t i = 0; i < s.size();) {
    size_t j = skip_single(s.data(), s.size(), i);
    out.push_back(s.substr(i, j - i));
    i = j;
  }
  return out;
}

int alignment_of(char c) { return align_of(c); }

// ---------------------------------------------------------------- misc

std::string hex_encode(const std::string &data) {
  static const char d[] = "0123456789abcdef";
  std::string o;
  o.reserve(data.size() * 2);
  for (unsigned char c : data) { o += d[c >> 4]; o += d[c & 15]; }
  return o;
}

bool hex_decode(const std::string &hex, std::string *out) {
  if (hex.size() % 2) return false;
  auto nib = [](char c) { return c >= '0' && c <= '9' ? c - '0' : c >= 'a' && c <= 'f' ? c - 'a' + 10
                                 : c >= 'A' && c <= 'F' ? c - 'A' + 10 : -1; };
  std::string o;
  for (size_t i = 0; i < hex.size(); i += 2) {
    int a = nib(hex[i]), b = nib(hex[i + 1]);
    if (a < 0 || b < 0) return false;
    o += char(a * 16 + b);
  }
  if (out) *out = std::move(o);
  return true;
}

std::string sha1_hex(const std::string &data) {
  uint32_t h[5] = {0x67452301u, 0xefcdab89u, 0x98badcfeu, 0x10325476u, 0xc3d2e1f0u};
  std::string msg = data;
  const uint64_t bits = uint64_t(data.size()) * 8;
  msg.push_back(char(0x80));
  while (msg.size() % 64 != 56) msg.push_back('\0');
  for (int i = 7; i >= 0; i--) msg.push_back(char((bits >> (8 * i)) & 0xff));
  auto rol = [](uint32_t v, int s) { return (v << s) | (v >> (32 - s)); };
  for (size_t off = 0; off < msg.size(); off += 64) {
    uint32_t w[80];
    for (int i = 0; i < 16; i++) {
      const unsigned char *q = reinterpret_cast<const unsigned char *>(msg.data()) + off + size_t(i) * 4;
      w[i] = uint32_t(q[0]) << 24 | uint32_t(q[1]) << 16 | uint32_t(q[2]) << 8 | uint32_t(q[3]);
    }
    for (int i = 16; i < 80; i++) w[i] = rol(w[i - 3] ^ w[i - 8] ^ w[i - 14] ^ w[i - 16], 1);
    uint32_t a = h[0], b = h[1], c = h[2], d = h[3], e = h[4];
    for (int i = 0; i < 80; i++) {
      uint32_t f, k;
      if (i < 20) { f = (b & c) | (~b & d); k = 0x5a827999u; }
      else if (i < 40) { f = b ^ c ^ d; k = 0x6ed9eba1u; }
      else if (i < 60) { f = (b & c) | (b & d) | (c & d); k = 0x8f1bbcdcu; }
      else { f = b ^ c ^ d; k = 0xca62c1d6u; }
      uint32_t t = rol(a, 5) + f + e + k + w[i];
      e = d; d = c; c = rol(b, 30); b = a; a = t;
    }
    h[0] += a; h[1] += b; h[2] += c; h[3] += d; h[4] += e;
  }
  std::string raw;
  for (uint32_t x : h) for (int i = 3; i >= 0; i--) raw.push_back(char((x >> (8 * i)) & 0xff));
  return hex_encode(raw);
}

}  // namespace wire
