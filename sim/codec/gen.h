// sim/codec/gen.h — seeded random generators of VALID D-Bus names, type
// trees, values and messages (built on wire.h only).  Shared by test_wire.cc
// and diff_libdbus.cc; header-only, deterministic for a given seed.
#pragma once
#include <algorithm>
#include <string>
#include <vector>

#include "wire.h"

namespace wiregen {

struct Rng {  // splitmix64
  uint64_t s;
  explicit Rng(uint64_t seed) : s(seed) {}
  uint64_t next() {
    uint64_t z = (s += 0x9e3779b97f4a7c15ull);
    z = (z ^ (z >> 30)) * 0xbf58476d1ce4e5b9ull;
    z = (z ^ (z >> 27)) * 0x94d049bb133111ebull;
    return z ^ (z >> 31);
  }
  uint32_t below(uint32_t n) { return n ? uint32_t(next() % n) : 0; }
  bool chance(uint32_t pct) { return below(100) < pct; }
  template <class T> const T &pick(const std::vector<T> &v) { return v[below(uint32_t(v.size()))]; }
};

inline std::string ident(Rng &r, bool digit_first, bool hyphen, uint32_t maxlen = 8) {
  static const char first[] = "ABCXYZabcxyz_";
  static const char rest[] = "ABCXYZabcxyz_0123456789";
  std::string s;
  uint32_t n = 1 + r.below(maxlen);
  for (uint32_t i = 0; i < n; i++) {
    if (hyphen && r.chance(8)) s += '-';
    else if (i == 0 && !digit_first) s += first[r.below(sizeof first - 1)];
    else s += rest[r.below(sizeof rest - 1)];
  }
  return s;
}
inline std::string gen_member(Rng &r) { return ident(r, false, false, 12); }
inline std::string gen_interface(Rng &r) {
  std::string s = ident(r, false, false);
  for (uint32_t i = 0, n = 1 + r.below(4); i < n; i++) s += "." + ident(r, false, false);
  return s;
}
inline std::string gen_wellknown(Rng &r) {
  std::string s = ident(r, false, true);
  for (uint32_t i = 0, n = 1 + r.below(4); i < n; i++) s += "." + ident(r, false, true);
  return s;
}
inline std::string gen_unique(Rng &r) {
  std::string s = ":" + ident(r, true, true);
  for (uint32_t i = 0, n = 1 + r.below(3); i < n; i++) s += "." + ident(r, true, true);
  return s;
}
inline std::string gen_busname(Rng &r) { return r.chance(50) ? gen_unique(r) : gen_wellknown(r); }
inline std::string gen_path(Rng &r) {
  if (r.chance(10)) return "/";
  std::string s;
  for (uint32_t i = 0, n = 1 + r.below(5); i < n; i++) s += "/" + ident(r, true, false);
  return s;
}
inline void put_utf8(std::string &s, uint32_t cp) {
  if (cp < 0x80) s += char(cp);
  else if (cp < 0x800) { s += char(0xc0 | (cp >> 6)); s += char(0x80 | (cp & 0x3f)); }
  else if (cp < 0x10000) { s += char(0xe0 | (cp >> 12)); s += char(0x80 | ((cp >> 6) & 0x3f)); s += char(0x80 | (cp & 0x3f)); }
  else { s += char(0xf0 | (cp >> 18)); s += char(0x80 | ((cp >> 12) & 0x3f)); s += char(0x80 | ((cp >> 6) & 0x3f)); s += char(0x80 | (cp & 0x3f)); }
}
inline std::string gen_utf8(Rng &r, uint32_t maxchars = 12) {
  static const uint32_t special[] = {0x7f, 0x80, 0x7ff, 0x800, 0xd7ff, 0xe000, 0xfdd0, 0xfdef, 0xfffd, 0xfffe,
                                     0xffff, 0x10000, 0x1fffe, 0x1ffff, 0x10fffe, 0x10ffff, 1};
  std::string s;
  for (uint32_t i = 0, n = r.below(maxchars + 1); i < n; i++) {
    uint32_t k = r.below(10), cp;
    if (k < 5) cp = 0x20 + r.below(0x5f);
    else if (k == 5) cp = 1 + r.below(0x7f);
    else if (k == 6) cp = 0x80 + r.below(0x780);
    else if (k == 7) { cp = 0x800 + r.below(0xf800); if (cp >= 0xd800 && cp <= 0xdfff) cp = 0xe000; }
    else if (k == 8) cp = 0x10000 + r.below(0x100000);
    else cp = special[r.below(sizeof special / sizeof *special)];
    put_utf8(s, cp);
  }
  return s;
}

// One random single complete type; `depth` bounds container nesting.
// `fds` = whether UNIX_FD ('h') may appear.
inline std::string gen_type(Rng &r, int depth, bool fds = true) {
  static const char basic[] = "ybnqiuxtdsogh";
  const uint32_t nb = uint32_t(sizeof basic - 1) - (fds ? 0 : 1);
  uint32_t k = depth <= 0 ? 0 : r.below(100);
  if (k < 50) return std::string(1, basic[r.below(nb)]);
  if (k < 62) return "v";
  if (k < 78) return "a" + gen_type(r, depth - 1, fds);
  if (k < 88) return std::string("a{") + basic[r.below(nb)] + gen_type(r, depth - 1, fds) + "}";
  std::string s = "(";
  for (uint32_t i = 0, n = 1 + r.below(3); i < n; i++) s += gen_type(r, depth - 1, fds);
  return s + ")";
}

// A random value of single complete type `sig`.  `budget` bounds the total
// number of array elements; `vdepth` bounds variant-in-variant recursion.
inline wire::Value gen_value(Rng &r, const std::string &sig, int &budget, int vdepth = 3, bool fds = true) {
  using wire::Value;
  char c = sig[0];
  switch (c) {
    case 'y': return Value::byte(uint8_t(r.next()));
    case 'b': return Value::boolean(r.chance(50));
    case 'n': return Value::i16(int16_t(r.next()));
    case 'q': return Value::u16(uint16_t(r.next()));
    case 'i': return Value::i32(int32_t(r.next()));
    case 'u': return Value::u32(uint32_t(r.next()));
    case 'x': return Value::i64(int64_t(r.next()));
    case 't': return Value::u64(r.next());
    case 'd': return Value::dbl_bits(r.next());
    case 'h': return Value::fd_index(r.below(4));
    case 's': return Value::string(gen_utf8(r));
    case 'o': return Value::path(gen_path(r));
    case 'g': {
      std::string s;
      for (uint32_t i = 0, n = r.below(3); i < n; i++) s += gen_type(r, 2, fds);
      return Value::sigval(s);
    }
    case 'v': return Value::variant(gen_value(r, gen_type(r, vdepth > 0 ? 2 : 0, fds), budget, vdepth - 1, fds));
    case 'a': {
      std::string es = sig.substr(1);
      std::vector<Value> kids;
      uint32_t n = (budget <= 0 || r.chance(30)) ? 0 : 1 + r.below(3);
      budget -= int(n);
      for (uint32_t i = 0; i < n; i++) kids.push_back(gen_value(r, es, budget, vdepth, fds));
      return Value::array(es, std::move(kids));
    }
    case '(': case '{': {
      std::vector<Value> kids;
      for (const std::string &t : wire::split_signature(sig.substr(1, sig.size() - 2)))
        kids.push_back(gen_value(r, t, budget, vdepth, fds));
      if (c == '{') return Value::dict_entry(kids[0], kids[1]);
      return Value::strukt(std::move(kids));
    }
  }
  return Value();
}

struct MsgOpts {
  bool unknown_types = true;    // message types 5..255
  bool unknown_fields = true;   // header field codes 11..255
  bool nonzero_unix_fds = true; // UNIX_FDS field may be > 0
  bool fd_type = true;          // UNIX_FD ('h') values may appear
};

// A random VALID message (under default Limits).
inline wire::Msg gen_msg(Rng &r, const MsgOpts &o = MsgOpts()) {
  using namespace wire;
  Msg m;
  m.big_endian = r.chance(50);
  m.type = (o.unknown_types && r.chance(8)) ? uint8_t(5 + r.below(251)) : uint8_t(1 + r.below(4));
  m.flags = r.chance(50) ? 0 : uint8_t(r.next());
  m.serial = r.chance(10) ? 0xffffffffu : 1 + r.below(0xfffffffeu);
  auto opt = [&](uint32_t pct) { return r.chance(pct); };
  bool call = m.type == T_CALL, sig = m.type == T_SIGNAL, err = m.type == T_ERROR, ret = m.type == T_RETURN;
  if (call || sig || opt(15)) m.set_field(F_PATH, Value::path(gen_path(r)));
  if (sig || opt(call ? 70 : 15)) m.set_field(F_INTERFACE, Value::string(gen_interface(r)));
  if (call || sig || opt(15)) m.set_field(F_MEMBER, Value::string(gen_member(r)));
  if (err || opt(10)) m.set_field(F_ERROR_NAME, Value::string(gen_interface(r)));
  if (err || ret || opt(10)) m.set_field(F_REPLY_SERIAL, Value::u32(1 + r.below(0xfffffffeu)));
  if (opt(60)) m.set_field(F_DESTINATION, Value::string(gen_busname(r)));
  if (opt(40)) m.set_field(F_SENDER, Value::string(gen_busname(r)));
  if (opt(15)) m.set_field(F_UNIX_FDS, Value::u32(o.nonzero_unix_fds && r.chance(30) ? 1 + r.below(5) : 0));
  if (opt(8)) m.set_field(F_CONTAINER_INSTANCE, Value::path(gen_path(r)));
  int budget = 12;
  if (o.unknown_fields)
    for (uint32_t i = 0, n = r.chance(25) ? 1 + r.below(3) : 0; i < n; i++) {
      Field f;
      f.code = uint8_t(11 + r.below(245));
      f.val = gen_value(r, gen_type(r, 2, o.fd_type), budget, 1, o.fd_type);
      m.fields.push_back(f);
    }
  std::vector<Value> body;
  for (uint32_t i = 0, n = r.chance(25) ? 0 : 1 + r.below(4); i < n; i++)
    body.push_back(gen_value(r, gen_type(r, 3, o.fd_type), budget, 3, o.fd_type));
  m.set_body(std::move(body));
  if (m.body.empty() && r.chance(20)) m.set_field(F_SIGNATURE, Value::sigval(""));  // explicit empty signature
  for (size_t i = m.fields.size(); i > 1; i--) std::swap(m.fields[i - 1], m.fields[r.below(uint32_t(i))]);
  return m;
}

}  // namespace wiregen
