// sim/codec/corrupt.h — single-site structural corruptions of a message, expressed on the message structure and
// marshalled as is (shared by the stream checks C01/C11 and the hostile clients of C10)
#pragma once
#include <string>
#include <vector>

#include "codec/gen.h"
#include "codec/wire.h"

namespace wiregen {

inline std::string corrupt_structured(wiregen::Rng &r, wire::Msg m) {
  // single-site corruption expressed on the message structure, then marshalled as is
  int k = (int)r.below(20);
  switch (k) {
    case 18: case 19: {
      // a string that is not valid UTF-8 / contains NUL, the bad bytes anywhere inside runs of plain ASCII of any
      // length (validators have word-at-a-time fast paths), alone or inside an array
      static const char *bad[] = {"\0", "\x80", "\xc0\x80", "\xed\xa0\x80", "\xf4\x90\x80\x80", "\xe2\x82", "\xff", "\xc1\xbf", "\xf8\x88\x80\x80\x80"};
      static const size_t badlen[] = {1, 1, 2, 3, 4, 2, 1, 2, 5};
      uint32_t bi = r.below(9);
      std::string sv = std::string(r.below(r.chance(50) ? 12 : 40), 'a') + std::string(bad[bi], badlen[bi]) + std::string(r.below(r.chance(50) ? 12 : 40), 'b');
      auto b = m.body;
      if (k == 18) b.push_back(wire::Value::string(sv));
      else b.push_back(wire::Value::array("s", {wire::Value::string("ok"), wire::Value::string(sv)}));
      m.set_body(b);
      break;
    }
    case 14: { auto b = m.body; wire::Value bad = wire::Value::boolean(true); bad.u = 2 + r.below(1000); std::vector<wire::Value> el = {wire::Value::boolean(false), bad, wire::Value::boolean(true)};
               b.push_back(wire::Value::array("b", el)); m.set_body(b); break; }                                                   // boolean out of range INSIDE an array
    case 15: { std::vector<wire::Value> el(1 + 2 * r.below(3), wire::Value::byte(7)); m.set_body({wire::Value::array("y", el)}); m.set_field(wire::F_SIGNATURE, wire::Value::sigval(r.chance(50) ? "aq" : "an")); break; }   // fixed array, length not a multiple of the item size
    case 16: { std::vector<wire::Value> el(1 + r.below(3), wire::Value::byte(7)); m.set_body({wire::Value::array("y", el)}); m.set_field(wire::F_SIGNATURE, wire::Value::sigval("au")); break; }
    case 17: { static const char *bad[] = {"a{y(yy})", "(ia{ss)}", "(i}", "a{si)", "((i)", "a{s}", "a{vs}", "()", "aa", "a{ss}i)"}; m.set_body({wire::Value::sigval(bad[r.below(10)])}); break; }   // signature VALUE that is not a signature
    case 0: m.serial = 0; break;
    case 1: m.version = (uint8_t)(2 + r.below(200)); break;
    case 2: m.type = 0; break;
    case 3: if (!m.fields.empty()) m.fields.push_back(m.fields[r.below((uint32_t)m.fields.size())]); break;   // duplicate field
    case 4: if (!m.fields.empty()) { auto &f = m.fields[r.below((uint32_t)m.fields.size())]; f.val = wire::Value::u32(7); } break;   // wrong type
    case 5: m.remove_field(m.type == wire::T_CALL || m.type == wire::T_SIGNAL ? wire::F_PATH : wire::F_REPLY_SERIAL); break;      // mandatory field missing
    case 6: m.set_field(wire::F_PATH, wire::Value::path(r.chance(50) ? "/a//b" : "/a/")); break;
    case 7: m.set_field(wire::F_INTERFACE, wire::Value::string(r.chance(50) ? "nodot" : "a..b")); break;
    case 8: m.set_field(wire::F_MEMBER, wire::Value::string(r.chance(50) ? "has.dot" : "9digit")); break;
    case 9: m.set_field(wire::F_DESTINATION, wire::Value::string(r.chance(50) ? "a.b..c" : std::string(256, 'a') + ".b")); break;
    case 10: { auto b = m.body; b.push_back(wire::Value::string(std::string("bad\xc0\x80utf8"))); m.set_body(b); break; }
    case 11: { auto b = m.body; wire::Value v = wire::Value::boolean(true); v.u = 2; b.push_back(v); m.set_body(b); break; }
    case 12: { auto b = m.body; b.push_back(wire::Value::string("x")); m.set_body(b); m.set_field(wire::F_SIGNATURE, wire::Value::sigval("u")); break; }   // body/signature mismatch
    default: m.fields.push_back({0, wire::Value::u32(1)}); break;   // field code 0
  }
  return wire::marshal(m);
}


}  // namespace wiregen
