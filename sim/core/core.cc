// sim/core/core.cc
#include "core/core.h"

#include <stdarg.h>
#include <unistd.h>
#include <sys/syscall.h>
#include <stdio.h>
#include <stdlib.h>
#include <string.h>
#include <time.h>

#include <fstream>
#include <sstream>

namespace core {

int64_t Plan::C(const std::string &k, int64_t d) const {
  auto it = cfg.find(k);
  return it == cfg.end() ? d : strtoll(it->second.c_str(), nullptr, 10);
}
std::string Plan::CS(const std::string &k, const std::string &d) const {
  auto it = cfg.find(k);
  return it == cfg.end() ? d : it->second;
}

std::string enc(const std::string &raw) {
  static const char *hex = "0123456789abcdef";
  std::string o;
  if (raw.empty()) return "%";
  for (unsigned char c : raw) {
    if (c > 0x20 && c < 0x7f && c != '%') o += (char)c;
    else { o += '%'; o += hex[c >> 4]; o += hex[c & 15]; }
  }
  return o;
}
static int hv(char c) { return c <= '9' ? c - '0' : (c | 32) - 'a' + 10; }
std::string dec(const std::string &e) {
  std::string o;
  if (e == "%") return o;
  for (size_t i = 0; i < e.size(); i++) {
    if (e[i] == '%' && i + 3 <= e.size()) {
      o += (char)(hv(e[i + 1]) * 16 + hv(e[i + 2]));
      i += 2;
    } else {
      o += e[i];
    }
  }
  return o;
}

std::string plan_to_text(const Plan &p) {
  std::ostringstream o;
  o << "# simplan v1\n";
  o << "prop " << p.prop << "\n";
  o << "seed " << p.seed << "\n";
  for (auto &kv : p.cfg) o << "cfg " << kv.first << " " << enc(kv.second) << "\n";
  for (auto &s : p.steps) {
    o << "step " << s.t << " " << s.a << " ";
    if (s.n.empty()) o << "-";
    for (size_t i = 0; i < s.n.size(); i++) o << (i ? "," : "") << s.n[i];
    for (auto &x : s.s) o << " " << enc(x);
    o << "\n";
  }
  return o.str();
}

bool plan_from_text(const std::string &text, Plan *out, std::string *err) {
  std::istringstream in(text);
  std::string line;
  Plan p;
  int ln = 0;
  while (std::getline(in, line)) {
    ln++;
    if (line.empty() || line[0] == '#') continue;
    std::istringstream ls(line);
    std::string w;
    ls >> w;
    if (w == "prop") ls >> p.prop;
    else if (w == "seed") ls >> p.seed;
    else if (w == "cfg") {
      std::string k, v;
      ls >> k >> v;
      p.cfg[k] = dec(v);
    } else if (w == "step") {
      Step s;
      std::string nums, x;
      ls >> s.t >> s.a >> nums;
      if (nums != "-") {
        std::istringstream ns(nums);
        std::string tok;
        while (std::getline(ns, tok, ',')) s.n.push_back(strtoll(tok.c_str(), nullptr, 10));
      }
      while (ls >> x) s.s.push_back(dec(x));
      p.steps.push_back(s);
    } else if (w == "expect" || w == "class" || w == "note") {
      // informational lines written into replay files
    } else {
      if (err) *err = "line " + std::to_string(ln) + ": unknown directive " + w;
      return false;
    }
  }
  *out = p;
  return true;
}

void Trace::ev(const char *fmt, ...) {
  char buf[1024];
  va_list ap;
  va_start(ap, fmt);
  int n = vsnprintf(buf, sizeof buf, fmt, ap);
  va_end(ap);
  if (n < 0) n = 0;
  if ((size_t)n >= sizeof buf) n = sizeof buf - 1;
  for (int i = 0; i < n; i++) { h ^= (unsigned char)buf[i]; h *= 1099511628211ull; }
  h ^= 0xff; h *= 1099511628211ull;
  events++;
  if (keep_text) { text.append(buf, n); text += '\n'; }
}

void fail(const std::string &cls, const char *fmt, ...) {
  char buf[4096];
  va_list ap;
  va_start(ap, fmt);
  vsnprintf(buf, sizeof buf, fmt, ap);
  va_end(ap);
  throw Violation{cls, buf};
}

void harness_error(const char *fmt, ...) {
  va_list ap;
  va_start(ap, fmt);
  fprintf(stderr, "HARNESS-ERROR: ");
  vfprintf(stderr, fmt, ap);
  fprintf(stderr, "\n");
  va_end(ap);
  fflush(stderr);
  fflush(stdout);
  _exit(2);
}

uint64_t mix_seed(uint64_t base, uint64_t i) {
  uint64_t z = base * 0x9e3779b97f4a7c15ull + i * 0xbf58476d1ce4e5b9ull + 0x94d049bb133111ebull;
  z = (z ^ (z >> 30)) * 0xbf58476d1ce4e5b9ull;
  z = (z ^ (z >> 27)) * 0x94d049bb133111ebull;
  z ^= z >> 31;
  return z & 0x7fffffffffffull;  // keep seeds printable as positive 47-bit ints
}

static std::string json_escape(const std::string &s) {
  std::string o;
  for (unsigned char c : s) {
    if (c == '"' || c == '\\') { o += '\\'; o += (char)c; }
    else if (c < 0x20 || c >= 0x7f) { char b[8]; snprintf(b, sizeof b, "\\u%04x", c); o += b; }
    else o += (char)c;
  }
  return o;
}

static double wall_now() {
  struct timespec ts;
  // CLOCK_MONOTONIC_RAW through the vDSO/syscall directly: the wrapper of
  // clock_gettime serves virtual time, so ask the kernel by syscall number.
  syscall(SYS_clock_gettime, 1 /* CLOCK_MONOTONIC */, &ts);
  return ts.tv_sec + ts.tv_nsec / 1e9;
}

static void print_result(uint64_t seed, const RunResult &r) {
  if (r.ok) printf("OK %llu %016llx %d\n", (unsigned long long)seed, (unsigned long long)r.hash, r.nontrivial ? 1 : 0);
  else {
    std::string d = r.detail;
    for (auto &c : d) if (c == '\n') c = ' ';
    printf("FAIL %llu %s %016llx :: %s\n", (unsigned long long)seed, r.cls.c_str(), (unsigned long long)r.hash, d.c_str());
  }
  fflush(stdout);
}

int worker_main(int argc, char **argv, const Harness &h) {
  std::string prop, replay;
  uint64_t seed = 1, base = 1, stride = 1, offset = 0, max_runs = ~0ull, first_index = 0, log_seed = 0;
  double budget = 0;
  bool thorough = false, log = false, emit = false, have_seed = false, statelog = false;
  for (int i = 1; i < argc; i++) {
    std::string a = argv[i];
    auto nxt = [&]() -> const char * { if (i + 1 >= argc) harness_error("missing value for %s", a.c_str()); return argv[++i]; };
    if (a == "--prop") prop = nxt();
    else if (a == "--seed") { seed = strtoull(nxt(), nullptr, 10); have_seed = true; }
    else if (a == "--base") base = strtoull(nxt(), nullptr, 10);
    else if (a == "--stride") stride = strtoull(nxt(), nullptr, 10);
    else if (a == "--offset") offset = strtoull(nxt(), nullptr, 10);
    else if (a == "--log-seed") log_seed = strtoull(nxt(), nullptr, 10);
    else if (a == "--first-index") first_index = strtoull(nxt(), nullptr, 10);
    else if (a == "--budget-s") budget = atof(nxt());
    else if (a == "--max-runs") max_runs = strtoull(nxt(), nullptr, 10);
    else if (a == "--thorough") thorough = true;
    else if (a == "--log") log = true;
    else if (a == "--states") statelog = true;
    else if (a == "--emit-plan") emit = true;
    else if (a == "--replay") replay = nxt();
    else harness_error("unknown argument %s", a.c_str());
  }
  if (!replay.empty()) {
    std::ifstream f(replay);
    if (!f) harness_error("cannot read %s", replay.c_str());
    std::stringstream ss;
    ss << f.rdbuf();
    Plan p;
    std::string err;
    if (!plan_from_text(ss.str(), &p, &err)) harness_error("bad plan: %s", err.c_str());
    RunResult r = h.run(p, log);
    if (log) { fputs(r.sample.c_str(), stdout); if (r.sample.empty() || r.sample.back() != '\n') fputc('\n', stdout); }
    print_result(p.seed, r);
    return r.ok ? 0 : 1;
  }
  if (prop.empty()) harness_error("--prop required");
  if (emit) {
    Plan p = h.gen(prop, seed, thorough);
    fputs(plan_to_text(p).c_str(), stdout);
    return 0;
  }
  if (have_seed) {
    Plan p = h.gen(prop, seed, thorough);
    RunResult r = h.run(p, log);
    if (log) { fputs(r.sample.c_str(), stdout); if (r.sample.empty() || r.sample.back() != '\n') fputc('\n', stdout); }
    print_result(seed, r);
    return r.ok ? 0 : 1;
  }
  // batch mode
  std::map<std::string, uint64_t> sum;
  double t0 = wall_now();
  uint64_t runs = 0, nontriv = 0;
  int64_t sim_us = 0;
  int samples = 0;
  int rc = 0;
  for (uint64_t i = first_index; i < max_runs; i++) {
    if (budget > 0 && wall_now() - t0 > budget) break;
    uint64_t s = mix_seed(base, offset + i * stride);
    printf("RUN %llu\n", (unsigned long long)s);
    fflush(stdout);
    Plan p = h.gen(prop, s, thorough);
    RunResult r = h.run(p, log_seed != 0 && s == log_seed);
    if (log_seed != 0 && s == log_seed) fputs(r.sample.c_str(), stdout);
    runs++;
    for (auto &kv : r.counters) sum[kv.first] += kv.second;
    sim_us += r.sim_us;
    if (r.nontrivial) nontriv++;
    print_result(s, r);
    if (statelog && !r.states.empty()) {
      printf("STATES");
      for (uint64_t x : r.states) printf(" %llx", (unsigned long long)x);
      printf("\n");
    }
    if (r.ok && samples < 2 && r.nontrivial && !r.sample.empty()) {
      printf("SAMPLE {\"seed\":%llu,\"history\":\"%s\"}\n", (unsigned long long)s, json_escape(r.sample).c_str());
      samples++;
    }
    if (!r.ok) { rc = 1; break; }
  }
  printf("STATS {\"runs\":%llu,\"nontrivial_runs\":%llu,\"sim_us\":%lld,\"wall_s\":%.3f", (unsigned long long)runs,
         (unsigned long long)nontriv, (long long)sim_us, wall_now() - t0);
  for (auto &kv : sum) printf(",\"%s\":%llu", json_escape(kv.first).c_str(), (unsigned long long)kv.second);
  printf("}\n");
  fflush(stdout);
  return rc;
}

}  // namespace core
