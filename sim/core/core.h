// sim/core/core.h — plans, trace hash, failure type, worker protocol.
#pragma once
#include <cstdint>
#include <functional>
#include <map>
#include <set>
#include <string>
#include <vector>

namespace core {

// One step of a plan.  Every step is total: indices are interpreted modulo
// what exists, an op on a closed actor is a no-op.  Faults are attributes of
// the step they perturb.
struct Step {
  std::string t;                 // kind
  int a = -1;                    // actor (or -1)
  std::vector<int64_t> n;        // numeric args
  std::vector<std::string> s;    // string args (arbitrary bytes)
  int64_t N(size_t i, int64_t d = 0) const { return i < n.size() ? n[i] : d; }
  const std::string &S(size_t i) const { static const std::string e; return i < s.size() ? s[i] : e; }
};

struct Plan {
  std::string prop;                               // property / check id this plan belongs to
  uint64_t seed = 0;                              // seed it was generated from (informational once minimised)
  std::map<std::string, std::string> cfg;         // run configuration (bus config knobs, actor table ...)
  std::vector<Step> steps;
  int64_t C(const std::string &k, int64_t d = 0) const;
  std::string CS(const std::string &k, const std::string &d = "") const;
};

std::string plan_to_text(const Plan &p);
bool plan_from_text(const std::string &text, Plan *out, std::string *err);
std::string enc(const std::string &raw);          // percent-encoding used in plan files
std::string dec(const std::string &e);

// Event log + FNV-1a trace hash.  Logging never draws randomness or reads clocks.
struct Trace {
  uint64_t h = 1469598103934665603ull;
  bool keep_text = false;
  std::string text;
  uint64_t events = 0;
  void ev(const char *fmt, ...) __attribute__((format(printf, 2, 3)));
  void reset(bool keep) { h = 1469598103934665603ull; keep_text = keep; text.clear(); events = 0; }
};

// Thrown by oracles; classified string like "oracle:C04:reply-code".
struct Violation {
  std::string cls;
  std::string detail;
};
[[noreturn]] void fail(const std::string &cls, const char *fmt, ...) __attribute__((format(printf, 2, 3)));
// Harness bug / API misuse / impossible situation: exit code 2, never a VIOLATION.
[[noreturn]] void harness_error(const char *fmt, ...) __attribute__((format(printf, 1, 2)));

struct RunResult {
  bool ok = true;
  std::string cls, detail;
  uint64_t hash = 0;
  bool nontrivial = false;                        // >=1 fault fired and >=1 non-vacuous oracle comparison
  int64_t sim_us = 0;                             // simulated time covered
  std::map<std::string, uint64_t> counters;       // faults fired, probes hit, oracle comparisons, syscalls ...
  std::string sample;                             // short rendering of the history (for evidence samples)
  uint64_t state_sig = 0;                         // abstract state signature(s) reached, folded
  std::vector<uint64_t> states;                   // distinct abstract (state,op) signatures visited
};

struct Harness {
  // generate the plan for (prop, seed, tier)
  std::function<Plan(const std::string &prop, uint64_t seed, bool thorough)> gen;
  // execute a plan; must catch Violation and fill RunResult; `log` keeps text
  std::function<RunResult(const Plan &, bool log)> run;
};

// Implements the worker command line:
//   --prop ID --seed S [--thorough] [--log]        one run, prints result (and log)
//   --prop ID --emit-plan --seed S                  print the generated plan
//   --replay FILE [--log]                           run a plan file
//   --prop ID --base B --stride K --offset O --budget-s T [--max-runs M] [--thorough]
//                                                   many runs: seeds = mix(B, O + i*K)
// Output protocol (stdout, flushed per line):
//   RUN <seed>
//   OK <seed> <hash16> <nontrivial 0|1>
//   FAIL <seed> <class> <hash16> :: <detail>
//   SAMPLE <text>
//   STATS <json object of summed counters>
// Exit: 0 all ok, 1 a run failed (worker stops at first failure), 2 harness error.
int worker_main(int argc, char **argv, const Harness &h);

uint64_t mix_seed(uint64_t base, uint64_t i);

}  // namespace core
